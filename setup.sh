#!/bin/bash
# Build the whole framework from files on disk only (offline).
set -e
cd "$(dirname "$0")"
export CARGO_NET_OFFLINE=true
(cd lean && lake build)
(cd harness && { [ -f prebuild.sh ] && bash prebuild.sh; cargo build --offline; cargo build --offline --features pre --target-dir target_pre; cargo build --offline --features uring --target-dir target_uring; })
echo "setup ok"
