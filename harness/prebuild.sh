#!/bin/bash
# Built before the harness on every check: the hook dylib from /repo/hook (current working tree) and the
# process-level helper `ochhook` that links it the way an application does.
set -e
export CARGO_NET_OFFLINE=true
cd /verif/harness_hook
cargo build --offline --manifest-path /repo/hook/Cargo.toml --target-dir /verif/harness_hook/target_hooklib 2>&1 | tail -3
[ -f Cargo.lock ] || cp /repo/Cargo.lock .
cargo build --offline 2>&1 | tail -3
