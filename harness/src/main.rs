//! och — correspondence harness: runs the real open-coroutine code on generated or replayed
//! cases and prints one history line per case:  `<comp> <id> : <case body> => <outputs>`.
mod comps;
mod iso;
mod rng;

use std::io::{BufRead, Write};

pub struct Comp {
    pub name: &'static str,
    /// generate the body of case `k`
    pub gen: fn(&mut rng::Rng, bool) -> String,
    /// execute a case body on the real implementation; every op output is passed to `emit`
    pub exec: fn(&str, &mut dyn FnMut(&str)),
    /// per-case isolation timeout in ms (0 = run in-process, no fork)
    pub isolate_ms: u64,
}

fn find(name: &str) -> &'static Comp {
    comps::ALL.iter().find(|c| c.name == name).unwrap_or_else(|| {
        eprintln!("unknown component {name}");
        std::process::exit(2)
    })
}

fn run_case(c: &Comp, body: &str) -> String {
    if c.isolate_ms == 0 {
        let mut outs: Vec<String> = Vec::new();
        (c.exec)(body, &mut |o: &str| outs.push(o.to_string()));
        outs.join(" | ")
    } else {
        let b = body.to_string();
        let e = c.exec;
        iso::isolated(c.isolate_ms, move |emit| e(&b, emit))
    }
}

fn main() {
    let args: Vec<String> = std::env::args().collect();
    let mode = args.get(1).map(String::as_str).unwrap_or("");
    let mut seed = 0u64;
    let mut cases = 100u64;
    let mut thorough = false;
    let mut comp = String::new();
    let mut i = 2;
    while i < args.len() {
        match args[i].as_str() {
            "--seed" => { seed = args[i + 1].parse().expect("seed"); i += 1; }
            "--cases" => { cases = args[i + 1].parse().expect("cases"); i += 1; }
            "--tier" => { thorough = args[i + 1] == "thorough"; i += 1; }
            s => comp = s.to_string(),
        }
        i += 1;
    }
    let out = std::io::stdout();
    match mode {
        "go" | "gen" => {
            let c = find(&comp);
            let base = rng::Rng::new(seed);
            for k in 0..cases {
                let mut r = base.fork(k);
                let body = (c.gen)(&mut r, thorough);
                let mut o = out.lock();
                if mode == "gen" {
                    writeln!(o, "{} {} : {}", c.name, k, body).unwrap();
                } else {
                    drop(o);
                    let res = run_case(c, &body);
                    let mut o = out.lock();
                    writeln!(o, "{} {} : {} => {}", c.name, k, body, res.trim()).unwrap();
                }
            }
        }
        "run" => {
            // stdin: `<comp> <id> : <body>` lines (anything after " => " is ignored)
            let stdin = std::io::stdin();
            for line in stdin.lock().lines() {
                let line = line.unwrap();
                let line = line.split(" => ").next().unwrap().trim().to_string();
                if line.is_empty() { continue; }
                let (head, body) = line.split_once(" : ").unwrap_or((&line, ""));
                let name = head.split(' ').next().unwrap();
                let c = find(name);
                let res = run_case(c, body);
                let mut o = out.lock();
                writeln!(o, "{} : {} => {}", head, body, res.trim()).unwrap();
            }
        }
        _ => {
            eprintln!("usage: och go|gen <comp> --seed S --cases N [--tier thorough] | och run < cases");
            std::process::exit(2);
        }
    }
}
