//! SplitMix64: every random choice in the harness derives from one state.
#[derive(Clone)]
pub struct Rng(pub u64);
impl Rng {
    pub fn new(seed: u64) -> Self { Rng(seed.wrapping_mul(0x9E37_79B9_7F4A_7C15) ^ 0xD1B5_4A32_D192_ED03) }
    pub fn next(&mut self) -> u64 {
        self.0 = self.0.wrapping_add(0x9E37_79B9_7F4A_7C15);
        let mut z = self.0;
        z = (z ^ (z >> 30)).wrapping_mul(0xBF58_476D_1CE4_E5B9);
        z = (z ^ (z >> 27)).wrapping_mul(0x94D0_49BB_1331_11EB);
        z ^ (z >> 31)
    }
    /// uniform in 0..n (n > 0)
    pub fn below(&mut self, n: u64) -> u64 { self.next() % n }
    pub fn range(&mut self, lo: u64, hi: u64) -> u64 { lo + self.below(hi - lo + 1) }
    pub fn chance(&mut self, num: u64, den: u64) -> bool { self.below(den) < num }
    pub fn pick<'a, T>(&mut self, xs: &'a [T]) -> &'a T { &xs[self.below(xs.len() as u64) as usize] }
    /// derive an independent stream for case k
    pub fn fork(&self, k: u64) -> Rng { Rng::new(self.0 ^ k.wrapping_mul(0xA24B_AED4_963E_E407)) }
}
