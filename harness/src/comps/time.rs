//! C28: get_timeout_time / get_slices / get_time_limit on the real code.
//! ops:  deadline <secs> <nanos> <now> | slices <total_ns> <slice_ns> | limit <sec> <usec>
use crate::rng::Rng;
use open_coroutine_core::common::{get_slices, get_timeout_time};
use std::time::Duration;

const U64: u64 = u64::MAX;

fn boundary_u64(r: &mut Rng) -> u64 {
    match r.below(10) {
        0 => 0,
        1 => 1,
        2 => U64,
        3 => U64 - r.below(1000),
        4 => r.below(1000),
        5 => 1u64 << r.below(64),
        6 => (1u64 << r.below(64)).wrapping_sub(1),
        7 => r.below(2_000_000_000),
        8 => U64 / 2 + r.below(1000),
        _ => r.next(),
    }
}

fn gen_op(r: &mut Rng) -> String {
    match r.below(3) {
        0 => {
            // duration as (secs, nanos); nanos < 1e9
            let secs = match r.below(6) {
                0 => 0,
                1 => U64,
                2 => U64 / 1_000_000_000 + r.below(3) - 1, // around the u64-nanos boundary
                3 => r.below(100),
                4 => 18_446_744_073 + r.below(2),
                _ => boundary_u64(r),
            };
            let nanos = match r.below(4) { 0 => 0, 1 => 999_999_999, 2 => 709_551_615 + r.below(3) - 1, _ => r.below(1_000_000_000) };
            let now = boundary_u64(r);
            format!("deadline {secs} {nanos} {now}")
        }
        1 => {
            // keep the piece count materialisable (<= 20000)
            let slice: u128 = match r.below(6) {
                0 => 1,
                1 => 10_000_000,
                2 => r.range(1, 50) as u128,
                3 => boundary_u64(r).max(1) as u128,
                4 => (U64 as u128) * (r.range(1, 1000) as u128),
                _ => r.range(1, 1_000_000_000) as u128,
            };
            let k = match r.below(5) { 0 => 0, 1 => 1, 2 => r.below(5), 3 => r.below(20_000), _ => r.below(200) } as u128;
            let rem = match r.below(4) { 0 => 0, 1 => slice - 1, 2 => 1.min(slice - 1), _ => (r.next() as u128) % slice };
            let max_total: u128 = (U64 as u128) * 1_000_000_000 + 999_999_999;
            let total = (k * slice + rem).min(max_total);
            let slice = slice.min(max_total);
            format!("slices {total} {slice}")
        }
        _ => {
            let sec: i64 = match r.below(8) {
                0 => 0,
                1 => i64::MAX,
                2 => -1,
                3 => i64::MIN,
                4 => 18_446_744_073 + r.below(3) as i64 - 1,
                5 => r.below(100) as i64,
                _ => (r.next() >> 1) as i64,
            };
            let usec: i64 = match r.below(8) {
                0 => 0,
                1 => 999_999,
                2 => -1,
                3 => i64::MAX,
                4 => r.below(1_000_000) as i64,
                5 => 18_446_744_073_709_551 + r.below(3) as i64 - 1,
                _ => 0,
            };
            format!("limit {sec} {usec}")
        }
    }
}

pub fn gen(r: &mut Rng, thorough: bool) -> String {
    let n = if thorough { r.range(1, 6) } else { r.range(1, 3) };
    (0..n).map(|_| gen_op(r)).collect::<Vec<_>>().join(" | ")
}

fn dur_from_ns(ns: u128) -> Duration {
    Duration::new((ns / 1_000_000_000) as u64, (ns % 1_000_000_000) as u32)
}

/// run-length encoding `v*n,v*n;`
pub fn rle(v: &[u128]) -> String {
    let mut segs: Vec<(u128, usize)> = Vec::new();
    for &x in v {
        match segs.last_mut() {
            Some((y, n)) if *y == x => *n += 1,
            _ => segs.push((x, 1)),
        }
    }
    segs.iter().map(|(v, n)| format!("{v}*{n}")).collect::<Vec<_>>().join(",") + ";"
}

fn exec_op(op: &str) -> String {
    let t: Vec<&str> = op.split_whitespace().collect();
    match t.as_slice() {
        ["deadline", secs, nanos, now] => {
            let d = Duration::new(secs.parse().unwrap(), nanos.parse().unwrap());
            open_coroutine_core::verif::set_virtual_now(now.parse().unwrap());
            let r = get_timeout_time(d);
            open_coroutine_core::verif::clear_virtual_now();
            format!("{r}")
        }
        ["slices", total, slice] => {
            let total: u128 = total.parse().unwrap();
            let slice: u128 = slice.parse().unwrap();
            if slice == 0 && total > 0 { return "SKIP".into(); }
            let v = get_slices(dur_from_ns(total), dur_from_ns(slice));
            rle(&v.iter().map(|d| d.as_nanos()).collect::<Vec<_>>())
        }
        ["limit", sec, usec] => {
            let tv = libc::timeval { tv_sec: sec.parse().unwrap(), tv_usec: usec.parse().unwrap() };
            match std::panic::catch_unwind(|| open_coroutine_core::syscall::verif_get_time_limit(&tv)) {
                Ok(v) => format!("{v}"),
                Err(_) => "PANIC".into(),
            }
        }
        _ => "BADOP".into(),
    }
}

pub fn exec(body: &str, emit: &mut dyn FnMut(&str)) {
    std::panic::set_hook(Box::new(|_| {}));
    for op in body.split(" | ") {
        emit(&exec_op(op));
    }
}
