//! C10: a real `Scheduler` with a virtual clock.
//! ops: sub <prog> <prio> | pass | adv <ns> | cancel <k> | res <k>
//!   prog steps: K<j> (the body asks to cancel coroutine j, possibly itself) | S | U<ts> | Y<ts> (hooked-wait pattern: syscall Suspend(ts) + until(ts), then back to running) | P<k> | R<r>
//!   a leading `eq` op marks a case in which several coroutines share one wake-up time: the order among them is
//!   unspecified (BinaryHeap), so `resumed=` is printed sorted for the whole case
//! outs: sub → `id<k>` ; pass → `resumed=<k.k.k> results=<k:Ok(r),k:Err(m)>` ; others → `-`
use crate::rng::Rng;
use open_coroutine_core::common::constants::{SyscallName, SyscallState};
use open_coroutine_core::scheduler::{SchedulableCoroutine, Scheduler};
use open_coroutine_core::verif;
use std::cell::RefCell;
use std::rc::Rc;

pub fn gen(r: &mut Rng, thorough: bool) -> String {
    if r.chance(1, 6) {
        // several coroutines parked until the same instant (a common deadline), some through the syscall path
        let t = 1000 + r.range(1, 500) * 100;
        let g = r.range(2, 5);
        let mut ops = vec!["eq".to_string()];
        for j in 0..g {
            let kind = if r.chance(1, 4) { "Y" } else { "U" };
            let second = if r.chance(1, 3) { format!(",U{}", t + 7000) } else { String::new() };
            ops.push(format!("sub {kind}{t}{second},R{} 0", j + 1));
        }
        ops.push("pass".into());
        if r.chance(1, 2) { ops.push(format!("adv {}", r.range(1, 50))); ops.push("pass".into()); }
        ops.push(format!("adv {}", t));
        ops.push("pass".into());
        ops.push("adv 100000000000".into());
        ops.push("pass".into());
        return ops.join(" | ");
    }
    let n = if thorough { r.range(4, 40) } else { r.range(3, 16) };
    let mut ops = Vec::new();
    let mut nsub = 0u64;
    let mut ts_seq = 0u64;
    let t0 = 1000u64;
    let mut now_est = t0;
    for _ in 0..n {
        match r.below(12) {
            0..=3 => {
                let k = r.range(0, 5);
                let mut steps: Vec<String> = Vec::new();
                for _ in 0..k {
                    if r.chance(1, 7) { steps.push(format!("K{}", r.below(nsub + 2))); }
                    ts_seq += 1;
                    // wake-up times are unique (BinaryHeap order among equal keys is unspecified)
                    let ts = now_est + r.below(400) * 64 + ts_seq % 64 + (if r.chance(1, 6) { 0 } else { 1 });
                    steps.push(match r.below(6) { 0 | 1 => "S".into(), 2 | 3 => format!("U{}", ts * 64 + ts_seq % 64), 4 => format!("Y{}", ts * 64 + ts_seq % 64), _ => "S".into() });
                }
                steps.push(match r.below(6) { 0 => format!("P{}", *r.pick(&[0u64, 1, 1128, 1200])), _ => format!("R{}", r.below(90)) });
                let prio = *r.pick(&[0i64, 0, 0, 1, -1, 5, i64::MIN, i64::MAX]);
                ops.push(format!("sub {} {}", steps.join(","), prio));
                nsub += 1;
            }
            4..=6 => ops.push("pass".into()),
            7..=8 => { let d = *r.pick(&[1u64, 500, 3000, 20_000, 2_000_000]); now_est += d; ops.push(format!("adv {d}")); }
            9 => if nsub > 0 { ops.push(format!("cancel {}", r.below(nsub))); },
            10 => if nsub > 0 { ops.push(format!("res {}", r.below(nsub))); },
            _ => ops.push("pass".into()),
        }
    }
    ops.push("adv 100000000000".into());
    ops.push("pass".into());
    ops.join(" | ")
}

pub fn exec(body: &str, emit: &mut dyn FnMut(&str)) {
    std::panic::set_hook(Box::new(|_| {}));
    verif::set_virtual_now(1000);
    let sched: &'static mut Scheduler<'static> = Box::leak(Box::new(Scheduler::new("verif-sched".into(), 128 * 1024)));
    let resumed: Rc<RefCell<Vec<usize>>> = Default::default();
    let mut ids: Vec<u64> = Vec::new();
    let shared_ids: Rc<RefCell<Vec<u64>>> = Default::default();
    let mut sort_resumed = false;
    for op in body.split(" | ") {
        let t: Vec<&str> = op.split_whitespace().collect();
        let out = match t.as_slice() {
            ["eq"] => { sort_resumed = true; "-".into() }
            ["sub", prog, prio] => {
                let k = ids.len();
                let steps: Vec<String> = prog.split(',').map(String::from).collect();
                let log = resumed.clone();
                let known = shared_ids.clone();
                let prio: i64 = prio.parse().unwrap();
                let co = SchedulableCoroutine::new(Some(format!("sc{k}")), move |s, ()| {
                    log.borrow_mut().push(k);
                    for st in steps {
                        let (h, rest) = st.split_at(1);
                        match h {
                            "K" => { let j: usize = rest.parse().unwrap(); let id = known.borrow().get(j).copied(); if let Some(id) = id { Scheduler::try_cancel_coroutine(id); } }
                            "S" => { s.suspend(); log.borrow_mut().push(k); }
                            "U" => { s.until(rest.parse().unwrap()); log.borrow_mut().push(k); }
                            "Y" => {
                                let ts: u64 = rest.parse().unwrap();
                                let co = SchedulableCoroutine::current().unwrap();
                                let _ = co.syscall((), SyscallName::nanosleep, SyscallState::Executing);
                                let _ = co.syscall((), SyscallName::nanosleep, SyscallState::Suspend(ts));
                                s.until(ts);
                                log.borrow_mut().push(k);
                                let co = SchedulableCoroutine::current().unwrap();
                                if let open_coroutine_core::common::constants::CoroutineState::Syscall((), n, SyscallState::Callback | SyscallState::Timeout) = co.state() {
                                    let _ = co.syscall((), n, SyscallState::Executing);
                                }
                                let _ = co.running();
                            }
                            "P" => { if rest == "0" { panic!("boom"); } else { let z = rest.to_string(); let tail = "é".repeat(rest.parse::<usize>().unwrap_or(0).saturating_sub(1000)); if tail.is_empty() { panic!("boom{z}"); } else { panic!("boom{z}-{tail}"); } } }
                            "R" => return Some(rest.parse().unwrap()),
                            _ => {}
                        }
                    }
                    None
                }, Some(128 * 1024), Some(prio)).expect("co");
                match sched.submit_raw_co(co) { Ok(id) => { ids.push(id); shared_ids.borrow_mut().push(id); format!("id{k}") } Err(_) => "suberr".into() }
            }
            ["pass"] => {
                resumed.borrow_mut().clear();
                match sched.try_schedule() {
                    Ok(results) => {
                        let mut rs: Vec<(usize, String)> = results.iter().map(|(id, r)| {
                            let k = ids.iter().position(|x| x == id).unwrap_or(999);
                            (k, match r { Ok(Some(v)) => format!("{k}:Ok({v})"), Ok(None) => format!("{k}:Ok(none)"), Err(m) => format!("{k}:Err({})", m.replace(' ', "_")) })
                        }).collect();
                        rs.sort();
                        if sort_resumed { resumed.borrow_mut().sort(); }
                        format!("resumed={} results={}", resumed.borrow().iter().map(|x| x.to_string()).collect::<Vec<_>>().join("."), rs.into_iter().map(|x| x.1).collect::<Vec<_>>().join(","))
                    }
                    Err(_) => "passerr".into(),
                }
            }
            ["adv", d] => { let _ = verif::advance_virtual_now(d.parse().unwrap()); "-".into() }
            ["cancel", k] => { let k: usize = k.parse().unwrap(); if k < ids.len() { Scheduler::try_cancel_coroutine(ids[k]); } "-".into() }
            ["res", k] => {
                let k: usize = k.parse().unwrap();
                if k < ids.len() { let r = std::panic::catch_unwind(std::panic::AssertUnwindSafe(|| sched.try_resume(ids[k]))); if r.is_err() { "respanic".into() } else { "-".into() } } else { "-".into() }
            }
            _ => "BADOP".into(),
        };
        emit(&out);
    }
}
