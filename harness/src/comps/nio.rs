//! C16/C17/C18: hooked socket I/O against a scripted kernel (the `fn_ptr` parameter) with
//! intercepted waits and a virtual clock.
//! body: `<call> <blocking 0|1> <limit_us> <shape a+b+c> ; calls: t,t,… ; waits: t,t,…`
//!   call tokens: m<n> | again | intr | e<errno>     wait tokens: full | ev<ns> | fail
//! out : `limit=<ns> ret=<r> errno=<e> reqs=<off:len+off:len#count,…> waits=<ns,…> flag=<blocking after> elapsed=<ns> placed=<ok|bad>`
use crate::rng::Rng;
use libc::{c_int, c_void, iovec, msghdr, off_t, size_t, sockaddr, socklen_t, ssize_t};
use open_coroutine_core::verif::{self, WaitKind};
use std::cell::RefCell;

const CALLS_R_BUF: &[&str] = &["recv", "read", "recvfrom", "pread"];
const CALLS_W_BUF: &[&str] = &["send", "write", "sendto", "pwrite"];
const CALLS_R_VEC: &[&str] = &["readv", "preadv", "recvmsg"];
const CALLS_W_VEC: &[&str] = &["writev", "pwritev", "sendmsg"];

pub fn gen(r: &mut Rng, thorough: bool) -> String {
    // several hooked calls on the same descriptor in one process, the caller may flip the blocking mode in between
    let n = match r.below(4) { 0 => 2, 1 => 3, _ => 1 };
    (0..n).map(|_| gen_one(r, thorough)).collect::<Vec<_>>().join(" || ")
}

fn gen_one(r: &mut Rng, _thorough: bool) -> String {
    if r.chance(1, 10) {
        // hooked connect: one scripted kernel answer, then at most one wait on the (connected) socket
        let blocking = if r.chance(1, 2) { 1 } else { 0 };
        let limit_us = *r.pick(&[0u64, 0, 1, 500, 9_999, 10_000, 25_000, 1_000_000]);
        let first = *r.pick(&["m0", "again", "again", "intr", "intr", "e111", "e110", "e114", "e11"]);
        let wait = *r.pick(&["full", "fail", "ev0", "ev1000", "ev20000000"]);
        let sock = if r.chance(1, 3) { 2 } else { 1 };
        return format!("connect {blocking} {limit_us} {sock} ; calls: {first} ; waits: {wait}");
    }
    let class = r.below(4);
    let call = *r.pick(match class { 0 => CALLS_R_BUF, 1 => CALLS_W_BUF, 2 => CALLS_R_VEC, _ => CALLS_W_VEC });
    // receive calls also with MSG_WAITALL (`:w`): flags are the caller's business, the layers must pass them through
    let call = if (call == "recv" || call == "recvmsg") && r.chance(1, 2) { if call == "recv" { "recv:w" } else { "recvmsg:w" } } else { call };
    let blocking = if r.chance(3, 4) { 1 } else { 0 };
    let limit_us = *r.pick(&[0u64, 0, 0, 1, 500, 9_999, 10_000, 10_001, 25_000, 1_000_000]);
    let nseg = if class < 2 { 1 } else { r.range(1, 5) };
    let shape: Vec<String> = (0..nseg).map(|_| (match r.below(6) { 0 => 0, 1 => 1, _ => r.range(1, 9) }).to_string()).collect();
    let total: u64 = shape.iter().map(|s| s.parse::<u64>().unwrap()).sum();
    let ncalls = r.range(0, 6);
    let fail_heavy = r.chance(1, 4);
    let calls: Vec<String> = (0..ncalls).map(|_| {
        let k = r.below(if fail_heavy { 6 } else { 10 });
        match k {
            0 | 1 => "again".to_string(),
            2 => "intr".to_string(),
            3 => format!("e{}", r.pick(&[104u64, 32, 9, 110, 107, 111])),
            4 => "m0".to_string(),
            _ => format!("m{}", match r.below(4) { 0 => total, 1 => total + 3, 2 => 1, _ => r.range(0, total.max(1)) }),
        }
    }).collect();
    let nwaits = r.range(0, 5);
    let waits: Vec<String> = (0..nwaits).map(|_| match r.below(6) {
        0 => "fail".to_string(),
        1 | 2 => "full".to_string(),
        _ => format!("ev{}", r.pick(&[0u64, 1, 1000, 5_000_000, 10_000_000, 20_000_000])),
    }).collect();
    format!("{call} {blocking} {limit_us} {} ; calls: {} ; waits: {}", shape.join("+"), calls.join(","), waits.join(","))
}

#[derive(Default)]
struct K {
    calls: Vec<String>,
    ci: usize,
    waits: Vec<String>,
    wi: usize,
    reqs: Vec<String>,
    wlog: Vec<String>,
    segs: Vec<(usize, usize)>, // (base address, len) of the caller's segments
    is_read: bool,
    stream: Vec<u8>,           // write side: bytes the kernel took, in order
    pos: usize,                // read side: next stream position to deliver
    fd: c_int,
    moved: usize,
    lasterr: c_int,
}
thread_local! { static KS: RefCell<K> = RefCell::new(K::default()); }

fn marker(pos: usize) -> u8 { (pos % 251) as u8 + 1 }

fn rel(k: &K, addr: usize, len: usize) -> String {
    let mut off = 0usize;
    for &(b, l) in &k.segs {
        if addr >= b && addr + len <= b + l && (addr < b + l || len == 0 && addr == b + l) || (l == 0 && len == 0 && addr == b) {
            return format!("{}:{}", off + (addr - b), len);
        }
        off += l;
    }
    format!("X:{len}")
}

/// the scripted kernel: `ranges` are the (address, length) pairs it was handed, `count` the
/// element count reported with them
fn kernel(ranges: &[(usize, usize)], count: usize) -> ssize_t {
    KS.with(|ks| {
        let mut k = ks.borrow_mut();
        let rendered: Vec<String> = ranges.iter().map(|&(a, l)| rel(&k, a, l)).collect();
        k.reqs.push(format!("{}#{}", rendered.join("+"), count));
        let tok = if k.ci < k.calls.len() { k.calls[k.ci].clone() } else { "e104".to_string() };
        k.ci += 1;
        let set_errno = |e: c_int| unsafe { *libc::__errno_location() = e };
        if tok == "again" { set_errno(libc::EAGAIN); k.lasterr = libc::EAGAIN; return -1; }
        if tok == "intr" { set_errno(libc::EINTR); k.lasterr = libc::EINTR; return -1; }
        if let Some(e) = tok.strip_prefix('e') { let e: c_int = e.parse().unwrap(); set_errno(e); k.lasterr = e; return -1; }
        let want: usize = tok[1..].parse().unwrap();
        let req: usize = ranges.iter().map(|r| r.1).sum();
        let n = want.min(req);
        let mut left = n;
        for &(a, l) in ranges {
            let take = left.min(l);
            for i in 0..take {
                unsafe {
                    if k.is_read { let p = k.pos; *((a + i) as *mut u8) = marker(p); k.pos += 1; }
                    else { let b = *((a + i) as *const u8); k.stream.push(b); }
                }
            }
            left -= take;
            if left == 0 { break; }
        }
        k.moved += n;
        n as ssize_t
    })
}

fn iov_ranges(iov: *const iovec, cnt: usize) -> Vec<(usize, usize)> {
    (0..cnt).map(|i| unsafe { let v = *iov.add(i); (v.iov_base as usize, v.iov_len) }).collect()
}

extern "C" fn k_connect(_fd: c_int, _a: *const sockaddr, _l: socklen_t) -> c_int {
    KS.with(|ks| {
        let mut k = ks.borrow_mut();
        k.reqs.push("c#1".to_string());
        let tok = if k.ci < k.calls.len() { k.calls[k.ci].clone() } else { "e104".to_string() };
        k.ci += 1;
        let set_errno = |e: c_int| unsafe { *libc::__errno_location() = e };
        if tok == "again" { set_errno(libc::EINPROGRESS); k.lasterr = libc::EINPROGRESS; return -1; }
        if tok == "intr" { set_errno(libc::EINTR); k.lasterr = libc::EINTR; return -1; }
        if let Some(e) = tok.strip_prefix('e') { let e: c_int = e.parse().unwrap(); set_errno(e); k.lasterr = e; return -1; }
        0
    })
}
extern "C" fn k_recv(_fd: c_int, buf: *mut c_void, len: size_t, _fl: c_int) -> ssize_t { kernel(&[(buf as usize, len)], 1) }
extern "C" fn k_read(_fd: c_int, buf: *mut c_void, len: size_t) -> ssize_t { kernel(&[(buf as usize, len)], 1) }
extern "C" fn k_recvfrom(_fd: c_int, buf: *mut c_void, len: size_t, _fl: c_int, _a: *mut sockaddr, _l: *mut socklen_t) -> ssize_t { kernel(&[(buf as usize, len)], 1) }
extern "C" fn k_pread(_fd: c_int, buf: *mut c_void, len: size_t, _o: off_t) -> ssize_t { kernel(&[(buf as usize, len)], 1) }
extern "C" fn k_send(_fd: c_int, buf: *const c_void, len: size_t, _fl: c_int) -> ssize_t { kernel(&[(buf as usize, len)], 1) }
extern "C" fn k_write(_fd: c_int, buf: *const c_void, len: size_t) -> ssize_t { kernel(&[(buf as usize, len)], 1) }
extern "C" fn k_sendto(_fd: c_int, buf: *const c_void, len: size_t, _fl: c_int, _a: *const sockaddr, _l: socklen_t) -> ssize_t { kernel(&[(buf as usize, len)], 1) }
extern "C" fn k_pwrite(_fd: c_int, buf: *const c_void, len: size_t, _o: off_t) -> ssize_t { kernel(&[(buf as usize, len)], 1) }
extern "C" fn k_readv(_fd: c_int, iov: *const iovec, cnt: c_int) -> ssize_t { kernel(&iov_ranges(iov, cnt as usize), cnt as usize) }
extern "C" fn k_preadv(_fd: c_int, iov: *const iovec, cnt: c_int, _o: off_t) -> ssize_t { kernel(&iov_ranges(iov, cnt as usize), cnt as usize) }
extern "C" fn k_writev(_fd: c_int, iov: *const iovec, cnt: c_int) -> ssize_t { kernel(&iov_ranges(iov, cnt as usize), cnt as usize) }
extern "C" fn k_pwritev(_fd: c_int, iov: *const iovec, cnt: c_int, _o: off_t) -> ssize_t { kernel(&iov_ranges(iov, cnt as usize), cnt as usize) }
// for msghdr the reported count may exceed the array that was really built; read at most as many
// elements as the caller's shape has (never past what any correct array holds)
extern "C" fn k_recvmsg(_fd: c_int, msg: *mut msghdr, _fl: c_int) -> ssize_t {
    let (iov, cnt) = unsafe { ((*msg).msg_iov, (*msg).msg_iovlen as usize) };
    let safe = KS.with(|k| k.borrow().segs.len());
    kernel(&iov_ranges(iov, cnt.min(safe)), cnt)
}
extern "C" fn k_sendmsg(_fd: c_int, msg: *const msghdr, _fl: c_int) -> ssize_t {
    let (iov, cnt) = unsafe { ((*msg).msg_iov, (*msg).msg_iovlen as usize) };
    let safe = KS.with(|k| k.borrow().segs.len());
    kernel(&iov_ranges(iov, cnt.min(safe)), cnt)
}

fn wait_hook(kind: WaitKind, fd: c_int, timeout: Option<std::time::Duration>) -> std::io::Result<()> {
    KS.with(|ks| {
        let mut k = ks.borrow_mut();
        let ns = timeout.map_or(u64::MAX, |d| d.as_nanos() as u64);
        let kd = match kind { WaitKind::Event => "e", WaitKind::Read => "r", WaitKind::Write => "w" };
        let ours = if fd == k.fd { "" } else { "!" };
        k.wlog.push(format!("{kd}{ours}{ns}"));
        let tok = if k.wi < k.waits.len() { k.waits[k.wi].clone() } else { "fail".to_string() };
        k.wi += 1;
        if tok == "fail" { return Err(std::io::Error::new(std::io::ErrorKind::Other, "scripted wait failure")); }
        let adv = if tok == "full" { ns } else { tok[2..].parse::<u64>().unwrap().min(ns) };
        let _ = verif::advance_virtual_now(adv);
        Ok(())
    })
}

pub fn exec(body: &str, emit: &mut dyn FnMut(&str)) {
    let mut sv = [0 as c_int; 2];
    if unsafe { libc::socketpair(libc::AF_UNIX, libc::SOCK_STREAM, 0, sv.as_mut_ptr()) } != 0 { emit("NOSOCK"); return; }
    let mut outs: Vec<String> = Vec::new();
    for seg in body.split(" || ") {
        let mut one = String::new();
        exec_one(seg, sv, &mut |o: &str| one = o.to_string());
        outs.push(one);
    }
    emit(&outs.join(" || "));
    unsafe { libc::close(sv[0]); libc::close(sv[1]); }
}

/// a TCP socket on which a non-blocking connect to a closed loopback port has failed; the error is still pending
unsafe fn refused_tcp() -> c_int {
    let l = std::net::TcpListener::bind("127.0.0.1:0").expect("bind");
    let port = l.local_addr().unwrap().port();
    drop(l);
    let fd = libc::socket(libc::AF_INET, libc::SOCK_STREAM | libc::SOCK_NONBLOCK, 0);
    let mut a: libc::sockaddr_in = std::mem::zeroed();
    a.sin_family = libc::AF_INET as u16;
    a.sin_port = port.to_be();
    a.sin_addr.s_addr = u32::from_ne_bytes([127, 0, 0, 1]);
    let _ = libc::connect(fd, (&a as *const libc::sockaddr_in).cast(), std::mem::size_of::<libc::sockaddr_in>() as u32);
    let mut p = libc::pollfd { fd, events: libc::POLLOUT, revents: 0 };
    let _ = libc::poll(&mut p, 1, 1000);
    fd
}

fn exec_one(body: &str, sv: [c_int; 2], emit: &mut dyn FnMut(&str)) {
    let parts: Vec<&str> = body.split(" ; ").collect();
    if parts.len() != 3 { emit("BADCASE"); return; }
    let head: Vec<&str> = parts[0].split_whitespace().collect();
    if head.len() != 4 { emit("BADCASE"); return; }
    let (call, recv_flags) = match head[0].split_once(':') { Some((c, "w")) => (c, libc::MSG_WAITALL), _ => (head[0], 0) };
    let blocking = head[1] == "1";
    let limit_us: i64 = head[2].parse().unwrap();
    let shape: Vec<usize> = head[3].split('+').map(|s| s.parse().unwrap()).collect();
    let calls: Vec<String> = parts[1].trim_start_matches("calls:").trim().split(',').filter(|s| !s.is_empty()).map(String::from).collect();
    let waits: Vec<String> = parts[2].trim_start_matches("waits:").trim().split(',').filter(|s| !s.is_empty()).map(String::from).collect();
    let is_read = CALLS_R_BUF.contains(&call) || CALLS_R_VEC.contains(&call);
    unsafe {
        // `connect … 2`: a TCP socket whose connection attempt has already been refused (SO_ERROR is pending, no peer)
        let refused = call == "connect" && head[3] == "2";
        let fd = if refused { refused_tcp() } else { sv[0] };
        let tv = libc::timeval { tv_sec: limit_us / 1_000_000, tv_usec: limit_us % 1_000_000 };
        let which = if is_read { libc::SO_RCVTIMEO } else { libc::SO_SNDTIMEO };
        // through the hook, as an interposed process would (keeps the runtime's limit cache coherent)
        let _ = open_coroutine_core::syscall::setsockopt(None, fd, libc::SOL_SOCKET, which, (&tv as *const libc::timeval).cast(), std::mem::size_of::<libc::timeval>() as u32);
        // the limit the kernel really stored (it rounds to its tick): an environment fact the model is given
        let mut tv2: libc::timeval = std::mem::zeroed();
        let mut tl = std::mem::size_of::<libc::timeval>() as u32;
        libc::getsockopt(fd, libc::SOL_SOCKET, which, (&mut tv2 as *mut libc::timeval).cast(), &mut tl);
        let limit_ns: u64 = if tv2.tv_sec == 0 && tv2.tv_usec == 0 { u64::MAX } else { (tv2.tv_sec as u64) * 1_000_000_000 + (tv2.tv_usec as u64) * 1000 };
        // the caller chooses the mode with a plain fcntl (not hooked)
        let fl = libc::fcntl(fd, libc::F_GETFL);
        libc::fcntl(fd, libc::F_SETFL, if blocking { fl & !libc::O_NONBLOCK } else { fl | libc::O_NONBLOCK });
        // caller buffers: one arena, 16 guard bytes between segments
        let total: usize = shape.iter().sum();
        let mut arena = vec![0u8; total + 16 * (shape.len() + 1)];
        let base = arena.as_mut_ptr() as usize;
        let mut segs = Vec::new();
        let mut cur = 16usize;
        let mut spos = 0usize;
        for &l in &shape {
            segs.push((base + cur, l));
            if !is_read { for i in 0..l { arena[cur + i] = marker(spos + i); } }
            cur += l + 16; spos += l;
        }
        KS.with(|ks| { *ks.borrow_mut() = K { calls, waits, segs: segs.clone(), is_read, fd, ..K::default() }; });
        let t0 = 1_000_000_000u64;
        verif::set_virtual_now(t0);
        verif::set_wait_hook(Some(wait_hook));
        *libc::__errno_location() = 0;
        let mut iovs: Vec<iovec> = segs.iter().map(|&(b, l)| iovec { iov_base: b as *mut c_void, iov_len: l }).collect();
        let mut mh: msghdr = std::mem::zeroed();
        mh.msg_iov = iovs.as_mut_ptr();
        mh.msg_iovlen = iovs.len() as _;
        let (b0, l0) = segs[0];
        use open_coroutine_core::syscall as sc;
        let ret: ssize_t = match call {
            "connect" => {
                let f: extern "C" fn(c_int, *const sockaddr, socklen_t) -> c_int = k_connect;
                let mut addr: libc::sockaddr_un = std::mem::zeroed();
                addr.sun_family = libc::AF_UNIX as u16;
                sc::connect(Some(&f), fd, (&addr as *const libc::sockaddr_un).cast(), std::mem::size_of::<libc::sockaddr_un>() as u32) as ssize_t
            }
            "recv" => { let f: extern "C" fn(c_int, *mut c_void, size_t, c_int) -> ssize_t = k_recv; sc::recv(Some(&f), fd, b0 as *mut c_void, l0, recv_flags) }
            "read" => { let f: extern "C" fn(c_int, *mut c_void, size_t) -> ssize_t = k_read; sc::read(Some(&f), fd, b0 as *mut c_void, l0) }
            "recvfrom" => { let f: extern "C" fn(c_int, *mut c_void, size_t, c_int, *mut sockaddr, *mut socklen_t) -> ssize_t = k_recvfrom; sc::recvfrom(Some(&f), fd, b0 as *mut c_void, l0, 0, std::ptr::null_mut(), std::ptr::null_mut()) }
            "pread" => { let f: extern "C" fn(c_int, *mut c_void, size_t, off_t) -> ssize_t = k_pread; sc::pread(Some(&f), fd, b0 as *mut c_void, l0, 0) }
            "send" => { let f: extern "C" fn(c_int, *const c_void, size_t, c_int) -> ssize_t = k_send; sc::send(Some(&f), fd, b0 as *const c_void, l0, 0) }
            "write" => { let f: extern "C" fn(c_int, *const c_void, size_t) -> ssize_t = k_write; sc::write(Some(&f), fd, b0 as *const c_void, l0) }
            "sendto" => { let f: extern "C" fn(c_int, *const c_void, size_t, c_int, *const sockaddr, socklen_t) -> ssize_t = k_sendto; sc::sendto(Some(&f), fd, b0 as *const c_void, l0, 0, std::ptr::null(), 0) }
            "pwrite" => { let f: extern "C" fn(c_int, *const c_void, size_t, off_t) -> ssize_t = k_pwrite; sc::pwrite(Some(&f), fd, b0 as *const c_void, l0, 0) }
            "readv" => { let f: extern "C" fn(c_int, *const iovec, c_int) -> ssize_t = k_readv; sc::readv(Some(&f), fd, iovs.as_ptr(), iovs.len() as c_int) }
            "preadv" => { let f: extern "C" fn(c_int, *const iovec, c_int, off_t) -> ssize_t = k_preadv; sc::preadv(Some(&f), fd, iovs.as_ptr(), iovs.len() as c_int, 0) }
            "writev" => { let f: extern "C" fn(c_int, *const iovec, c_int) -> ssize_t = k_writev; sc::writev(Some(&f), fd, iovs.as_ptr(), iovs.len() as c_int) }
            "pwritev" => { let f: extern "C" fn(c_int, *const iovec, c_int, off_t) -> ssize_t = k_pwritev; sc::pwritev(Some(&f), fd, iovs.as_ptr(), iovs.len() as c_int, 0) }
            "recvmsg" => { let f: extern "C" fn(c_int, *mut msghdr, c_int) -> ssize_t = k_recvmsg; sc::recvmsg(Some(&f), fd, &mut mh, recv_flags) }
            "sendmsg" => { let f: extern "C" fn(c_int, *const msghdr, c_int) -> ssize_t = k_sendmsg; sc::sendmsg(Some(&f), fd, &mh, 0) }
            _ => { emit("BADCALL"); return; }
        };
        let errno = *libc::__errno_location();
        let now = open_coroutine_core::common::now();
        verif::set_wait_hook(None);
        verif::clear_virtual_now();
        let fl = libc::fcntl(fd, libc::F_GETFL);
        let blocking_after = (fl & libc::O_NONBLOCK) == 0;
        // placement: the moved bytes are the next bytes of the stream, in order, in the caller's buffers
        let placed = KS.with(|ks| {
            let k = ks.borrow();
            let flat: Vec<u8> = segs.iter().flat_map(|&(b, l)| (0..l).map(move |i| *((b + i) as *const u8))).collect();
            if is_read {
                let n = k.pos;
                n <= flat.len() && (0..n).all(|i| flat[i] == marker(i)) && (n..flat.len()).all(|i| flat[i] == 0)
            } else {
                k.stream.len() <= flat.len() && k.stream.iter().enumerate().all(|(i, &b)| b == marker(i))
            }
        });
        let (reqs, wlog, moved, lasterr) = KS.with(|ks| { let k = ks.borrow(); (k.reqs.join(","), k.wlog.join(","), k.moved, k.lasterr) });
        emit(&format!("limit={} ret={} errno={} reqs={} waits={} flag={} elapsed={} moved={} lasterr={} placed={}", limit_ns, ret, errno, reqs, wlog,
            if blocking_after { 1 } else { 0 }, now - t0, moved, lasterr, if placed { "ok" } else { "bad" }));
    }
}
