//! C23 on a started runtime: tasks recurse through `maybe_grow` (so they run on grown segments), block in a hooked
//! sleep at the bottom of the recursion (with several loops they continue on another thread) and unwind again.
//! body: `<loops> <n tasks> <depth> <frame bytes>`   out: `ok=<tasks that returned the right sum>/<n> after=<1|0>`
use crate::rng::Rng;
use open_coroutine_core::config::Config;
use open_coroutine_core::coroutine::Coroutine;
use open_coroutine_core::net::EventLoops;
use std::time::Duration;

pub fn gen(r: &mut Rng, _thorough: bool) -> String {
    format!("{} {} {} {}", *r.pick(&[1u64, 2, 3]), r.range(1, 5), *r.pick(&[3u64, 40, 400]), *r.pick(&[256u64, 4096, 20000]))
}

#[inline(never)]
fn descend(d: u64, frame: usize, acc: u64) -> u64 {
    let r = Coroutine::<(), (), ()>::maybe_grow(move || {
        let mut pad = vec![0u8; 0];
        let mut local = [0u8; 128];
        local[(d % 128) as usize] = d as u8;
        // a frame of the requested size on the (possibly fresh) segment
        let big = psm_frame(frame, d);
        pad.push(local[(d % 128) as usize]);
        if d == 0 {
            let ts = libc::timespec { tv_sec: 0, tv_nsec: 2_000_000 };
            _ = open_coroutine_core::syscall::nanosleep(None, &ts, std::ptr::null_mut());
            acc + big
        } else {
            descend(d - 1, frame, acc + d) + big + u64::from(pad[0]) - u64::from(d as u8)
        }
    });
    r.unwrap_or(u64::MAX)
}

#[inline(never)]
fn psm_frame(frame: usize, d: u64) -> u64 {
    // touch `frame` bytes of stack
    let mut v = 0u64;
    let mut left = frame;
    let mut chunk = [0u8; 256];
    while left > 0 { chunk[(d % 256) as usize] = 1; v += u64::from(std::hint::black_box(chunk)[(d % 256) as usize]) - 1; left = left.saturating_sub(256); }
    v
}

pub fn exec(body: &str, emit: &mut dyn FnMut(&str)) {
    std::panic::set_hook(Box::new(|_| {}));
    let w: Vec<u64> = body.split_whitespace().filter_map(|x| x.parse().ok()).collect();
    if w.len() != 4 { emit("BADCASE"); return; }
    let (loops, n, depth, frame) = (w[0] as usize, w[1], w[2], w[3] as usize);
    let mut cfg = Config::single();
    _ = cfg.set_event_loop_size(loops).set_hook(false).set_max_size(64);
    EventLoops::init(&cfg);
    let hs: Vec<_> = (0..n).map(|i| EventLoops::submit_task(None, move |_| Some(descend(depth, frame, i) as usize), None, None)).collect();
    let want = |i: u64| (i + depth * (depth + 1) / 2) as usize;
    let mut ok = 0;
    for (i, h) in hs.iter().enumerate() {
        if let Ok(Ok(Some(v))) = h.timeout_join(Duration::from_millis(5000)) { if v == want(i as u64) { ok += 1; } }
    }
    let after = EventLoops::submit_task(None, |_| Some(77), None, None);
    let ran = matches!(after.timeout_join(Duration::from_millis(3000)), Ok(Ok(Some(77))));
    emit(&format!("ok={ok}/{n} after={}", if ran { 1 } else { 0 }));
    for h in hs { std::mem::forget(h); }
    std::mem::forget(after);
}
