//! C01 (sequential tie): k real CoroutinePools of one process on the harness thread, sharing the
//! process-wide task queue bean exactly as the event loops' pools do.
//! body: `<k> ; op | op | …`   ops: sub <i> <prio> | burst <i> <count> <prio> | pass <i> | cancel <t> | fin
//! outs: first `n=<local queues of the bean>`; sub/burst → `ok`; cancel → `-`;
//!       pass/fin → `ran=<ids in execution order (k<=2) or sorted (k>=3), '.' separated>`
use crate::rng::Rng;
use open_coroutine_core::co_pool::CoroutinePool;
use std::cell::RefCell;
use std::rc::Rc;

pub fn gen(r: &mut Rng, thorough: bool) -> String {
    let k = *r.pick(&[1u64, 2, 2, 2, 3]);
    let n = if thorough { r.range(6, 40) } else { r.range(4, 16) };
    let mut ops = Vec::new();
    let mut nsub = 0u64;
    let prios = [0i64, 0, 0, 1, -1, 5, i64::MIN, i64::MAX];
    for _ in 0..n {
        match r.below(12) {
            0..=3 => { ops.push(format!("sub {} {}", r.below(k), r.pick(&prios))); nsub += 1; }
            4..=5 => { let c = *r.pick(&[3u64, 17, 130, 257, 300, 520]); ops.push(format!("burst {} {} {}", r.below(k), c, r.pick(&prios))); nsub += c; }
            6..=8 => ops.push(format!("pass {}", r.below(k))),
            9..=10 => if nsub > 0 { ops.push(format!("cancel {}", r.below(nsub))); },
            _ => ops.push(format!("pass {}", r.below(k))),
        }
    }
    ops.push("fin".into());
    format!("{k} ; {}", ops.join(" | "))
}

pub fn exec(body: &str, emit: &mut dyn FnMut(&str)) {
    std::panic::set_hook(Box::new(|_| {}));
    let (cfg, ops) = match body.split_once(" ; ") { Some(x) => x, None => { emit("BADCASE"); return; } };
    let k: usize = cfg.trim().parse().unwrap_or(1);
    let mut pools: Vec<&'static mut CoroutinePool<'static>> = (0..k)
        .map(|i| &mut *Box::leak(Box::new(CoroutinePool::new(format!("verif-rt-{i}"), 128 * 1024, 0, 2, 0))))
        .collect();
    emit(&format!("n={}", std::thread::available_parallelism().map(|x| x.get()).unwrap_or(1)));
    let log: Rc<RefCell<Vec<usize>>> = Default::default();
    let mut ids: Vec<u64> = Vec::new();
    let submit = |pools: &Vec<&'static mut CoroutinePool<'static>>, ids: &mut Vec<u64>, i: usize, prio: i64, log: &Rc<RefCell<Vec<usize>>>| {
        let t = ids.len();
        let log = log.clone();
        let id = pools[i].submit_task(Some(format!("rt{t}")), move |_| { log.borrow_mut().push(t); Some(t) }, None, Some(prio)).expect("submit");
        // nobody joins these tasks
        pools[i].clean_task_result(id);
        ids.push(id);
    };
    let show = |k: usize, v: &mut Vec<usize>| {
        if k >= 3 { v.sort(); }
        // consecutive ascending runs as a-b
        let mut segs: Vec<String> = Vec::new();
        let mut i = 0;
        while i < v.len() {
            let mut j = i;
            while j + 1 < v.len() && v[j + 1] == v[j] + 1 { j += 1; }
            segs.push(if j == i { v[i].to_string() } else { format!("{}-{}", v[i], v[j]) });
            i = j + 1;
        }
        format!("ran={}", segs.join("."))
    };
    for op in ops.split(" | ") {
        let t: Vec<&str> = op.split_whitespace().collect();
        let out = match t.as_slice() {
            ["sub", i, p] => { submit(&pools, &mut ids, i.parse().unwrap(), p.parse().unwrap(), &log); "ok".to_string() }
            ["burst", i, c, p] => { for _ in 0..c.parse::<usize>().unwrap() { submit(&pools, &mut ids, i.parse().unwrap(), p.parse().unwrap(), &log); } "ok".to_string() }
            ["pass", i] => {
                log.borrow_mut().clear();
                let _ = pools[i.parse::<usize>().unwrap()].try_schedule_task();
                let mut v = log.borrow().clone();
                show(k, &mut v)
            }
            ["cancel", t] => { let t: usize = t.parse().unwrap(); if t < ids.len() { CoroutinePool::try_cancel_task(ids[t]); } "-".into() }
            ["fin"] => {
                log.borrow_mut().clear();
                for p in pools.iter_mut() { let _ = p.try_schedule_task(); }
                let mut v = log.borrow().clone();
                show(3, &mut v)
            }
            _ => "BADOP".into(),
        };
        emit(&out);
    }
}
