//! C20/C21: the selector's interest bookkeeping against the kernel's epoll table, and the tokens
//! readiness events carry. One private poller (verif hook), socketpair slots 0..2.
//! ops: ar <s> <tok> | aw <s> <tok> | dr <s> | dw <s> | d <s> | close <s> | ev <s>
//! out: `res=<ok|err> [rd=<tokens of readable events> wr=<tokens of writable events>] k=<slot:rw:token,…>` (k read from /proc/self/fdinfo/<epfd>)
use crate::rng::Rng;
use libc::c_int;
use open_coroutine_core::net::verif_selector::VPoller;
use std::time::Duration;

fn tok(r: &mut Rng) -> u64 {
    match r.below(8) {
        0 => 1,
        1 => 1u64 << 32,
        2 => (1u64 << 32) | 1,
        3 => u64::MAX >> 1,
        4 => 0x1234_5678_0000_0000,
        5 => 0x0000_0000_1234_5678,
        6 => 0x1234_5678_1234_5678,           // folds to 0
        _ => r.next() >> 1,
    }
}

pub fn gen(r: &mut Rng, thorough: bool) -> String {
    let n = if thorough { r.range(3, 40) } else { r.range(2, 14) };
    // a token stands for one coroutine, which waits on one descriptor at a time: a token that is
    // still outstanding on another slot is not reused (1 in 16 cases keeps the old free-for-all)
    let free_for_all = r.chance(1, 16);
    let mut out_r: [Option<u64>; 3] = [None; 3];
    let mut out_w: [Option<u64>; 3] = [None; 3];
    let mut ops: Vec<String> = Vec::new();
    let pick = |r: &mut Rng, s: usize, out_r: &[Option<u64>; 3], out_w: &[Option<u64>; 3]| -> u64 {
        for _ in 0..8 {
            let t = tok(r);
            let clash = (0..3).any(|o| o != s && (out_r[o] == Some(t) || out_w[o] == Some(t)));
            if free_for_all || !clash { return t; }
        }
        r.next() >> 1
    };
    while (ops.len() as u64) < n {
        let s = r.below(3) as usize;
        match r.below(14) {
            0..=2 => { let t = if r.chance(1, 3) { out_w[s].or(out_r[s]).unwrap_or_else(|| pick(r, s, &out_r, &out_w)) } else { pick(r, s, &out_r, &out_w) }; out_r[s] = Some(t); ops.push(format!("ar {s} {t}")); }
            3..=4 => { let t = if r.chance(1, 3) { out_r[s].or(out_w[s]).unwrap_or_else(|| pick(r, s, &out_r, &out_w)) } else { pick(r, s, &out_r, &out_w) }; out_w[s] = Some(t); ops.push(format!("aw {s} {t}")); }
            5 => { out_r[s] = None; ops.push(format!("dr {s}")); }
            6 => { out_w[s] = None; ops.push(format!("dw {s}")); }
            7 => { out_r[s] = None; out_w[s] = None; ops.push(format!("d {s}")); }
            8 => { out_r[s] = None; out_w[s] = None; ops.push(format!("close {s}")); }
            9 => {
                // one coroutine waits to read, then to write, the read edge arrives with both flags,
                // it waits to write again and another descriptor's edge drives the poll
                let t = pick(r, s, &out_r, &out_w);
                let o = (s + 1 + r.below(2) as usize) % 3;
                ops.push(format!("ar {s} {t}")); ops.push(format!("aw {s} {t}")); ops.push(format!("ev {s}"));
                ops.push(format!("aw {s} {t}")); ops.push(format!("ev {o}"));
                out_r[s] = None; out_w = [None; 3]; out_r[o] = None;
            }
            _ => { out_r[s] = None; out_w = [None; 3]; ops.push(format!("ev {s}")); }
        }
    }
    ops.join(" | ")
}

fn ktable(epfd: c_int, slots: &[(c_int, c_int)]) -> String {
    let txt = std::fs::read_to_string(format!("/proc/self/fdinfo/{epfd}")).unwrap_or_default();
    let mut rows: Vec<(usize, String)> = Vec::new();
    for l in txt.lines() {
        if !l.starts_with("tfd:") { continue; }
        let f: Vec<&str> = l.split_whitespace().collect();
        let tfd: c_int = f[1].parse().unwrap();
        let events = u64::from_str_radix(f[3], 16).unwrap();
        let data = u64::from_str_radix(f[5], 16).unwrap();
        let slot = slots.iter().position(|&(a, _)| a == tfd);
        let rw = format!("{}{}", if events & 1 != 0 { "r" } else { "" }, if events & 4 != 0 { "w" } else { "" });
        match slot {
            Some(s) => rows.push((s, format!("{s}:{rw}:{data}"))),
            None => rows.push((99, format!("fd{tfd}:{rw}:{data}"))),
        }
    }
    rows.sort();
    rows.into_iter().map(|r| r.1).collect::<Vec<_>>().join(",")
}

pub fn exec(body: &str, emit: &mut dyn FnMut(&str)) {
    let p = match VPoller::new() { Ok(p) => p, Err(_) => { emit("NOPOLLER"); return; } };
    let mk = || unsafe { let mut sv = [0 as c_int; 2]; libc::socketpair(libc::AF_UNIX, libc::SOCK_STREAM | libc::SOCK_NONBLOCK, 0, sv.as_mut_ptr()); (sv[0], sv[1]) };
    let mut slots: Vec<(c_int, c_int)> = (0..3).map(|_| mk()).collect();
    for op in body.split(" | ") {
        let t: Vec<&str> = op.split_whitespace().collect();
        let s: usize = t.get(1).and_then(|x| x.parse().ok()).unwrap_or(0).min(2);
        let fd = slots[s].0;
        let rs = |r: std::io::Result<()>| if r.is_ok() { "ok" } else { "err" }.to_string();
        let mut extra = String::new();
        let res = match t[0] {
            "ar" => rs(p.add_read(fd, t[2].parse().unwrap())),
            "aw" => rs(p.add_write(fd, t[2].parse().unwrap())),
            "dr" => rs(p.del_read(fd)),
            "dw" => rs(p.del_write(fd)),
            "d" => rs(p.del(fd)),
            "close" => {
                // what the hooked close() does: drop the interest, then close; the number is reused at once
                let r = rs(p.del(fd));
                unsafe { libc::close(slots[s].0); libc::close(slots[s].1); }
                slots[s] = mk();
                r
            }
            "ev" => unsafe {
                let b = [7u8];
                libc::write(slots[s].1, b.as_ptr().cast(), 1);
                let evs = p.select(Duration::from_millis(30)).unwrap_or_default();
                let mut rd: Vec<u64> = evs.iter().filter(|e| e.1).map(|e| e.0).collect();
                rd.sort();
                let mut wr: Vec<u64> = evs.iter().filter(|e| e.2).map(|e| e.0).collect();
                wr.sort();
                extra = format!(" rd={} wr={}", rd.iter().map(|x| x.to_string()).collect::<Vec<_>>().join(","), wr.iter().map(|x| x.to_string()).collect::<Vec<_>>().join(","));
                let mut buf = [0u8; 8];
                libc::read(fd, buf.as_mut_ptr().cast(), 8);
                "ok".to_string()
            },
            _ => "BADOP".to_string(),
        };
        emit(&format!("res={res}{extra} k={}", ktable(p.epoll_fd(), &slots)));
    }
}
