//! C18 with the real kernel on a started runtime: coroutines make hooked `connect`s (blocking descriptors) to a
//! listener whose `accept` is made by another coroutine through the hooked `accept`, or to a closed port.
//! (descriptors are closed through the hooked `close`, as in a process that links the hook library: the selector's
//! records of a descriptor number must go with it)
//! body: `<loops> <pairs> <refused pairs>`
//! out : `connected=<n>/<pairs> echoed=<n> refused=<n>/<refused pairs> flags=<descriptors still blocking>/<all> unfinished=<n>`
use crate::rng::Rng;
use open_coroutine_core::config::Config;
use open_coroutine_core::net::EventLoops;
use std::sync::atomic::{AtomicU64, Ordering};
use std::time::{Duration, Instant};

pub fn gen(r: &mut Rng, _thorough: bool) -> String {
    format!("{} {} {}", *r.pick(&[1u64, 1, 2, 3]), r.range(0, 4), r.range(0, 3))
}

static CONNECTED: AtomicU64 = AtomicU64::new(0);
static ECHOED: AtomicU64 = AtomicU64::new(0);
static REFUSED: AtomicU64 = AtomicU64::new(0);
static FLAGS_OK: AtomicU64 = AtomicU64::new(0);
static DONE: AtomicU64 = AtomicU64::new(0);

fn blocking(fd: i32) -> bool { unsafe { libc::fcntl(fd, libc::F_GETFL) & libc::O_NONBLOCK == 0 } }
fn addr_of(port: u16) -> libc::sockaddr_in {
    let mut a: libc::sockaddr_in = unsafe { std::mem::zeroed() };
    a.sin_family = libc::AF_INET as u16;
    a.sin_port = port.to_be();
    a.sin_addr.s_addr = u32::from_ne_bytes([127, 0, 0, 1]);
    a
}

pub fn exec(body: &str, emit: &mut dyn FnMut(&str)) {
    use std::os::fd::IntoRawFd;
    std::panic::set_hook(Box::new(|_| {}));
    let w: Vec<u64> = body.split_whitespace().filter_map(|x| x.parse().ok()).collect();
    if w.len() != 3 { emit("BADCASE"); return; }
    let (loops, pairs, refused) = (w[0] as usize, w[1], w[2]);
    let mut cfg = Config::single();
    _ = cfg.set_event_loop_size(loops).set_hook(false).set_max_size(64);
    EventLoops::init(&cfg);
    let start = Instant::now();
    let mut expected_done = 0;
    for p in 0..pairs {
        let l = std::net::TcpListener::bind("127.0.0.1:0").expect("bind");
        let port = l.local_addr().unwrap().port();
        let lfd = l.into_raw_fd();
        expected_done += 2;
        // the accepting side: a little late, so that the connecting side really waits
        let h = EventLoops::submit_task(None, move |_| {
            let ts = libc::timespec { tv_sec: 0, tv_nsec: 20_000_000 };
            _ = open_coroutine_core::syscall::nanosleep(None, &ts, std::ptr::null_mut());
            let c = open_coroutine_core::syscall::accept(None, lfd, std::ptr::null_mut(), std::ptr::null_mut());
            if c >= 0 {
                let mut b = [0u8; 4];
                let r = open_coroutine_core::syscall::recv(None, c, b.as_mut_ptr().cast(), 4, 0);
                if r == 4 && b == [p as u8, 2, 3, 4] { ECHOED.fetch_add(1, Ordering::SeqCst); }
                if blocking(c) && blocking(lfd) { FLAGS_OK.fetch_add(1, Ordering::SeqCst); }
                _ = open_coroutine_core::syscall::close(None, c);
            }
            _ = open_coroutine_core::syscall::close(None, lfd);
            DONE.fetch_add(1, Ordering::SeqCst);
            Some(0)
        }, None, None);
        std::mem::forget(h);
        let h = EventLoops::submit_task(None, move |_| {
            let fd = unsafe { libc::socket(libc::AF_INET, libc::SOCK_STREAM, 0) };
            let a = addr_of(port);
            let r = open_coroutine_core::syscall::connect(None, fd, (&a as *const libc::sockaddr_in).cast(), std::mem::size_of::<libc::sockaddr_in>() as u32);
            if r == 0 {
                CONNECTED.fetch_add(1, Ordering::SeqCst);
                let b = [p as u8, 2, 3, 4];
                _ = open_coroutine_core::syscall::send(None, fd, b.as_ptr().cast(), 4, 0);
            }
            if blocking(fd) { FLAGS_OK.fetch_add(1, Ordering::SeqCst); }
            _ = open_coroutine_core::syscall::close(None, fd);
            DONE.fetch_add(1, Ordering::SeqCst);
            Some(0)
        }, None, None);
        std::mem::forget(h);
    }
    for _ in 0..refused {
        let l = std::net::TcpListener::bind("127.0.0.1:0").expect("bind");
        let port = l.local_addr().unwrap().port();
        drop(l);
        expected_done += 1;
        let h = EventLoops::submit_task(None, move |_| {
            let fd = unsafe { libc::socket(libc::AF_INET, libc::SOCK_STREAM, 0) };
            let a = addr_of(port);
            let r = open_coroutine_core::syscall::connect(None, fd, (&a as *const libc::sockaddr_in).cast(), std::mem::size_of::<libc::sockaddr_in>() as u32);
            let e = unsafe { *libc::__errno_location() };
            if r == -1 && e == libc::ECONNREFUSED { REFUSED.fetch_add(1, Ordering::SeqCst); } else { eprintln!("rtconn: connect to a closed port answered r={r} errno={e}"); }
            if blocking(fd) { FLAGS_OK.fetch_add(1, Ordering::SeqCst); }
            _ = open_coroutine_core::syscall::close(None, fd);
            DONE.fetch_add(1, Ordering::SeqCst);
            Some(0)
        }, None, None);
        std::mem::forget(h);
    }
    while DONE.load(Ordering::SeqCst) < expected_done && start.elapsed() < Duration::from_millis(6000) { std::thread::sleep(Duration::from_millis(5)); }
    emit(&format!("connected={}/{pairs} echoed={} refused={}/{refused} flags={}/{} unfinished={}",
        CONNECTED.load(Ordering::SeqCst), ECHOED.load(Ordering::SeqCst), REFUSED.load(Ordering::SeqCst),
        FLAGS_OK.load(Ordering::SeqCst), 2 * pairs + refused, expected_done - DONE.load(Ordering::SeqCst)));
}
