//! C11 across pools: k real CoroutinePools of one process on the harness thread. Their schedulers share the
//! process-wide ready queue bean (as the event loops' schedulers do), so a worker coroutine whose task
//! yielded may be resumed, and may finish, under another pool than the one that created and counts it.
//! body: `<k> <max> ; op | op | …`   ops: sub <i> <yields> | pass <i> <budget ms> | fin
//!   sub: a task for pool i that `<yields>` times advances the (virtual) clock by 1 ms and yields, then returns
//!   pass: `try_timed_schedule_task(budget)`: a pass whose budget runs out leaves started workers in that
//!         pool's ready queue, where the next pass of *another* pool finds them
//!   fin: passes (budget 1 s) over all pools in turn until every task has finished and two more rounds were idle (at most 60 rounds)
//! outs: sub → `ok`; pass/fin → `run=<running size of pool 0>,<pool 1>,… done=<tasks finished so far>`
use crate::rng::Rng;
use open_coroutine_core::co_pool::CoroutinePool;
use std::cell::Cell;
use std::rc::Rc;
use std::time::Duration;
use open_coroutine_core::verif;

pub fn gen(r: &mut Rng, thorough: bool) -> String {
    let k = *r.pick(&[1u64, 2, 2, 2, 3, 4]);
    let max = *r.pick(&[1u64, 2, 2, 4, 8]);
    let n = if thorough { r.range(6, 40) } else { r.range(3, 14) };
    let mut ops = Vec::new();
    for _ in 0..n {
        match r.below(10) {
            0..=4 => ops.push(format!("sub {} {}", r.below(k), r.pick(&[0u64, 0, 1, 1, 2, 3, 5]))),
            _ => ops.push(format!("pass {} {}", r.below(k), r.pick(&[1u64, 1, 2, 3, 1000]))),
        }
    }
    ops.push("fin".into());
    format!("{k} {max} ; {}", ops.join(" | "))
}

pub fn exec(body: &str, emit: &mut dyn FnMut(&str)) {
    std::panic::set_hook(Box::new(|_| {}));
    let (cfg, ops) = match body.split_once(" ; ") { Some(x) => x, None => { emit("BADCASE"); return; } };
    let c: Vec<usize> = cfg.split_whitespace().filter_map(|x| x.parse().ok()).collect();
    if c.len() != 2 { emit("BADCASE"); return; }
    let (k, max) = (c[0], c[1]);
    let mut pools: Vec<&'static mut CoroutinePool<'static>> = (0..k)
        .map(|i| &mut *Box::leak(Box::new(CoroutinePool::new(format!("verif-mpool-{i}"), 128 * 1024, 0, max, 0))))
        .collect();
    verif::set_virtual_now(1_000_000);
    let done: Rc<Cell<usize>> = Rc::default();
    let mut submitted = 0usize;
    let show = |pools: &Vec<&'static mut CoroutinePool<'static>>, done: &Rc<Cell<usize>>| {
        format!("run={} done={}", pools.iter().map(|p| p.get_running_size().to_string()).collect::<Vec<_>>().join(","), done.get())
    };
    for op in ops.split(" | ") {
        let t: Vec<&str> = op.split_whitespace().collect();
        let out = match t.as_slice() {
            ["sub", i, y] => {
                let y: usize = y.parse().unwrap_or(0);
                let done = done.clone();
                let id = pools[i.parse::<usize>().unwrap()].submit_task(None, move |_| {
                    for _ in 0..y {
                        let _ = verif::advance_virtual_now(1_000_000);
                        if let Some(s) = open_coroutine_core::coroutine::suspender::Suspender::<(), ()>::current() { s.suspend(); }
                    }
                    done.set(done.get() + 1);
                    Some(0)
                }, None, None).expect("submit");
                pools[0].clean_task_result(id);
                submitted += 1;
                "ok".to_string()
            }
            ["pass", i, b] => { let _ = pools[i.parse::<usize>().unwrap()].try_timed_schedule_task(Duration::from_millis(b.parse().unwrap_or(1))); show(&pools, &done) }
            ["fin"] => {
                let mut idle_rounds = 0;
                for _ in 0..60 {
                    let before = done.get();
                    for p in pools.iter_mut() { let _ = p.try_timed_schedule_task(Duration::from_secs(1)); }
                    if done.get() == submitted && done.get() == before { idle_rounds += 1; if idle_rounds >= 2 { break; } }
                }
                show(&pools, &done)
            }
            _ => "BADOP".into(),
        };
        emit(&out);
    }
}
