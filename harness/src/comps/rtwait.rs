//! C14 (wall-clock smoke, implementation-vs-oracle): the real hooked calls on a live event loop
//! from a plain thread, or (`co<loops>`) from inside a task of a runtime with that many loops; no interception.
//! body: `<call> <micros> [co<loops>]`   out: `within` | `early <ns>` | `late <ns>` | `lost` (the task never came back)
use crate::rng::Rng;
use std::time::Instant;

pub fn gen(r: &mut Rng, _thorough: bool) -> String {
    let call = *r.pick(&["usleep", "nanosleep", "poll", "select", "sleep0"]);
    let us = *r.pick(&[0u64, 300, 1000, 2500, 3000, 12_000, 20_000, 35_000]);
    match r.below(3) { 0 => format!("{call} {us}"), 1 => format!("{call} {us} co1"), _ => format!("{call} {us} co{}", r.range(2, 4)) }
}

pub fn exec(body: &str, emit: &mut dyn FnMut(&str)) {
    let t: Vec<&str> = body.split_whitespace().collect();
    if t.len() != 2 && t.len() != 3 { emit("BADCASE"); return; }
    let us: u64 = t[1].parse().unwrap();
    let call = t[0].to_string();
    let loops: usize = if t.len() == 3 { t[2].trim_start_matches("co").parse().unwrap_or(1) } else { 0 };
    let mut cfg = open_coroutine_core::config::Config::single();
    _ = cfg.set_event_loop_size(loops.max(1)).set_hook(false);
    open_coroutine_core::net::EventLoops::init(&cfg);
    if loops == 0 { emit(&timed(&call, us)); return; }
    // inside a task; two more tasks that yield keep the other loops interested in stealing
    static OUT: std::sync::Mutex<Option<String>> = std::sync::Mutex::new(None);
    for _ in 0..2 {
        let h = open_coroutine_core::net::EventLoops::submit_task(None, |_| {
            for _ in 0..200 { if let Some(s) = open_coroutine_core::scheduler::SchedulableSuspender::current() { s.suspend(); } }
            Some(0)
        }, None, None);
        std::mem::forget(h);
    }
    let h = open_coroutine_core::net::EventLoops::submit_task(None, move |_| { *OUT.lock().unwrap() = Some(timed(&call, us)); Some(0) }, None, None);
    std::mem::forget(h);
    let t0 = Instant::now();
    while OUT.lock().unwrap().is_none() && t0.elapsed() < std::time::Duration::from_secs(5) { std::thread::sleep(std::time::Duration::from_millis(2)); }
    let r = OUT.lock().unwrap().clone();
    emit(&r.unwrap_or_else(|| "lost".to_string()));
}

fn timed(call: &str, us: u64) -> String {
    use open_coroutine_core::syscall as sc;
    let start = Instant::now();
    let mut req_ns = us * 1000;
    unsafe {
        match call {
            "usleep" => { let _ = sc::usleep(None, us as u32); }
            "nanosleep" => { let rq = libc::timespec { tv_sec: 0, tv_nsec: (us * 1000) as i64 }; let _ = sc::nanosleep(None, &rq, std::ptr::null_mut()); }
            "poll" => { let ms = (us / 1000) as i32; req_ns = ms as u64 * 1_000_000; let _ = sc::poll(None, std::ptr::null_mut(), 0, ms); }
            "select" => { let mut tv = libc::timeval { tv_sec: 0, tv_usec: us as i64 }; let _ = sc::select(None, 0, std::ptr::null_mut(), std::ptr::null_mut(), std::ptr::null_mut(), &mut tv); }
            "sleep0" => { req_ns = 0; let _ = sc::sleep(None, 0); }
            _ => { return "BADCALL".to_string(); }
        }
    }
    let el = start.elapsed().as_nanos() as u64;
    // generous scheduling slack: 10 ms per slice plus 300 ms
    let slack = 300_000_000 + (req_ns / 10_000_000 + 1) * 10_000_000;
    if el < req_ns { format!("early {}", req_ns - el) }
    else if el > req_ns + slack { format!("late {}", el - req_ns) }
    else { "within".to_string() }
}
