//! C14 (wall-clock smoke, implementation-vs-oracle): the real hooked calls on a live event loop
//! from a plain thread, no interception. body: `<call> <micros>`   out: `within` | `early <ns>` | `late <ns>`
use crate::rng::Rng;
use std::time::Instant;

pub fn gen(r: &mut Rng, _thorough: bool) -> String {
    let call = *r.pick(&["usleep", "nanosleep", "poll", "select", "sleep0"]);
    let us = *r.pick(&[0u64, 300, 1000, 2500, 3000, 12_000, 20_000, 35_000]);
    format!("{call} {us}")
}

pub fn exec(body: &str, emit: &mut dyn FnMut(&str)) {
    use open_coroutine_core::syscall as sc;
    let t: Vec<&str> = body.split_whitespace().collect();
    if t.len() != 2 { emit("BADCASE"); return; }
    let us: u64 = t[1].parse().unwrap();
    open_coroutine_core::net::EventLoops::init(&open_coroutine_core::config::Config::single());
    let start = Instant::now();
    let mut req_ns = us * 1000;
    unsafe {
        match t[0] {
            "usleep" => { let _ = sc::usleep(None, us as u32); }
            "nanosleep" => { let rq = libc::timespec { tv_sec: 0, tv_nsec: (us * 1000) as i64 }; let _ = sc::nanosleep(None, &rq, std::ptr::null_mut()); }
            "poll" => { let ms = (us / 1000) as i32; req_ns = ms as u64 * 1_000_000; let _ = sc::poll(None, std::ptr::null_mut(), 0, ms); }
            "select" => { let mut tv = libc::timeval { tv_sec: 0, tv_usec: us as i64 }; let _ = sc::select(None, 0, std::ptr::null_mut(), std::ptr::null_mut(), std::ptr::null_mut(), &mut tv); }
            "sleep0" => { req_ns = 0; let _ = sc::sleep(None, 0); }
            _ => { emit("BADCALL"); return; }
        }
    }
    let el = start.elapsed().as_nanos() as u64;
    // generous scheduling slack: 10 ms per slice plus 100 ms
    let slack = 100_000_000 + (req_ns / 10_000_000 + 1) * 10_000_000;
    if el < req_ns { emit(&format!("early {}", req_ns - el)); }
    else if el > req_ns + slack { emit(&format!("late {}", el - req_ns)); }
    else { emit("within"); }
}
