//! C07/C08/C09: real coroutines interpreting step programs, several on one thread.
//! body: `prog ; prog ; … ; sched: c:p:adv c:p:adv …`
//!   prog steps (comma separated): S<y> | D<y>:<ns> | U<y>:<ts> | E | Ts<ts> | Tc | Tt | Te | W | X | C | P0 | P1 | R<r>
//!   sched entry: advance the virtual clock by <adv>, then coroutine <c>.resume_with(<p>)
//! out per sched entry: `res=<…> st=<…> ev=<…> got=<…> log=<…>`
use crate::rng::Rng;
use open_coroutine_core::common::constants::{CoroutineState, SyscallName, SyscallState};
use open_coroutine_core::coroutine::listener::Listener;
use open_coroutine_core::coroutine::local::CoroutineLocal;
use open_coroutine_core::coroutine::suspender::Suspender;
use open_coroutine_core::coroutine::Coroutine;
use open_coroutine_core::verif;
use std::cell::RefCell;
use std::rc::Rc;
use std::time::Duration;

type Co = Coroutine<'static, usize, usize, usize>;

pub fn gen(r: &mut Rng, thorough: bool) -> String {
    let nco = r.range(1, 3);
    let mut progs = Vec::new();
    let t0 = 1000u64;
    for _ in 0..nco {
        let n = r.range(0, if thorough { 14 } else { 8 });
        let mut steps: Vec<String> = Vec::new();
        let mut in_sys = false;
        for _ in 0..n {
            let y = r.below(5);
            let k = r.below(if in_sys { 12 } else { 16 });
            let s = match k {
                0..=2 => format!("S{y}"),
                3 => format!("D{y}:{}", r.pick(&[0u64, 1, 50, 1000, u64::MAX])),
                4 => format!("U{y}:{}", r.pick(&[0u64, 1, t0, t0 + 10, t0 + 500, u64::MAX])),
                5 => { in_sys = true; "E".to_string() }
                6 => format!("Ts{}", r.pick(&[0u64, t0 + 100, u64::MAX])),
                7 => (*r.pick(&["Tc", "Tt", "Te"])).to_string(),
                8 => { if in_sys && r.chance(2, 3) { in_sys = false; "X".to_string() } else { "W".to_string() } }
                9 => { in_sys = false; "X".to_string() }
                10 => format!("U{y}:{}", t0 + r.below(300)),
                11 => format!("S{y}"),
                12 => "C".to_string(),
                13 => format!("P{}", *r.pick(&[0u64, 1, 1, 7, 1100, 1127, 1128, 1129, 1300])),
                14 => format!("R{}", r.below(100)),
                _ => format!("S{y}"),
            };
            steps.push(s);
        }
        progs.push(if steps.is_empty() { "-".to_string() } else { steps.join(",") });
    }
    let m = r.range(1, if thorough { 24 } else { 12 });
    let sched: Vec<String> = (0..m).map(|_| format!("{}:{}:{}", r.below(nco), r.below(90) + 10, r.pick(&[0u64, 0, 1, 20, 200, 1000]))).collect();
    format!("{} ; sched: {}", progs.join(" ; "), sched.join(" "))
}

fn sys(st: &SyscallState) -> String {
    match st {
        SyscallState::Executing => "Exec".into(),
        SyscallState::Suspend(t) => format!("Susp({t})"),
        SyscallState::Timeout => "Timeout".into(),
        SyscallState::Callback => "Callback".into(),
    }
}
fn show(s: &CoroutineState<usize, usize>, name: &str) -> String {
    match s {
        CoroutineState::Ready => "Ready".into(),
        CoroutineState::Running => "Running".into(),
        CoroutineState::Suspend(y, t) => format!("Susp({y},{t})"),
        CoroutineState::Syscall(y, n, st) => format!("Sys({y},{n},{})", sys(st)),
        CoroutineState::Cancelled => "Canc".into(),
        CoroutineState::Complete(r) => format!("Comp({r})"),
        CoroutineState::Error(m) => format!("Err({})", m.replace(name, "<name>").replace(' ', "_").replace(":", "_")),
    }
}

#[derive(Debug)]
struct Rec { ev: Rc<RefCell<Vec<String>>>, name: String }
impl Listener<usize, usize> for Rec {
    fn on_state_changed(&self, _: &CoroutineLocal, o: CoroutineState<usize, usize>, n: CoroutineState<usize, usize>) {
        self.ev.borrow_mut().push(format!("{}>{}", show(&o, &self.name), show(&n, &self.name)));
    }
    fn on_ready(&self, _: &CoroutineLocal, _: CoroutineState<usize, usize>) { self.ev.borrow_mut().push(":ready".into()); }
    fn on_running(&self, _: &CoroutineLocal, _: CoroutineState<usize, usize>) { self.ev.borrow_mut().push(":running".into()); }
    fn on_suspend(&self, _: &CoroutineLocal, _: CoroutineState<usize, usize>) { self.ev.borrow_mut().push(":suspend".into()); }
    fn on_syscall(&self, _: &CoroutineLocal, _: CoroutineState<usize, usize>) { self.ev.borrow_mut().push(":syscall".into()); }
    fn on_cancel(&self, _: &CoroutineLocal, _: CoroutineState<usize, usize>) { self.ev.borrow_mut().push(":cancel".into()); }
    fn on_complete(&self, _: &CoroutineLocal, _: CoroutineState<usize, usize>, r: usize) { self.ev.borrow_mut().push(format!(":complete({r})")); }
    fn on_error(&self, _: &CoroutineLocal, _: CoroutineState<usize, usize>, m: &str) { self.ev.borrow_mut().push(format!(":error({})", m.replace(&self.name, "<name>").replace(' ', "_").replace(":", "_"))); }
}

/// `old>new` entries start a new event, `:callback` entries attach to it: `old>new:cb;old>new:cb`
fn evs_join(v: &[String]) -> String {
    let mut out = String::new();
    for e in v {
        if !e.starts_with(':') && !out.is_empty() { out.push(';'); }
        out.push_str(e);
    }
    out
}

fn run_prog(steps: Vec<String>, s: &Suspender<usize, usize>, first: usize, got: Rc<RefCell<Vec<usize>>>, log: Rc<RefCell<Vec<String>>>) -> usize {
    got.borrow_mut().push(first);
    for st in steps {
        let co = Co::current().expect("current");
        let ok = |r: std::io::Result<()>| if r.is_ok() { "ok".to_string() } else { "err".to_string() };
        let (head, rest) = st.split_at(1);
        match head {
            "S" => { let p = s.suspend_with(rest.parse().unwrap()); got.borrow_mut().push(p); }
            "D" => { let (y, d) = rest.split_once(':').unwrap(); let p = s.delay_with(y.parse().unwrap(), Duration::from_nanos(d.parse().unwrap())); got.borrow_mut().push(p); }
            "U" => { let (y, t) = rest.split_once(':').unwrap(); let p = s.until_with(y.parse().unwrap(), t.parse().unwrap()); got.borrow_mut().push(p); }
            "E" => log.borrow_mut().push(format!("E:{}", ok(co.syscall(0, SyscallName::nanosleep, SyscallState::Executing)))),
            "T" => {
                let stt = match &rest[..1] { "s" => SyscallState::Suspend(rest[1..].parse().unwrap()), "c" => SyscallState::Callback, "t" => SyscallState::Timeout, _ => SyscallState::Executing };
                log.borrow_mut().push(format!("T:{}", ok(co.syscall(0, SyscallName::nanosleep, stt))));
            }
            "W" => log.borrow_mut().push(format!("W:{}", ok(co.syscall(0, SyscallName::sleep, SyscallState::Executing)))),
            "X" => log.borrow_mut().push(format!("X:{}", ok(co.running()))),
            "C" => { s.cancel(); }
            "P" => { if rest == "0" { panic!("boom"); } else { let k = rest.to_string(); let tail = "é".repeat(rest.parse::<usize>().unwrap_or(0).saturating_sub(1000)); if tail.is_empty() { panic!("boom{k}"); } else { panic!("boom{k}-{tail}"); } } }
            "R" => return rest.parse().unwrap(),
            _ => {}
        }
    }
    0
}

pub fn exec(body: &str, emit: &mut dyn FnMut(&str)) {
    std::panic::set_hook(Box::new(|_| {}));
    let parts: Vec<&str> = body.split(" ; ").collect();
    if parts.len() < 2 { emit("BADCASE"); return; }
    let sched = parts[parts.len() - 1].trim_start_matches("sched:").trim();
    verif::set_virtual_now(1000);
    let mut cos: Vec<Co> = Vec::new();
    let mut evs = Vec::new();
    let mut gots = Vec::new();
    let mut logs = Vec::new();
    for (i, p) in parts[..parts.len() - 1].iter().enumerate() {
        let steps: Vec<String> = if p.trim() == "-" { vec![] } else { p.trim().split(',').map(String::from).collect() };
        let got = Rc::new(RefCell::new(Vec::new()));
        let log = Rc::new(RefCell::new(Vec::new()));
        let ev = Rc::new(RefCell::new(Vec::new()));
        let (g2, l2) = (got.clone(), log.clone());
        let name = format!("co{i}");
        let mut co: Co = Coroutine::new(Some(name.clone()), move |s: &Suspender<usize, usize>, first: usize| run_prog(steps, s, first, g2, l2), None, None).expect("create");
        co.add_listener(Rec { ev: ev.clone(), name });
        cos.push(co); evs.push(ev); gots.push(got); logs.push(log);
    }
    for ent in sched.split_whitespace() {
        let f: Vec<&str> = ent.split(':').collect();
        let (c, p, adv): (usize, usize, u64) = (f[0].parse().unwrap(), f[1].parse().unwrap(), f[2].parse().unwrap());
        if c >= cos.len() { emit("BADOP"); continue; }
        let _ = verif::advance_virtual_now(adv);
        let (g0, l0) = (gots[c].borrow().len(), logs[c].borrow().len());
        evs[c].borrow_mut().clear();
        let co = &mut cos[c];
        let name = format!("co{c}");
        let r = std::panic::catch_unwind(std::panic::AssertUnwindSafe(|| co.resume_with(p)));
        let res = match r { Ok(Ok(s)) => show(&s, &name), Ok(Err(_)) => "Err".to_string(), Err(_) => "PANIC".to_string() };
        let st = show(&cos[c].state(), &name);
        let cur = open_coroutine_core::coroutine::suspender::Suspender::<usize, usize>::current().is_some();
        emit(&format!("res={} st={} ev={} got={} log={} cur={}", res, st, evs_join(&evs[c].borrow()),
            gots[c].borrow()[g0..].iter().map(|x| x.to_string()).collect::<Vec<_>>().join(","),
            logs[c].borrow()[l0..].join(","), cur as u8));
    }
    // coroutines that are suspended mid-body are dropped here (force_reset)
    verif::clear_virtual_now();
}
