//! C19: SO_RCVTIMEO / SO_SNDTIMEO tracking across setsockopt, hooked I/O, close and fd reuse.
//! body: ops `open <s>` | `set <s> <rcv|snd> <sec> <usec>` | `io <s> <rcv|snd>` | `close <s>` over slots 0..3
//! outs: open → `fd=<a>,<b>` ; set → `r=<ret> k=<kernel ns>` ; io → `limit=<ns> k=<kernel ns>` ; close → `r=<ret>`
use crate::rng::Rng;
use libc::c_int;

pub fn gen(r: &mut Rng, thorough: bool) -> String {
    let n = if thorough { r.range(3, 40) } else { r.range(2, 14) };
    let mut open = [false; 4];
    let mut ops = Vec::new();
    for _ in 0..n {
        let s = r.below(4) as usize;
        if !open[s] { ops.push(format!("open {s}")); open[s] = true; continue; }
        let w = if r.chance(1, 2) { "rcv" } else { "snd" };
        if r.chance(1, 8) {
            // a socket with limits in both directions in use is closed and its descriptor number reused
            let o = if w == "rcv" { "snd" } else { "rcv" };
            ops.push(format!("set {s} {w} {} {}", r.range(1, 5), *r.pick(&[0i64, 250_000])));
            if r.chance(1, 2) { ops.push(format!("set {s} {o} {} 0", r.range(1, 5))); }
            ops.push(format!("io {s} {o}")); ops.push(format!("io {s} {w}"));
            ops.push(format!("close {s}")); ops.push(format!("open {s}"));
            ops.push(format!("io {s} {w}")); ops.push(format!("io {s} {o}"));
            continue;
        }
        match r.below(10) {
            0..=3 => {
                let sec = *r.pick(&[0i64, 0, 0, 1, 2, 3600, -1, 9_000_000_000]);
                let usec = *r.pick(&[0i64, 0, 1, 500, 4000, 999_999, 250_000]);
                ops.push(format!("set {s} {w} {sec} {usec}"));
            }
            4..=7 => ops.push(format!("io {s} {w}")),
            _ => { ops.push(format!("close {s}")); open[s] = false; }
        }
    }
    ops.join(" | ")
}

fn conv(tv: &libc::timeval) -> u64 {
    if tv.tv_sec == 0 && tv.tv_usec == 0 { u64::MAX }
    else { (tv.tv_sec as u64).saturating_mul(1_000_000_000).saturating_add((tv.tv_usec as u64).saturating_mul(1000)) }
}

unsafe fn kernel_value(fd: c_int, name: c_int) -> u64 {
    let mut tv: libc::timeval = std::mem::zeroed();
    let mut l = std::mem::size_of::<libc::timeval>() as u32;
    if libc::getsockopt(fd, libc::SOL_SOCKET, name, (&mut tv as *mut libc::timeval).cast(), &mut l) != 0 { return 0; }
    conv(&tv)
}

pub fn exec(body: &str, emit: &mut dyn FnMut(&str)) {
    use open_coroutine_core::syscall as sc;
    open_coroutine_core::net::EventLoops::init(&open_coroutine_core::config::Config::single());
    let mut slots: [Option<(c_int, c_int)>; 4] = [None; 4];
    for op in body.split(" | ") {
        let t: Vec<&str> = op.split_whitespace().collect();
        let out = unsafe {
            match t.as_slice() {
                ["open", s] => {
                    let s: usize = s.parse().unwrap();
                    let mut sv = [0 as c_int; 2];
                    if libc::socketpair(libc::AF_UNIX, libc::SOCK_STREAM, 0, sv.as_mut_ptr()) != 0 { "NOSOCK".to_string() }
                    else { slots[s] = Some((sv[0], sv[1])); format!("fd={},{}", sv[0], sv[1]) }
                }
                ["set", s, w, sec, usec] => {
                    let s: usize = s.parse().unwrap();
                    match slots[s] {
                        None => "NOSLOT".to_string(),
                        Some((fd, _)) => {
                            let name = if *w == "rcv" { libc::SO_RCVTIMEO } else { libc::SO_SNDTIMEO };
                            let tv = libc::timeval { tv_sec: sec.parse().unwrap(), tv_usec: usec.parse().unwrap() };
                            let r = sc::setsockopt(None, fd, libc::SOL_SOCKET, name, (&tv as *const libc::timeval).cast(), std::mem::size_of::<libc::timeval>() as u32);
                            format!("r={} k={}", r, kernel_value(fd, name))
                        }
                    }
                }
                ["io", s, w] => {
                    let s: usize = s.parse().unwrap();
                    match slots[s] {
                        None => "NOSLOT".to_string(),
                        Some((fd, _)) => {
                            let (l, name) = if *w == "rcv" { (sc::recv_time_limit(fd), libc::SO_RCVTIMEO) } else { (sc::send_time_limit(fd), libc::SO_SNDTIMEO) };
                            format!("limit={} k={}", l, kernel_value(fd, name))
                        }
                    }
                }
                ["close", s] => {
                    let s: usize = s.parse().unwrap();
                    match slots[s].take() {
                        None => "NOSLOT".to_string(),
                        Some((a, b)) => { let r1 = sc::close(None, a); let r2 = sc::close(None, b); format!("r={}", r1 + r2) }
                    }
                }
                _ => "BADOP".to_string(),
            }
        };
        emit(&out);
    }
}
