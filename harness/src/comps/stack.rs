//! C23: stack growth bookkeeping in a coroutine (`co`) and on a plain thread (`th`).
//! body: `<co|th> ; chain ; chain ; …`  chain = level>level>…(!|.)   level = red_kb:size_kb:frame_kb:catch(0|1)
//! Each level burns `frame_kb` of stack, then calls the next level through maybe_grow_with(red, size).
//! A chain ending in `!` panics in its innermost callback; a level with catch=1 catches what unwinds
//! out of the maybe_grow_with call it makes. `L~D`: the innermost callback of L panics while it holds
//! a value whose destructor runs the chain D — growth requests made *while unwinding*.
//! out per chain: per call `d<depth before>,m<0 enough|1 short|2 near>,g<grew>,i<depth inside>,k<room ok>` … then `a<depth after> v<result>`
use crate::rng::Rng;
use open_coroutine_core::coroutine::suspender::Suspender;
use open_coroutine_core::coroutine::Coroutine;
use std::cell::RefCell;

pub fn gen(r: &mut Rng, thorough: bool) -> String {
    let path = if r.chance(1, 2) { "co" } else { "th" };
    let nch = r.range(1, if thorough { 6 } else { 4 });
    let mut chains = Vec::new();
    for _ in 0..nch {
        let depth = r.range(1, 5);
        let mut levels = Vec::new();
        let mut prev_red = 1024u64;
        for _ in 0..depth {
            let red = *r.pick(&[32u64, 64, 96, 128]);
            let size = *r.pick(&[256u64, 512]);
            // the frame is burnt inside the previous level's callback: it must fit that level's red zone
            let frame = *r.pick(&[1u64, 8, 24, 48]).min(&(prev_red / 4));
            prev_red = red;
            let catch = if r.chance(1, 3) { 1 } else { 0 };
            levels.push(format!("{red}:{size}:{frame}:{catch}"));
        }
        if r.chance(1, 5) {
            // a drop chain that runs during the unwinding of this chain's panic
            let dd = r.range(1, 4);
            let mut dl = Vec::new();
            let mut pr = prev_red;
            for _ in 0..dd {
                let red = *r.pick(&[32u64, 64, 96, 128]);
                let size = *r.pick(&[256u64, 512]);
                let frame = *r.pick(&[1u64, 8, 24, 48]).min(&(pr / 4));
                pr = red;
                dl.push(format!("{red}:{size}:{frame}:0"));
            }
            chains.push(format!("{}~{}", levels.join(">"), dl.join(">")));
            continue;
        }
        let end = if r.chance(2, 5) { "!" } else { "." };
        chains.push(format!("{}{}", levels.join(">"), end));
    }
    format!("{path} ; {}", chains.join(" ; "))
}

#[derive(Clone, Copy)]
struct Level { red: usize, size: usize, frame: usize, catch: bool }

thread_local! { static LOG: RefCell<Vec<String>> = RefCell::new(Vec::new()); }

fn depth(is_co: bool) -> usize {
    if is_co { Coroutine::<(), (), ()>::current().map_or(0, |c| c.stack_infos().len() - 1) }
    else { open_coroutine_core::verif::thread_stack_depth() }
}

#[inline(never)]
fn burn(kb: usize, f: &mut dyn FnMut() -> usize) -> usize {
    // consume about `kb` KiB of stack in this frame, then continue
    macro_rules! frame { ($n:expr) => {{ let mut a = [0u8; $n * 1024]; std::hint::black_box(&mut a); let r = f(); std::hint::black_box(&mut a); r }}; }
    match kb { 0..=1 => frame!(1), 2..=8 => frame!(8), 9..=24 => frame!(24), _ => frame!(48) }
}

/// remaining stack below the current sp on the segment we believe we are on
fn remaining(is_co: bool, seg: Option<(usize, usize)>) -> Option<usize> {
    let sp = psm::stack_pointer() as usize;
    if is_co { return Coroutine::<(), (), ()>::current().map(|c| unsafe { c.remaining_stack() }); }
    seg.map(|(top, size)| size.saturating_sub(top.saturating_sub(sp)))
}

struct DropChain { is_co: bool, levels: Vec<Level>, seg: Option<(usize, usize)> }
impl Drop for DropChain {
    fn drop(&mut self) { let _ = run_levels(self.is_co, &self.levels, false, self.seg, &[]); }
}

fn run_levels(is_co: bool, levels: &[Level], panic_at_end: bool, seg: Option<(usize, usize)>, on_unwind: &[Level]) -> usize {
    if levels.is_empty() {
        if panic_at_end {
            let _guard = if on_unwind.is_empty() { None } else { Some(DropChain { is_co, levels: on_unwind.to_vec(), seg }) };
            panic!("chain panic");
        }
        return 7;
    }
    let l = levels[0];
    let rest = levels[1..].to_vec();
    let unw = on_unwind.to_vec();
    let mut cont = move || -> usize {
        let d0 = depth(is_co);
        let rem = remaining(is_co, seg);
        let red = l.red * 1024;
        // 0 = clearly enough, 1 = clearly short, 2 = too close to call / unknown
        let m = match rem { None => if !is_co && d0 == 0 { 1 } else { 2 }, Some(x) => if x >= red + 4096 { 0 } else if x + 4096 <= red { 1 } else { 2 } };
        let rest2 = rest.clone();
        let unw2 = unw.clone();
        let call = move || {
            Coroutine::<(), (), ()>::maybe_grow_with(red, l.size * 1024, move || {
                let di = depth(is_co);
                let sp_in = psm::stack_pointer() as usize;
                let grew = di > d0;
                let seg2 = if grew { Some((sp_in, l.size * 1024)) } else { seg };
                let room = remaining(is_co, seg2);
                let room_ok = room.map_or(true, |x| x + 4096 >= red);
                LOG.with(|g| g.borrow_mut().push(format!("d{d0},m{m},g{},i{di},k{}", grew as u8, room_ok as u8)));
                run_levels(is_co, &rest2, panic_at_end, seg2, &unw2)
            })
        };
        if l.catch {
            match std::panic::catch_unwind(std::panic::AssertUnwindSafe(call)) {
                Ok(Ok(v)) => v,
                Ok(Err(_)) => 1000,
                Err(_) => { LOG.with(|g| g.borrow_mut().push(format!("c{}", depth(is_co)))); 99 }
            }
        } else {
            call().unwrap_or(1000)
        }
    };
    burn(l.frame, &mut cont)
}

fn parse_levels(body: &str) -> Vec<Level> {
    body.split('>').filter(|l| !l.is_empty()).map(|l| { let f: Vec<usize> = l.split(':').map(|x| x.parse().unwrap()).collect(); Level { red: f[0], size: f[1], frame: f[2], catch: f[3] == 1 } }).collect()
}

fn parse_chain(c: &str) -> (Vec<Level>, bool, Vec<Level>) {
    if let Some((l, d)) = c.split_once('~') { return (parse_levels(l), true, parse_levels(d)); }
    let panic_at_end = c.ends_with('!');
    let body = c.trim_end_matches(['!', '.']);
    (parse_levels(body), panic_at_end, Vec::new())
}

fn run_chain(is_co: bool, c: &str) -> String {
    let (levels, p, unw) = parse_chain(c);
    LOG.with(|g| g.borrow_mut().clear());
    let r = std::panic::catch_unwind(std::panic::AssertUnwindSafe(|| run_levels(is_co, &levels, p, None, &unw)));
    let v = match r { Ok(v) => v.to_string(), Err(_) => "unwound".to_string() };
    let log = LOG.with(|g| g.borrow().join(" "));
    format!("{log} a{} v{v}", depth(is_co))
}

pub fn exec(body: &str, emit: &mut dyn FnMut(&str)) {
    std::panic::set_hook(Box::new(|_| {}));
    let parts: Vec<String> = body.split(" ; ").map(String::from).collect();
    let is_co = parts[0].trim() == "co";
    let chains: Vec<String> = parts[1..].to_vec();
    if is_co {
        let outs: std::rc::Rc<RefCell<Vec<String>>> = Default::default();
        let o2 = outs.clone();
        let mut co: Coroutine<(), (), ()> = Coroutine::new(Some("stack".into()), move |_: &Suspender<(), ()>, ()| {
            for c in &chains { let s = run_chain(true, c); o2.borrow_mut().push(s); }
        }, Some(256 * 1024), None).expect("co");
        let _ = co.resume();
        for o in outs.borrow().iter() { emit(o); }
    } else {
        // a fresh OS thread with a roomy stack
        let h = std::thread::Builder::new().stack_size(8 << 20).spawn(move || chains.iter().map(|c| run_chain(false, c)).collect::<Vec<_>>()).unwrap();
        match h.join() { Ok(v) => for o in v { emit(&o); }, Err(_) => emit("THREADPANIC") }
    }
}
