//! C15: a real (unstarted) event loop whose turns the harness thread makes, virtual clock, tasks that
//! block in the *hooked* nanosleep / yield / return.
//! body: `<max> <step_ms> ; task task …`   task = Z<ms> (hooked nanosleep) | Y<k> (k plain yields) | R |
//!   V<arrive_ms>x<ms> (hooked recv on an empty socket whose peer writes when the clock reaches arrive_ms, then a
//!   hooked nanosleep of ms),
//!   each optionally `@<ms>`: submitted only when the clock has reached that many ms (default 0)
//! Protocol: turn; advance the clock by step_ms; … until every task is done (or 400 turns).
//! out: `fin=<id>:<ms since start at which the task finished>,…` (by id; `-` = never)
use crate::rng::Rng;
use open_coroutine_core::net::verif_loop::VLoop;
use open_coroutine_core::scheduler::SchedulableSuspender;
use open_coroutine_core::verif;
use std::cell::RefCell;
use std::rc::Rc;
use std::time::Duration;

pub fn gen(r: &mut Rng, thorough: bool) -> String {
    let n = r.range(1, if thorough { 10 } else { 7 });
    let max = *r.pick(&[1u64, 2, 3, 8, 8, 16]);
    let step = *r.pick(&[1u64, 2, 5, 10]);
    let mut tasks = Vec::new();
    let common = step * r.range(1, 8);
    if r.chance(1, 6) {
        // one receiver among tasks that use no timers: when the byte arrives nobody else polls the selector,
        // so the time at which the receiver continues is determined by its own 10 ms slices and the turn
        tasks.push(format!("V{}x{}", step * r.range(1, 9), step * r.range(2, 8)));
        for _ in 1..n.min(max) { tasks.push(if r.chance(1, 2) { "R".to_string() } else { format!("Y{}", r.range(1, 4)) }); }
        return format!("{max} {step} ; {}", tasks.join(" "));
    }
    for _ in 0..n {
        let t = match r.below(8) {
            0 => "R".to_string(),
            1 => format!("Y{}", r.range(1, 4)),
            2 => format!("Z{}", step * r.range(1, 12)),
            _ => format!("Z{common}"),
        };
        // a third of the tasks arrive later, while others are asleep
        tasks.push(if r.chance(1, 3) { format!("{t}@{}", step * r.range(1, 10)) } else { t });
    }
    format!("{max} {step} ; {}", tasks.join(" "))
}

pub fn exec(body: &str, emit: &mut dyn FnMut(&str)) {
    std::panic::set_hook(Box::new(|_| {}));
    let (cfg, tasks) = match body.split_once(" ; ") { Some(x) => x, None => { emit("BADCASE"); return; } };
    let c: Vec<u64> = cfg.split_whitespace().filter_map(|x| x.parse().ok()).collect();
    if c.len() != 2 { emit("BADCASE"); return; }
    let (max, step) = (c[0] as usize, c[1]);
    let t0: u64 = 1_000_000_000;
    verif::set_virtual_now(t0);
    let mut lp = VLoop::new(max).expect("loop");
    let fin: Rc<RefCell<Vec<Option<u64>>>> = Default::default();
    let tasks: Vec<(String, u64)> = tasks.split_whitespace().map(|t| match t.split_once('@') { Some((a, b)) => (a.to_string(), b.parse().unwrap_or(0)), None => (t.to_string(), 0) }).collect();
    for _ in 0..tasks.len() { fin.borrow_mut().push(None); }
    let mut submitted = vec![false; tasks.len()];
    // receivers: a socket pair each, (peer fd, arrival time, written?)
    let mut peers: Vec<Option<(i32, i32, u64, bool)>> = tasks.iter().map(|(t, _)| {
        if let Some(rest) = t.strip_prefix('V') {
            let arrive: u64 = rest.split('x').next().unwrap().parse().unwrap();
            let mut sv = [0i32; 2];
            unsafe { libc::socketpair(libc::AF_UNIX, libc::SOCK_STREAM, 0, sv.as_mut_ptr()); }
            Some((sv[0], sv[1], arrive, false))
        } else { None }
    }).collect();
    let fds: Vec<i32> = peers.iter().map(|p| p.map_or(-1, |x| x.0)).collect();
    let submit_due = |lp: &VLoop, now_ms: u64, submitted: &mut Vec<bool>| {
        for (i, (t, at)) in tasks.iter().enumerate() {
            if submitted[i] || *at > now_ms { continue; }
            submitted[i] = true;
            let t = t.clone();
            let log = fin.clone();
            let fds = fds.clone();
            lp.submit_task(Some(format!("sl{i}")), move |_| {
                let (h, rest) = t.split_at(1);
                match h {
                    "Z" => {
                        let ms: u64 = rest.parse().unwrap();
                        let ts = libc::timespec { tv_sec: (ms / 1000) as i64, tv_nsec: ((ms % 1000) * 1_000_000) as i64 };
                        let _ = open_coroutine_core::syscall::nanosleep(None, &ts, std::ptr::null_mut());
                    }
                    "V" => {
                        let ms: u64 = rest.split('x').nth(1).unwrap().parse().unwrap();
                        let mut b = [0u8; 4];
                        let _ = open_coroutine_core::syscall::recv(None, fds[i], b.as_mut_ptr().cast(), 4, 0);
                        let ts = libc::timespec { tv_sec: (ms / 1000) as i64, tv_nsec: ((ms % 1000) * 1_000_000) as i64 };
                        let _ = open_coroutine_core::syscall::nanosleep(None, &ts, std::ptr::null_mut());
                    }
                    "Y" => { for _ in 0..rest.parse::<u64>().unwrap() { if let Some(s) = SchedulableSuspender::current() { s.suspend(); } } }
                    _ => {}
                }
                log.borrow_mut()[i] = Some((open_coroutine_core::common::now() - t0) / 1_000_000);
                Some(i)
            }, None, None).expect("submit");
        }
    };
    let mut now_ms = 0u64;
    for _ in 0..400 {
        submit_due(&lp, now_ms, &mut submitted);
        for p in peers.iter_mut().flatten() {
            if !p.3 && p.2 <= now_ms { p.3 = true; let b = [7u8]; unsafe { libc::write(p.1, b.as_ptr().cast(), 1); } }
        }
        let _ = lp.turn(Duration::from_nanos(1000));
        if fin.borrow().iter().all(|x| x.is_some()) { break; }
        let _ = verif::advance_virtual_now(step * 1_000_000);
        now_ms += step;
    }
    let s = fin.borrow().iter().enumerate().map(|(i, x)| match x { Some(ms) => format!("{i}:{ms}"), None => format!("{i}:-") }).collect::<Vec<_>>().join(",");
    emit(&format!("fin={s} run={}", lp.running_size()));
}
