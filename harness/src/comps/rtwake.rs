//! C20 on the wall clock: a coroutine waiting for readability (one long `wait_read_event`, as the hooked calls make it) on a started event loop is woken promptly when its
//! descriptor becomes readable — also while another coroutine of the loop keeps the ready queue busy (it yields in
//! a loop for `busy` ms, so every turn of the loop thread uses up its whole slice) and with pools that keep idle workers.
//! body: `<busy ms> <write after ms> <keep_alive ms> <min_size>`
//! out : `got=<bytes the recv returned|-> late=<0|1>`  late = woken more than 1200 ms after the byte was written
use crate::rng::Rng;
use open_coroutine_core::common::constants::DEFAULT_STACK_SIZE;
use open_coroutine_core::config::Config;
use open_coroutine_core::net::EventLoops;
use open_coroutine_core::scheduler::SchedulableSuspender;
use std::sync::atomic::{AtomicI64, AtomicU64, Ordering};
use std::time::{Duration, Instant};

pub fn gen(r: &mut Rng, _thorough: bool) -> String {
    let busy = *r.pick(&[0u64, 0, 300, 2500, 3000]);
    let after = *r.pick(&[20u64, 60, 150]);
    let keep = *r.pick(&[0u64, 0, 3000]);
    let min = *r.pick(&[0u64, 0, 1]);
    format!("{busy} {after} {keep} {min}")
}

static GOT: AtomicI64 = AtomicI64::new(-100);
static WOKEN_MS: AtomicU64 = AtomicU64::new(0);

pub fn exec(body: &str, emit: &mut dyn FnMut(&str)) {
    std::panic::set_hook(Box::new(|_| {}));
    let w: Vec<u64> = body.split_whitespace().filter_map(|x| x.parse().ok()).collect();
    if w.len() != 4 { emit("BADCASE"); return; }
    let (busy, after, keep, min) = (w[0], w[1], w[2], w[3]);
    let cfg = Config::new(1, DEFAULT_STACK_SIZE, min as usize, 16, keep * 1_000_000, 0, 0, false);
    EventLoops::init(&cfg);
    let mut sv = [0i32; 2];
    if unsafe { libc::socketpair(libc::AF_UNIX, libc::SOCK_STREAM, 0, sv.as_mut_ptr()) } != 0 { emit("NOSOCK"); return; }
    let start = Instant::now();
    let fd = sv[0];
    let h = EventLoops::submit_task(None, move |_| {
        let mut b = [0u8; 8];
        // one long wait for readability, as a hooked call makes it (the hooked recv itself re-tries every 10 ms and
        // would hide a lost wake-up): Syscall state, wait_read_event, then the plain read
        if let Some(co) = open_coroutine_core::scheduler::SchedulableCoroutine::current() {
            let _ = co.syscall((), open_coroutine_core::common::constants::SyscallName::recv, open_coroutine_core::common::constants::SyscallState::Executing);
        }
        let _ = EventLoops::wait_read_event(fd, Some(Duration::from_millis(3000)));
        if let Some(co) = open_coroutine_core::scheduler::SchedulableCoroutine::current() { let _ = co.running(); }
        let r = unsafe { libc::recv(fd, b.as_mut_ptr().cast(), 8, libc::MSG_DONTWAIT) };
        WOKEN_MS.store(start.elapsed().as_millis() as u64, Ordering::SeqCst);
        GOT.store(r as i64, Ordering::SeqCst);
        Some(0)
    }, None, None);
    std::mem::forget(h);
    if busy > 0 {
        let h = EventLoops::submit_task(None, move |_| {
            while start.elapsed() < Duration::from_millis(busy) {
                if let Some(s) = SchedulableSuspender::current() { s.suspend(); }
            }
            Some(0)
        }, None, None);
        std::mem::forget(h);
    }
    std::thread::sleep(Duration::from_millis(after));
    let wrote_at = start.elapsed().as_millis() as u64;
    let one = [7u8; 3];
    unsafe { libc::write(sv[1], one.as_ptr().cast(), 3); }
    while GOT.load(Ordering::SeqCst) == -100 && start.elapsed() < Duration::from_millis(after + 3500) { std::thread::sleep(Duration::from_millis(5)); }
    let got = GOT.load(Ordering::SeqCst);
    let late = got == -100 || WOKEN_MS.load(Ordering::SeqCst) > wrote_at + 1200;
    emit(&format!("got={} late={}", if got == -100 { "-".to_string() } else { got.to_string() }, if late { 1 } else { 0 }));
}
