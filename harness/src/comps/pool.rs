//! C11/C12/C13 (+ the pool clause of C05): one real CoroutinePool on the harness thread, virtual clock,
//! min_size = 0, keep_alive_time = 0 (a worker exits as soon as it finds no task).
//! body: `max <n> ; op | op | …`
//! ops: sub <prog> <prio> | pass | adv <ns> | cancel <k> | stop | wait <k> | max <n> | co | nowait <k> | settle
//!   task prog steps: S | D<ns> | P | R<v> | C (the running task's coroutine is cancelled) | N (the task submits a
//!   further task `R77` to its own pool; pass/stop lines then carry ` nest=<task>:<ok|rej>,…`)
//!   co = a user coroutine through submit_co; nowait = clean_task_result (a dropped join handle);
//!   settle = marker: everything has had time to finish, the waits that follow must be settled
//! outs: every op ends with ` run=<running> st=<R|S|X>`;
//!   sub → `ok|rejected` ; pass → `started=<k.k> [err]` ; stop → `ok|err` ; wait → `Ok(v)|Err(m)|timeout|failed`
use crate::rng::Rng;
use open_coroutine_core::co_pool::CoroutinePool;
use open_coroutine_core::common::constants::PoolState;
use open_coroutine_core::scheduler::SchedulableSuspender;
use open_coroutine_core::verif;
use std::cell::RefCell;
use std::rc::Rc;
use std::time::Duration;

pub fn gen(r: &mut Rng, thorough: bool) -> String {
    let max = *r.pick(&[0u64, 1, 1, 2, 3, 8]);
    let n = if thorough { r.range(4, 40) } else { r.range(3, 18) };
    let mut ops = Vec::new();
    let mut nsub = 0u64;
    let mut uniq = 0u64;
    for _ in 0..n {
        match r.below(17) {
            0..=4 => {
                let k = r.range(0, 3);
                let mut steps: Vec<String> = Vec::new();
                for _ in 0..k { uniq += 1; steps.push(match r.below(3) { 0 => "S".into(), _ => format!("D{}", 1000 * r.range(1, 50) + uniq) }); }
                if r.chance(1, 5) { let at = r.below(steps.len() as u64 + 1) as usize; steps.insert(at, "N".into()); }
                steps.push(match r.below(9) { 0 => "P".into(), 1 => "C".into(), _ => format!("R{}", r.range(1, 90)) });
                ops.push(format!("sub {} {}", steps.join(","), r.pick(&[0i64, 0, 0, 1, -1, 7, i64::MIN, i64::MAX])));
                nsub += 1;
            }
            5..=7 => ops.push("pass".into()),
            8 => ops.push(format!("adv {}", r.pick(&[1u64, 700, 30_000, 1_000_000]))),
            9 => if nsub > 0 { ops.push(format!("cancel {}", r.below(nsub))); },
            10 => if nsub > 0 { ops.push(format!("wait {}", r.below(nsub))); },
            11 => ops.push("stop".into()),
            12 => ops.push(format!("max {}", r.range(0, 4))),
            14 => ops.push("co".into()),
            15 => if nsub > 0 { ops.push(format!("nowait {}", r.below(nsub))); },
            16 => if nsub > 0 { let k = r.below(nsub); ops.push(format!("nowait {k}")); ops.push("pass".into()); ops.push(format!("cancel {k}")); },
            _ => ops.push("pass".into()),
        }
    }
    // wind down: let everything finish, stop, stop again
    if max == 0 && r.chance(1, 2) { ops.push("max 2".into()); }
    for _ in 0..4 { ops.push("adv 100000000".into()); ops.push("pass".into()); }
    ops.push("settle".into());
    for k in 0..nsub.min(6) { ops.push(format!("wait {k}")); }
    ops.push("stop".into()); ops.push("pass".into()); ops.push("stop".into());
    format!("max {max} ; {}", ops.join(" | "))
}

fn show_nest(log: &Rc<RefCell<Vec<(usize, bool)>>>) -> String {
    let v: Vec<(usize, bool)> = log.borrow_mut().drain(..).collect();
    if v.is_empty() { String::new() } else { format!(" nest={}", v.iter().map(|(t, ok)| format!("{t}:{}", if *ok { "ok" } else { "rej" })).collect::<Vec<_>>().join(",")) }
}

pub fn exec(body: &str, emit: &mut dyn FnMut(&str)) {
    std::panic::set_hook(Box::new(|_| {}));
    let (cfg, ops) = match body.split_once(" ; ") { Some(x) => x, None => { emit("BADCASE"); return; } };
    let max: usize = cfg.split_whitespace().nth(1).and_then(|x| x.parse().ok()).unwrap_or(1);
    verif::set_virtual_now(1000);
    let pool: &'static mut CoroutinePool<'static> = Box::leak(Box::new(CoroutinePool::new("verif-pool".into(), 128 * 1024, 0, max, 0)));
    let started: Rc<RefCell<Vec<usize>>> = Default::default();
    let ids: Rc<RefCell<Vec<u64>>> = Default::default();
    let nestlog: Rc<RefCell<Vec<(usize, bool)>>> = Default::default();
    let addr = pool as *const CoroutinePool<'static> as usize;
    for op in ops.split(" | ") {
        let t: Vec<&str> = op.split_whitespace().collect();
        let out = match t.as_slice() {
            ["sub", prog, prio] => {
                let k = ids.borrow().len();
                let steps: Vec<String> = prog.split(',').map(String::from).collect();
                let log = started.clone();
                let prio: i64 = prio.parse().unwrap();
                let (ids2, nestlog2) = (ids.clone(), nestlog.clone());
                let r = pool.submit_task(Some(format!("pt{k}")), move |_| {
                    log.borrow_mut().push(k);
                    for st in steps {
                        let (h, rest) = st.split_at(1);
                        match h {
                            "S" => { if let Some(s) = SchedulableSuspender::current() { s.suspend(); } }
                            "D" => { if let Some(s) = SchedulableSuspender::current() { s.delay(Duration::from_nanos(rest.parse().unwrap())); } }
                            "P" => panic!("boom"),
                            "C" => { if let Some(s) = SchedulableSuspender::current() { s.cancel(); } }
                            "N" => {
                                // a task of this pool submits to its own pool (the id is the next free index, accepted or not)
                                let p: &CoroutinePool<'static> = unsafe { &*(addr as *const CoroutinePool<'static>) };
                                let k2 = ids2.borrow().len();
                                let log2 = log.clone();
                                match p.submit_task(Some(format!("pt{k2}")), move |_| { log2.borrow_mut().push(k2); Some(77) }, None, Some(0)) {
                                    Ok(id) => { ids2.borrow_mut().push(id); nestlog2.borrow_mut().push((k, true)); }
                                    Err(_) => { ids2.borrow_mut().push(0); nestlog2.borrow_mut().push((k, false)); }
                                }
                            }
                            "R" => return Some(rest.parse().unwrap()),
                            _ => {}
                        }
                    }
                    None
                }, None, Some(prio));
                match r { Ok(id) => { ids.borrow_mut().push(id); "ok".to_string() } Err(_) => { ids.borrow_mut().push(0); "rejected".to_string() } }
            }
            ["pass"] => {
                started.borrow_mut().clear();
                let r = pool.try_schedule_task();
                format!("started={}{}{}", started.borrow().iter().map(|x| x.to_string()).collect::<Vec<_>>().join("."), if r.is_err() { " err" } else { "" }, show_nest(&nestlog))
            }
            ["adv", d] => { let _ = verif::advance_virtual_now(d.parse().unwrap()); "-".into() }
            ["cancel", k] => { let k: usize = k.parse().unwrap(); let id = ids.borrow().get(k).copied().unwrap_or(0); if id != 0 { CoroutinePool::try_cancel_task(id); } "-".into() }
            ["stop"] => { let r = pool.stop(Duration::ZERO).is_ok(); format!("{}{}", if r { "ok" } else { "err" }, show_nest(&nestlog)) }
            ["max", n] => { pool.set_max_size(n.parse().unwrap()); "-".into() }
            ["co"] => { if pool.submit_co(|_, ()| Some(1), None, None).is_ok() { "ok".into() } else { "rejected".into() } }
            ["nowait", k] => { let k: usize = k.parse().unwrap(); let id = ids.borrow().get(k).copied().unwrap_or(0); if id != 0 { pool.clean_task_result(id); } "-".into() }
            ["settle"] => "-".into(),
            ["wait", k] => {
                let k: usize = k.parse().unwrap();
                let id = ids.borrow().get(k).copied().unwrap_or(0);
                if id == 0 { "-".to_string() } else {
                    match pool.wait_task_result(id, Duration::from_millis(15)) {
                        Ok(Ok(Some(v))) => format!("Ok({v})"),
                        Ok(Ok(None)) => "Ok(none)".into(),
                        Ok(Err(m)) => format!("Err({})", m.replace(' ', "_")),
                        Err(e) if e.kind() == std::io::ErrorKind::TimedOut => "timeout".into(),
                        Err(_) => "failed".into(),
                    }
                }
            }
            _ => "BADOP".into(),
        };
        let st = match pool.state() { PoolState::Running => "R", PoolState::Stopping => "S", PoolState::Stopped => "X" };
        emit(&format!("{out} run={} st={st}", pool.get_running_size()));
    }
}
