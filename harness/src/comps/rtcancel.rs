//! C13 on a started runtime: a task is cancelled *while it is in progress* (the signal path of `try_cancel_task`);
//! the other tasks of the runtime must all finish with their own values.
//! body: `<loops> <n tasks> <spin|yield|sleep> <victim> <cancel after ms>`
//!   every task works for 300 ms: `spin` = busy loop without yielding, `yield` = 200 µs of work, then a plain yield,
//!   `sleep` = three hooked 100 ms sleeps (the task is parked in a timer when the cancel arrives)
//! out : `others=<finished with their own value>/<n-1> victim=<done|cancelled> foreign=<other tasks that never finished> vjoin=<what a 1.5 s join of the cancelled task returns: cancelled|value|timeout|->`
use crate::rng::Rng;
use open_coroutine_core::config::Config;
use open_coroutine_core::net::EventLoops;
use open_coroutine_core::scheduler::SchedulableSuspender;
use std::sync::atomic::{AtomicU64, Ordering};
use std::time::{Duration, Instant};

pub fn gen(r: &mut Rng, _thorough: bool) -> String {
    let loops = *r.pick(&[1u64, 1, 2]);
    let n = r.range(2, 6);
    let work = *r.pick(&["yield", "yield", "spin", "sleep", "sleep"]);
    format!("{loops} {n} {work} {} {}", r.below(n), *r.pick(&[20u64, 60, 120]))
}

static DONE_MASK: AtomicU64 = AtomicU64::new(0);

pub fn exec(body: &str, emit: &mut dyn FnMut(&str)) {
    std::panic::set_hook(Box::new(|_| {}));
    let w: Vec<&str> = body.split_whitespace().collect();
    if w.len() != 5 { emit("BADCASE"); return; }
    let (loops, n, victim, after): (usize, usize, usize, u64) = (w[0].parse().unwrap_or(1), w[1].parse().unwrap_or(2), w[3].parse().unwrap_or(0), w[4].parse().unwrap_or(50));
    let spin = w[2] == "spin";
    let sleepy = w[2] == "sleep";
    let mut cfg = Config::single();
    _ = cfg.set_event_loop_size(loops).set_hook(false).set_max_size(64);
    EventLoops::init(&cfg);
    let start = Instant::now();
    let mut handles = Vec::new();
    for i in 0..n {
        let h = EventLoops::submit_task(None, move |_| {
            let t = Instant::now();
            if sleepy {
                for _ in 0..3 {
                    let ts = libc::timespec { tv_sec: 0, tv_nsec: 100_000_000 };
                    _ = open_coroutine_core::syscall::nanosleep(None, &ts, std::ptr::null_mut());
                }
            }
            while !sleepy && t.elapsed() < Duration::from_millis(300) {
                let s = Instant::now();
                while s.elapsed() < Duration::from_micros(200) { std::hint::spin_loop(); }
                if !spin { if let Some(sus) = SchedulableSuspender::current() { sus.suspend(); } }
            }
            DONE_MASK.fetch_or(1 << i, Ordering::SeqCst);
            Some(1000 + i)
        }, None, None);
        handles.push(h);
    }
    std::thread::sleep(Duration::from_millis(after));
    if let Ok(id) = handles[victim].id() { EventLoops::try_cancel_task(id); }
    // everybody else has 300 ms of work (times n on one loop when they spin): wait generously
    let budget = Duration::from_millis(300 * n as u64 + 2500);
    let all_others: u64 = (0..n).filter(|&i| i != victim).map(|i| 1u64 << i).sum();
    while DONE_MASK.load(Ordering::SeqCst) & all_others != all_others && start.elapsed() < budget { std::thread::sleep(Duration::from_millis(5)); }
    std::thread::sleep(Duration::from_millis(30));
    let mask = DONE_MASK.load(Ordering::SeqCst);
    let mut own = 0;
    for i in 0..n {
        if i == victim || mask & (1 << i) == 0 { continue; }
        if let Ok(Ok(Some(v))) = handles[i].timeout_join(Duration::from_millis(500)) { if v == 1000 + i { own += 1; } }
    }
    let foreign = (0..n).filter(|&i| i != victim && mask & (1 << i) == 0).count();
    let vdone = mask & (1 << victim) != 0;
    let vjoin = if vdone { "-".to_string() } else {
        match handles[victim].timeout_join(Duration::from_millis(1500)) {
            Ok(Err(m)) if m.contains("cancel") => "cancelled".to_string(),
            Ok(Err(_)) => "error".to_string(),
            Ok(Ok(_)) => "value".to_string(),
            Err(e) if e.kind() == std::io::ErrorKind::TimedOut => "timeout".to_string(),
            Err(_) => "failed".to_string(),
        }
    };
    emit(&format!("others={own}/{} victim={} foreign={foreign} vjoin={vjoin}", n - 1, if vdone { "done" } else { "cancelled" }));
    for h in handles { std::mem::forget(h); }
}
