//! C03–C06: the ordered (`oq`) and plain (`pq`) work-steal queues, sequential op histories.
//! body:  `cfg <nlocals> <cap> ; op | op | …`   (a final `drain` is appended by the generator)
//! ops :  gpush <prio> | gpop | lpush <i> <prio> | lpop <i> | obs | gcheck | drain
//! item ids are the 0-based index of the push op inside the case.
use crate::rng::Rng;
use open_coroutine_core::common::ordered_work_steal::OrderedWorkStealQueue;
use open_coroutine_core::common::work_steal::WorkStealQueue;

fn prio(r: &mut Rng, mode: u64) -> i64 {
    match mode {
        0 => 0,
        1 => r.below(3) as i64 - 1,
        2 => *r.pick(&[i64::MIN, -1, 0, 1, i64::MAX]),
        3 => r.below(6) as i64,
        _ => (r.next() as i64) >> r.below(63),
    }
}

pub fn gen_common(r: &mut Rng, thorough: bool, ordered: bool) -> String {
    let n = r.range(1, 4);
    let big = r.chance(1, 8);
    let cap = if big { *r.pick(&[64u64, 128]) } else { *r.pick(&[0u64, 1, 2, 3, 4, 4, 5, 8, 16]) };
    let pmode = if ordered { r.below(5) } else { 0 };
    let len = if thorough { r.range(10, 400) } else { r.range(5, 90) };
    let mut ops: Vec<String> = Vec::new();
    let lp = |r: &mut Rng, i: u64| if ordered { format!("lpush {} {}", i, prio(r, pmode)) } else { format!("lpush {i}") };
    let gp = |r: &mut Rng| if ordered { format!("gpush {}", prio(r, pmode)) } else { "gpush".to_string() };
    while (ops.len() as u64) < len {
        match r.below(14) {
            0..=3 => { let i = r.below(n); ops.push(lp(r, i)); }
            4..=6 => { let i = r.below(n); ops.push(format!("lpop {i}")); }
            7 => ops.push(gp(r)),
            8 => ops.push("gpop".into()),
            9 => ops.push("obs".into()),
            10 => {
                // fill a local up to (and beyond) its capacity
                let i = r.below(n);
                let k = cap + r.below(4);
                for _ in 0..k.min(140) { ops.push(lp(r, i)); }
            }
            11 => {
                // let a sibling drain by stealing, then push on the victim again
                let i = r.below(n);
                let j = r.below(n);
                let k = r.range(1, cap.min(20) + 3);
                for _ in 0..k { ops.push(format!("lpop {j}")); }
                ops.push(lp(r, i));
            }
            12 => {
                // keep popping one local for a long time while something waits in the shared queue
                ops.push(gp(r));
                let i = r.below(n);
                let k = if big { r.range(50, 130) } else { r.range(1, 12) };
                for _ in 0..k { ops.push(format!("lpop {i}")); }
            }
            _ => ops.push("gcheck".into()),
        }
    }
    ops.push("drain".into());
    format!("cfg {n} {cap} ; {}", ops.join(" | "))
}

pub fn gen_oq(r: &mut Rng, thorough: bool) -> String { gen_common(r, thorough, true) }
pub fn gen_pq(r: &mut Rng, thorough: bool) -> String { gen_common(r, thorough, false) }

fn parse_cfg(body: &str) -> Option<(usize, usize, Vec<&str>)> {
    let (cfg, ops) = body.split_once(" ; ")?;
    let t: Vec<&str> = cfg.split_whitespace().collect();
    if t.len() != 3 || t[0] != "cfg" { return None; }
    Some((t[1].parse().ok()?, t[2].parse().ok()?, ops.split(" | ").collect()))
}

fn show(o: Option<usize>) -> String { o.map_or("none".to_string(), |v| v.to_string()) }

pub fn exec_oq(body: &str, emit: &mut dyn FnMut(&str)) {
    let Some((n, cap, ops)) = parse_cfg(body) else { emit("BADCASE"); return; };
    if n == 0 { emit("BADCASE"); return; }
    let q: &'static OrderedWorkStealQueue<usize> = Box::leak(Box::new(OrderedWorkStealQueue::new(n, cap)));
    let locals: Vec<_> = (0..n).map(|_| Box::leak(Box::new(q.local_queue()))).collect();
    let mut next = 0usize;
    let mut prios: Vec<i64> = Vec::new();
    for op in ops {
        let t: Vec<&str> = op.split_whitespace().collect();
        let out = match t.as_slice() {
            ["gpush", p] => { let p: i64 = p.parse().unwrap(); q.push_with_priority(p, next); prios.push(p); next += 1; "-".to_string() }
            ["gpop"] => show(q.pop()),
            ["lpush", i, p] => {
                let (i, p): (usize, i64) = (i.parse().unwrap(), p.parse().unwrap());
                if i >= n { "BADOP".to_string() } else { locals[i].push_with_priority(p, next); prios.push(p); next += 1; "-".to_string() }
            }
            ["lpop", i] => { let i: usize = i.parse().unwrap(); if i >= n { "BADOP".to_string() } else { show(locals[i].pop()) } }
            ["obs"] => format!("g={} l={} all={} full={}", q.len(),
                locals.iter().map(|l| l.local_len().to_string()).collect::<Vec<_>>().join(","),
                locals[0].len(),
                locals.iter().map(|l| if l.is_local_full() { "1" } else { "0" }).collect::<Vec<_>>().join("")),
            ["gcheck"] => {
                let l = q.len();
                let mut held = Vec::new();
                while let Some(x) = q.pop() { held.push(x); }
                for &x in &held { q.push_with_priority(prios[x], x); }
                format!("len={} held={}", l, held.len())
            }
            ["drain"] => {
                let mut toks: Vec<String> = Vec::new();
                for l in &locals {
                    loop { let r = l.pop(); toks.push(show(r)); if r.is_none() { break; } }
                }
                loop { let r = q.pop(); toks.push(show(r)); if r.is_none() { break; } }
                format!("drained {}", toks.join(" "))
            }
            _ => "BADOP".to_string(),
        };
        emit(&out);
    }
}

pub fn exec_pq(body: &str, emit: &mut dyn FnMut(&str)) {
    let Some((n, cap, ops)) = parse_cfg(body) else { emit("BADCASE"); return; };
    if n == 0 { emit("BADCASE"); return; }
    let q: &'static WorkStealQueue<usize> = Box::leak(Box::new(WorkStealQueue::new(n, cap)));
    let locals: Vec<_> = (0..n).map(|_| Box::leak(Box::new(q.local_queue()))).collect();
    let mut next = 0usize;
    for op in ops {
        let t: Vec<&str> = op.split_whitespace().collect();
        let out = match t.as_slice() {
            ["gpush"] => { q.push(next); next += 1; "-".to_string() }
            ["gpop"] => show(q.pop()),
            ["lpush", i] => {
                let i: usize = i.parse().unwrap();
                if i >= n { "BADOP".to_string() } else { locals[i].push(next); next += 1; "-".to_string() }
            }
            ["lpop", i] => { let i: usize = i.parse().unwrap(); if i >= n { "BADOP".to_string() } else { show(locals[i].pop()) } }
            ["obs"] => format!("g={} l={} full={}", q.len(),
                locals.iter().map(|l| l.len().to_string()).collect::<Vec<_>>().join(","),
                locals.iter().map(|l| if l.is_full() { "1" } else { "0" }).collect::<Vec<_>>().join("")),
            ["gcheck"] => {
                let l = q.len();
                let mut held = Vec::new();
                while let Some(x) = q.pop() { held.push(x); }
                for &x in &held { q.push(x); }
                format!("len={} held={}", l, held.len())
            }
            ["drain"] => {
                let mut toks: Vec<String> = Vec::new();
                for l in &locals {
                    loop { let r = l.pop(); toks.push(show(r)); if r.is_none() { break; } }
                }
                loop { let r = q.pop(); toks.push(show(r)); if r.is_none() { break; } }
                format!("drained {}", toks.join(" "))
            }
            _ => "BADOP".to_string(),
        };
        emit(&out);
    }
}
