//! C01: the real runtime (`EventLoops` with n loop threads) and concurrent submitter threads.
//! body: `<loops> <threads> <per_thread> <prio-mode> <work>`  prio-mode: none | same | mixed ; work: ret | yield | sleep (a hooked 1-3 ms nanosleep) | panic-some
//! out : `once=<n> lost=<n> dup=<n> unfinished=<n> early=<n>` (tasks that ran exactly once / never within the budget / more than once;
//!       tasks that should have returned but had not when the budget ended; hooked sleeps that returned before their time)
use crate::rng::Rng;
use open_coroutine_core::config::Config;
use open_coroutine_core::net::EventLoops;
use std::sync::atomic::{AtomicU32, Ordering};
use std::sync::{Arc, Barrier};
use std::time::{Duration, Instant};

pub fn gen(r: &mut Rng, thorough: bool) -> String {
    let loops = *r.pick(&[1u64, 1, 2, 3, 4]);
    let threads = r.range(1, if thorough { 8 } else { 6 });
    let per = if thorough { r.range(50, 3000) } else { r.range(20, 600) };
    let prio = *r.pick(&["none", "same", "mixed", "mixed"]);
    let work = *r.pick(&["ret", "ret", "yield", "sleep", "panic-some"]);
    format!("{loops} {threads} {per} {prio} {work}")
}

static FIN: AtomicU32 = AtomicU32::new(0);
static EARLY: AtomicU32 = AtomicU32::new(0);

pub fn exec(body: &str, emit: &mut dyn FnMut(&str)) {
    std::panic::set_hook(Box::new(|_| {}));
    let w: Vec<&str> = body.split_whitespace().collect();
    if w.len() != 5 { emit("BADCASE"); return; }
    let loops: usize = w[0].parse().unwrap_or(1);
    let threads: usize = w[1].parse().unwrap_or(1);
    let per: usize = w[2].parse().unwrap_or(1);
    let prio = w[3].to_string();
    let work = w[4].to_string();
    let mut cfg = Config::single();
    _ = cfg.set_event_loop_size(loops).set_hook(false).set_max_size(256);
    EventLoops::init(&cfg);
    let total = threads * per;
    let counts: &'static Vec<AtomicU32> = Box::leak(Box::new((0..total).map(|_| AtomicU32::new(0)).collect()));
    let barrier = Arc::new(Barrier::new(threads));
    let mut hs = Vec::new();
    for t in 0..threads {
        let barrier = barrier.clone();
        let prio = prio.clone();
        let work = work.clone();
        hs.push(std::thread::spawn(move || {
            _ = barrier.wait();
            for k in 0..per {
                let idx = t * per + k;
                let p = match prio.as_str() { "none" => None, "same" => Some(0), _ => Some(((idx * 7919) % 5) as i64 - 2) };
                let work = work.clone();
                let h = EventLoops::submit_task(None, move |_| {
                    _ = counts[idx].fetch_add(1, Ordering::SeqCst);
                    match work.as_str() {
                        "yield" => { if let Some(s) = open_coroutine_core::coroutine::suspender::Suspender::<(), ()>::current() { s.suspend(); } }
                        "sleep" => {
                            // a hooked sleep of 1-3 ms: the task parks in its loop's timer and may be resumed by another loop
                            let ms = 1 + (idx % 3) as u64;
                            let ts = libc::timespec { tv_sec: 0, tv_nsec: 1_000_000 * ms as i64 };
                            let t = Instant::now();
                            _ = open_coroutine_core::syscall::nanosleep(None, &ts, std::ptr::null_mut());
                            // its own wake-up time, nobody else's: never back before the requested time
                            if t.elapsed() < Duration::from_millis(ms) { _ = EARLY.fetch_add(1, Ordering::SeqCst); }
                        }
                        "panic-some" => { if idx % 7 == 3 { panic!("boom") } }
                        _ => {}
                    }
                    _ = FIN.fetch_add(1, Ordering::SeqCst);
                    Some(idx)
                }, None, p);
                std::mem::forget(h);
            }
        }));
    }
    for h in hs { _ = h.join(); }
    // wait until every task has run (budget 4 s), then a little longer to see duplicates
    let t0 = Instant::now();
    let expect_fin = if work == "panic-some" { (0..total).filter(|i| i % 7 != 3).count() } else { total } as u32;
    while t0.elapsed() < Duration::from_millis(4000) && (counts.iter().any(|c| c.load(Ordering::SeqCst) == 0) || FIN.load(Ordering::SeqCst) < expect_fin) {
        std::thread::sleep(Duration::from_millis(5));
    }
    std::thread::sleep(Duration::from_millis(60));
    let (mut once, mut lost, mut dup) = (0, 0, 0);
    for c in counts.iter() { match c.load(Ordering::SeqCst) { 0 => lost += 1, 1 => once += 1, _ => dup += 1 } }
    emit(&format!("once={once} lost={lost} dup={dup} unfinished={} early={}", expect_fin.saturating_sub(FIN.load(Ordering::SeqCst)), EARLY.load(Ordering::SeqCst)));
}
