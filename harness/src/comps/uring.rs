//! C27 (build with `--features uring`): hooked calls that go through io_uring on the real event loops.
//! body: `<loops> <coroutines> <threads> <per> <mix>`   mix: ok | err | mixed | sock
//!   sock: each caller owns a TCP loopback connection: hooked send of its own pattern, then hooked recv into a
//!   4-byte buffer (data stays queued), then recv of the rest
//!   every caller (task coroutine or plain thread) makes `per` hooked calls, each with its own data:
//!   write(fd_k, pattern_k) to its own pipe then read it back / or an erroneous call (bad fd, expecting -1 EBADF)
//! out: `ok=<calls whose result was their own> wrong=<n> lost=<callers that never finished> errs=<error calls answered -1/EBADF>`
use crate::rng::Rng;
use open_coroutine_core::config::Config;
use open_coroutine_core::net::EventLoops;
use std::sync::atomic::{AtomicU64, Ordering};
use std::time::{Duration, Instant};

pub fn gen(r: &mut Rng, thorough: bool) -> String {
    // any number of loops (coroutine callers migrate between the loop threads), coroutine callers and plain threads
    let loops = *r.pick(&[1u64, 1, 2, 2, 3, 4]);
    let cos = r.range(0, 6);
    let threads = if cos == 0 { r.range(1, 4) } else { *r.pick(&[0u64, 0, 0, 1, 2, 3]) };
    let per = if thorough { r.range(20, 200) } else { r.range(5, 60) };
    let mix = *r.pick(&["ok", "err", "mixed", "mixed", "ok+gap", "sock", "sock"]);
    let per = if mix.ends_with("+gap") { per.min(8) } else { per };
    format!("{loops} {cos} {threads} {per} {mix}")
}

static OK: AtomicU64 = AtomicU64::new(0);
static WRONG: AtomicU64 = AtomicU64::new(0);
static ERRS: AtomicU64 = AtomicU64::new(0);
static DONE: AtomicU64 = AtomicU64::new(0);

/// errno of the thread this coroutine is on *now*: the caller's frame migrates between loop threads, so the
/// thread-local's address must not be one the compiler computed before a hooked call (std marks its
/// `errno_location` as a `const` function)
#[inline(never)]
fn errno_now() -> i32 { unsafe { *libc::__errno_location() } }

fn tcp_pair() -> (i32, i32) {
    use std::os::fd::IntoRawFd;
    let l = std::net::TcpListener::bind("127.0.0.1:0").expect("bind");
    let a = std::net::TcpStream::connect(l.local_addr().unwrap()).expect("connect");
    let (b, _) = l.accept().expect("accept");
    let _ = a.set_nodelay(true);
    (a.into_raw_fd(), b.into_raw_fd())
}

fn sock_caller(id: u64, per: u64) {
    let (a, b) = tcp_pair();
    for k in 0..per {
        let len = 5 + ((id * 7 + k) % 40) as usize;
        let pat: Vec<u8> = (0..len).map(|i| (id as u8).wrapping_mul(17).wrapping_add(k as u8).wrapping_add(i as u8)).collect();
        let w = open_coroutine_core::syscall::send(None, a, pat.as_ptr().cast(), len, 0);
        let mut got: Vec<u8> = Vec::new();
        let mut small = [0u8; 4];
        let r1 = open_coroutine_core::syscall::recv(None, b, small.as_mut_ptr().cast(), 4, 0);
        if r1 > 0 { got.extend_from_slice(&small[..r1 as usize]); }
        let mut guard = 0;
        while got.len() < len && guard < 20 {
            let mut rest = [0u8; 64];
            let r2 = open_coroutine_core::syscall::recv(None, b, rest.as_mut_ptr().cast(), 64, 0);
            if r2 <= 0 { break; }
            got.extend_from_slice(&rest[..r2 as usize]);
            guard += 1;
        }
        if w == len as isize && r1 == 4 && got == pat { OK.fetch_add(1, Ordering::SeqCst); } else { WRONG.fetch_add(1, Ordering::SeqCst); }
    }
    unsafe { libc::close(a); libc::close(b); }
    DONE.fetch_add(1, Ordering::SeqCst);
}

fn caller(id: u64, per: u64, mix: &str) {
    if mix == "sock" { return sock_caller(id, per); }
    let mut fds = [0i32; 2];
    unsafe { libc::pipe(fds.as_mut_ptr()); }
    for k in 0..per {
        if std::env::var_os("OCH_URING_DEBUG").is_some() {
            eprintln!("caller {id} iter {k}: tid={} thread={:?} co={} susp={} loop_pool={}", unsafe { libc::syscall(libc::SYS_gettid) }, std::thread::current().name(), open_coroutine_core::scheduler::SchedulableCoroutine::current().is_some(), open_coroutine_core::scheduler::SchedulableSuspender::current().is_some(), open_coroutine_core::co_pool::CoroutinePool::current().is_some());
        }
        let bad = match mix { "err" => true, "mixed" => (id + k) % 3 == 0, _ => false };
        if bad {
            // a descriptor that is not open: the completion carries -EBADF
            let b = [1u8; 4];
            let r = open_coroutine_core::syscall::write(None, 987_654, b.as_ptr().cast(), 4);
            let e = errno_now();
            if r == -1 && e == libc::EBADF { ERRS.fetch_add(1, Ordering::SeqCst); } else { WRONG.fetch_add(1, Ordering::SeqCst); eprintln!("WRONG err-call: caller {id} call {k}: r={r} errno={e}"); }
        } else {
            // own pattern, own length: another call's completion would show as a wrong count or wrong bytes
            let len = 1 + ((id * 7 + k) % 23) as usize;
            let pat: Vec<u8> = (0..len).map(|i| (id as u8).wrapping_mul(31).wrapping_add(k as u8).wrapping_add(i as u8)).collect();
            let w = open_coroutine_core::syscall::write(None, fds[1], pat.as_ptr().cast(), len);
            let mut back = vec![0u8; 64];
            let rd = open_coroutine_core::syscall::read(None, fds[0], back.as_mut_ptr().cast(), 64);
            if w == len as isize && rd == len as isize && back[..len] == pat[..] { OK.fetch_add(1, Ordering::SeqCst); } else { WRONG.fetch_add(1, Ordering::SeqCst); eprintln!("WRONG ok-call: caller {id} call {k}: len={len} w={w} rd={rd} errno={}", errno_now()); }
        }
    }
    unsafe { libc::close(fds[0]); libc::close(fds[1]); }
    DONE.fetch_add(1, Ordering::SeqCst);
}

pub fn exec(body: &str, emit: &mut dyn FnMut(&str)) {
    if std::env::var_os("OCH_PANIC_MSG").is_some() { std::panic::set_hook(Box::new(|i| eprintln!("PANIC: {i}"))); } else { std::panic::set_hook(Box::new(|_| {})); }
    let w: Vec<&str> = body.split_whitespace().collect();
    if w.len() != 5 { emit("BADCASE"); return; }
    let (loops, cos, threads, per): (usize, u64, u64, u64) = (w[0].parse().unwrap(), w[1].parse().unwrap(), w[2].parse().unwrap(), w[3].parse().unwrap());
    let mix = w[4].to_string();
    // `…+gap`: the caller dawdles between registering its result slot and handing the request to the kernel
    let (mix, gap) = match mix.strip_suffix("+gap") { Some(m) => (m.to_string(), true), None => (mix, false) };
    if gap { open_coroutine_core::verif::set_pause_hook(Some(|l| { if l.starts_with("uring.") { std::thread::sleep(Duration::from_millis(25)); } })); }
    let mut cfg = Config::single();
    _ = cfg.set_event_loop_size(loops).set_hook(false);
    EventLoops::init(&cfg);
    for c in 0..cos {
        let mix = mix.clone();
        let h = EventLoops::submit_task(None, move |_| { caller(c, per, &mix); Some(0) }, None, None);
        std::mem::forget(h);
    }
    let hs: Vec<_> = (0..threads).map(|t| { let mix = mix.clone(); std::thread::spawn(move || caller(100 + t, per, &mix)) }).collect();
    let t0 = Instant::now();
    while DONE.load(Ordering::SeqCst) < cos + threads && t0.elapsed() < Duration::from_millis(6000 + 60 * per) { std::thread::sleep(Duration::from_millis(5)); }
    let _ = hs;
    if std::env::var_os("OCH_URING_HOLD").is_some() && DONE.load(Ordering::SeqCst) < cos + threads { eprintln!("HOLD pid={}", std::process::id()); std::thread::sleep(Duration::from_secs(40)); }
    emit(&format!("ok={} wrong={} lost={} errs={}", OK.load(Ordering::SeqCst), WRONG.load(Ordering::SeqCst), cos + threads - DONE.load(Ordering::SeqCst), ERRS.load(Ordering::SeqCst)));
}
