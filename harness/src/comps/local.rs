//! C25: coroutine-local storage. ops over coroutines 0..2 and keys 0..7 (names of different lengths and orders,
//! one a prefix of another, one empty):
//!   put <c> <k> | get <c> <k> | gms <c> <k> | rm <c> <k> | drop <c>      (value ids = index of the op)
//! outs: put → prev id|none ; get → id|none ; gms → ok|none ; rm → id|none ; drop → - ;
//!   a final `end` op (appended by the generator) drops every coroutine and prints `drops=<id:count,…>`
use crate::rng::Rng;
use open_coroutine_core::coroutine::suspender::Suspender;
use open_coroutine_core::coroutine::Coroutine;
use std::sync::atomic::{AtomicUsize, Ordering};
use std::sync::Arc;

pub fn gen(r: &mut Rng, thorough: bool) -> String {
    let n = if thorough { r.range(3, 60) } else { r.range(2, 20) };
    let mut ops = Vec::new();
    for _ in 0..n {
        // mostly few keys (collisions: overwrite, remove-then-get), sometimes many (storage with several live entries)
        let (c, k) = (r.below(3), if r.chance(1, 2) { r.below(2) } else { r.below(8) });
        ops.push(match r.below(10) {
            0..=3 => format!("put {c} {k}"),
            4..=5 => format!("get {c} {k}"),
            6 => format!("gms {c} {k}"),
            7..=8 => format!("rm {c} {k}"),
            _ => format!("drop {c}"),
        });
    }
    ops.push("end".into());
    ops.join(" | ")
}

struct Val { id: usize, drops: Arc<Vec<AtomicUsize>> }
impl Drop for Val { fn drop(&mut self) { self.drops[self.id].fetch_add(1, Ordering::SeqCst); } }

const KEYS: [&str; 8] = ["k0", "k1", "a", "zz", "k10", "B", "", "k2"];

pub fn exec(body: &str, emit: &mut dyn FnMut(&str)) {
    let ops: Vec<&str> = body.split(" | ").collect();
    let drops: Arc<Vec<AtomicUsize>> = Arc::new((0..ops.len() + 1).map(|_| AtomicUsize::new(0)).collect());
    let mut cos: Vec<Option<Coroutine<'static, (), (), ()>>> = (0..3)
        .map(|i| Some(Coroutine::new(Some(format!("l{i}")), |_: &Suspender<(), ()>, ()| {}, None, None).expect("co")))
        .collect();
    let mut created = Vec::new();
    for (i, op) in ops.iter().enumerate() {
        let t: Vec<&str> = op.split_whitespace().collect();
        let mk = |created: &mut Vec<usize>| { created.push(i); Val { id: i, drops: drops.clone() } };
        let out = match t.as_slice() {
            ["put", c, k] => {
                let (c, k): (usize, usize) = (c.parse().unwrap(), k.parse().unwrap());
                match &cos[c] {
                    None => "dead".to_string(),
                    Some(co) => co.put(KEYS[k], mk(&mut created)).map_or("none".to_string(), |v| v.id.to_string()),
                }
            }
            ["get", c, k] => {
                let (c, k): (usize, usize) = (c.parse().unwrap(), k.parse().unwrap());
                match &cos[c] { None => "dead".to_string(), Some(co) => co.get::<Val>(KEYS[k]).map_or("none".to_string(), |v| v.id.to_string()) }
            }
            ["gms", c, k] => {
                let (c, k): (usize, usize) = (c.parse().unwrap(), k.parse().unwrap());
                match &cos[c] {
                    None => "dead".to_string(),
                    Some(co) => { let v = mk(&mut created); match co.get_mut::<Val>(KEYS[k]) { Some(slot) => { *slot = v; "ok".to_string() } None => "none".to_string() } }
                }
            }
            ["rm", c, k] => {
                let (c, k): (usize, usize) = (c.parse().unwrap(), k.parse().unwrap());
                match &cos[c] { None => "dead".to_string(), Some(co) => co.remove::<Val>(KEYS[k]).map_or("none".to_string(), |v| v.id.to_string()) }
            }
            ["drop", c] => { let c: usize = c.parse().unwrap(); cos[c] = None; "-".to_string() }
            ["end"] => {
                for c in cos.iter_mut() { *c = None; }
                format!("drops={}", created.iter().map(|&id| format!("{}:{}", id, drops[id].load(Ordering::SeqCst))).collect::<Vec<_>>().join(","))
            }
            _ => "BADOP".to_string(),
        };
        emit(&out);
    }
}
