//! C12 on a started runtime: `EventLoops::stop(budget)` with tasks accepted before it.
//! body: `<loops> <n tasks> <ret|yield|sleep> <budget ms>`   sleep = a hooked 60 ms sleep, yield = 5 plain yields
//! out : `stop=<ok|timeout> ran=<tasks that finished by the time stop returned>/<n> after=<rejected|accepted>`
//!   after = a submission made once stop has returned
use crate::rng::Rng;
use open_coroutine_core::config::Config;
use open_coroutine_core::net::EventLoops;
use open_coroutine_core::scheduler::SchedulableSuspender;
use std::sync::atomic::{AtomicU64, Ordering};
use std::time::Duration;

pub fn gen(r: &mut Rng, _thorough: bool) -> String {
    let loops = *r.pick(&[1u64, 1, 2, 3]);
    let n = *r.pick(&[0u64, 1, 3, 8, 40, 300]);
    let work = *r.pick(&["ret", "yield", "sleep", "sleep"]);
    let budget = *r.pick(&[3000u64, 3000, 3000, 1]);
    format!("{loops} {n} {work} {budget}")
}

static FIN: AtomicU64 = AtomicU64::new(0);

pub fn exec(body: &str, emit: &mut dyn FnMut(&str)) {
    std::panic::set_hook(Box::new(|_| {}));
    let w: Vec<&str> = body.split_whitespace().collect();
    if w.len() != 4 { emit("BADCASE"); return; }
    let (loops, n, budget): (usize, u64, u64) = (w[0].parse().unwrap_or(1), w[1].parse().unwrap_or(1), w[3].parse().unwrap_or(3000));
    let work = w[2].to_string();
    let mut cfg = Config::single();
    _ = cfg.set_event_loop_size(loops).set_hook(false).set_max_size(512);
    EventLoops::init(&cfg);
    for _ in 0..n {
        let work = work.clone();
        let h = EventLoops::submit_task(None, move |_| {
            match work.as_str() {
                "yield" => { for _ in 0..5 { if let Some(s) = SchedulableSuspender::current() { s.suspend(); } } }
                "sleep" => { let ts = libc::timespec { tv_sec: 0, tv_nsec: 60_000_000 }; _ = open_coroutine_core::syscall::nanosleep(None, &ts, std::ptr::null_mut()); }
                _ => {}
            }
            FIN.fetch_add(1, Ordering::SeqCst);
            Some(0)
        }, None, None);
        std::mem::forget(h);
    }
    let r = EventLoops::stop(Duration::from_millis(budget));
    let ran = FIN.load(Ordering::SeqCst);
    let after = EventLoops::submit_task(None, |_| Some(1), None, None);
    let accepted = after.id().is_ok();
    std::mem::forget(after);
    emit(&format!("stop={} ran={ran}/{n} after={}", if r.is_ok() { "ok" } else { "timeout" }, if accepted { "accepted" } else { "rejected" }));
}
