//! C02: forced interleavings of joining a task against its completion on a real pool (pause points).
//! body: `<R<v>|P> ; <schedule>`  schedule = space separated gates, a merge of
//!   waiter:    s (waiter starts: first take) a (after first take missed) b (after registering) c (before blocking)
//!   completer: x (before results.insert) y (before notify)
//!   special `late`: the pass runs only after the waiter (100 ms budget) has given up
//!   special `handle <busy ms> <wait ms> <timeout ms>`: through the public `JoinHandle` of a real event loop: the task
//!   takes `busy`, the caller waits `wait`, then `timeout_join(timeout)`; out `res=<…> later=<result of a following join()|->`
//! out: `res=<Ok(v)|Err(m)|timeout|failed> prompt=<1|0>`
use crate::rng::Rng;
use open_coroutine_core::co_pool::CoroutinePool;
use open_coroutine_core::verif;
use std::sync::{Condvar, Mutex};
use std::time::{Duration, Instant};

fn merges(a: &[&'static str], b: &[&'static str]) -> Vec<Vec<&'static str>> {
    if a.is_empty() { return vec![b.to_vec()]; }
    if b.is_empty() { return vec![a.to_vec()]; }
    let mut out = Vec::new();
    for mut m in merges(&a[1..], b) { m.insert(0, a[0]); out.push(m); }
    for mut m in merges(a, &b[1..]) { m.insert(0, b[0]); out.push(m); }
    out
}

pub fn gen(r: &mut Rng, _thorough: bool) -> String {
    let outcome = if r.chance(1, 4) { "P".to_string() } else { format!("R{}", r.range(1, 99)) };
    if r.chance(1, 8) { return format!("{outcome} ; late"); }
    if r.chance(1, 10) { return format!("{outcome} ; steal"); }
    if r.chance(1, 6) {
        // already finished when joined (with no, little or plenty of patience), or still running
        return if r.chance(2, 3) { format!("{outcome} ; handle 0 150 {}", *r.pick(&[0u64, 0, 1, 40])) } else { format!("{outcome} ; handle 400 0 {}", *r.pick(&[0u64, 30])) };
    }
    let all = merges(&["s", "a", "b", "c"], &["x", "y"]);
    let m = &all[r.below(all.len() as u64) as usize];
    format!("{outcome} ; {}", m.join(" "))
}

struct Ctl { sched: Vec<&'static str>, next: usize, arrived: Vec<bool> }
static CTL: Mutex<Option<Ctl>> = Mutex::new(None);
static CV: Condvar = Condvar::new();

fn label_of(l: &str) -> &'static str {
    match l {
        "wait.after_first_take" => "a", "wait.after_register" => "b", "wait.before_block" => "c",
        "run.before_result_insert" => "x", "run.before_notify" => "y", "s" => "s",
        "a" => "a", "b" => "b", "c" => "c", "x" => "x", "y" => "y", _ => "?",
    }
}
fn is_waiter(g: &str) -> bool { matches!(g, "s" | "a" | "b" | "c") }

/// Block until it is this gate's turn AND the thread released at the previous gate has run up to
/// its own next gate (so that the code between two gates really executes in schedule order).
/// Gates whose thread never gets there are skipped after a grace period.
fn gate(l: &'static str) {
    let g = label_of(l);
    if std::env::var_os("OCH_GATE_DEBUG").is_some() { eprintln!("gate enter {l} -> {g} {:?}", std::thread::current().id()); }
    let mut guard = CTL.lock().unwrap();
    let mut waited_since = Instant::now();
    loop {
        let Some(ctl) = guard.as_mut() else { return; };
        let Some(me) = ctl.sched.iter().position(|x| *x == g) else { return; };
        if me < ctl.next { return; }
        ctl.arrived[me] = true;
        CV.notify_all();
        if ctl.next == me {
            // has the previously released thread reached its next gate (or has it none left)?
            let settled = if me == 0 { true } else {
                let prev = ctl.sched[me - 1];
                if is_waiter(prev) == is_waiter(g) { true } else {
                    match (me..ctl.sched.len()).find(|&k| is_waiter(ctl.sched[k]) == is_waiter(prev)) {
                        None => false,          // no further gate: give it the grace period to finish its step
                        Some(k) => ctl.arrived[k],
                    }
                }
            };
            if settled || waited_since.elapsed() > Duration::from_millis(250) {
                if std::env::var_os("OCH_GATE_DEBUG").is_some() { eprintln!("gate {g} released (settled={settled}) {:?}", std::thread::current().id()); }
                ctl.next += 1; CV.notify_all(); return;
            }
        } else if waited_since.elapsed() > Duration::from_millis(600) {
            // the gate in front of us will never be reached by its thread: skip it
            ctl.next += 1; CV.notify_all(); waited_since = Instant::now();
            continue;
        }
        let (g2, _) = CV.wait_timeout(guard, Duration::from_millis(10)).unwrap();
        guard = g2;
    }
}

pub fn exec(body: &str, emit: &mut dyn FnMut(&str)) {
    std::panic::set_hook(Box::new(|_| {}));
    let (outcome, sched) = match body.split_once(" ; ") { Some(x) => x, None => { emit("BADCASE"); return; } };
    if sched.trim() == "steal" { return exec_steal(outcome, emit); }
    if sched.trim().starts_with("handle") { return exec_handle(outcome, sched.trim(), emit); }
    let pool: &'static mut CoroutinePool<'static> = Box::leak(Box::new(CoroutinePool::new("verif-join".into(), 128 * 1024, 0, 2, 0)));
    let o = outcome.to_string();
    let id = pool.submit_task(Some("jt".into()), move |_| { if o == "P" { panic!("boom") } else { Some(o[1..].parse().unwrap()) } }, None, None).expect("submit");
    let addr = pool as *const CoroutinePool<'static> as usize;
    let late = sched.trim() == "late";
    let gates: Vec<&'static str> = if late { vec![] } else { sched.split_whitespace().map(|g| label_of(g)).collect() };
    let n = gates.len();
    *CTL.lock().unwrap() = Some(Ctl { sched: gates, next: 0, arrived: vec![false; n] });
    verif::set_pause_hook(Some(gate));
    let budget = if late { Duration::from_millis(100) } else { Duration::from_millis(3000) };
    let waiter = std::thread::spawn(move || {
        let p: &CoroutinePool<'static> = unsafe { &*(addr as *const CoroutinePool<'static>) };
        gate("s");
        let t0 = Instant::now();
        let r = p.wait_task_result(id, budget);
        (r.map(|x| x.map_err(|m| m.to_string())).map_err(|e| e.kind()), t0, Instant::now())
    });
    // `late`: the pass runs only once the waiter has really given up (not after a fixed sleep: a loaded machine may
    // delay the waiter's thread beyond any guess)
    let mut waiter = Some(waiter);
    let mut joined = None;
    if late { joined = Some(waiter.take().unwrap().join().unwrap()); }
    let _ = pool.try_schedule_task();
    let done_at = Instant::now();
    let (r, t0, t1) = match joined { Some(x) => x, None => waiter.take().unwrap().join().unwrap() };
    verif::set_pause_hook(None);
    let res = match r {
        Ok(Ok(Some(v))) => format!("Ok({v})"),
        Ok(Ok(None)) => "Ok(none)".into(),
        Ok(Err(m)) => format!("Err({})", m.replace(' ', "_")),
        Err(std::io::ErrorKind::TimedOut) => "timeout".into(),
        Err(_) => "failed".into(),
    };
    // prompt: returned within 1.5 s (of a 3 s budget) of whichever came later, its own start or the completion
    let reference = if done_at > t0 { done_at } else { t0 };
    let prompt = t1.saturating_duration_since(reference) < Duration::from_millis(1500);
    // in the `late` mode the result must still be there afterwards
    let after = if late { match pool.try_take_task_result(id) { Some(Ok(Some(v))) => format!(" later=Ok({v})"), Some(Err(m)) => format!(" later=Err({})", m.replace(' ', "_")), Some(Ok(None)) => " later=Ok(none)".into(), None => " later=none".into() } } else { String::new() };
    emit(&format!("res={res} prompt={}{after}", if prompt { 1 } else { 0 }));
}

/// two pools of one process: the task is submitted to (and joined on) pool A, pool B's scheduling
/// pass gets it through the shared work-stealing task queue
fn exec_steal(outcome: &str, emit: &mut dyn FnMut(&str)) {
    use std::sync::atomic::{AtomicBool, Ordering};
    static RAN: AtomicBool = AtomicBool::new(false);
    let a: &'static mut CoroutinePool<'static> = Box::leak(Box::new(CoroutinePool::new("verif-join-a".into(), 128 * 1024, 0, 2, 0)));
    let b: &'static mut CoroutinePool<'static> = Box::leak(Box::new(CoroutinePool::new("verif-join-b".into(), 128 * 1024, 0, 2, 0)));
    let o = outcome.to_string();
    let id = a.submit_task(Some("jt".into()), move |_| { RAN.store(true, Ordering::SeqCst); if o == "P" { panic!("boom") } else { Some(o[1..].parse().unwrap()) } }, None, None).expect("submit");
    let _ = a.submit_task(Some("jt2".into()), |_| Some(0), None, None).expect("submit");
    let _ = b.try_schedule_task();
    let ran_by_other = RAN.load(Ordering::SeqCst);
    let t0 = Instant::now();
    let _ = a.try_schedule_task();
    let r = a.wait_task_result(id, Duration::from_millis(1000));
    let res = match r.map(|x| x.map_err(|m| m.to_string())).map_err(|e| e.kind()) {
        Ok(Ok(Some(v))) => format!("Ok({v})"),
        Ok(Ok(None)) => "Ok(none)".into(),
        Ok(Err(m)) => format!("Err({})", m.replace(' ', "_")),
        Err(std::io::ErrorKind::TimedOut) => "timeout".into(),
        Err(_) => "failed".into(),
    };
    let prompt = t0.elapsed() < Duration::from_millis(700);
    let other = match b.try_take_task_result(id) { Some(Ok(Some(v))) => format!("Ok({v})"), Some(Err(m)) => format!("Err({})", m.replace(' ', "_")), Some(Ok(None)) => "Ok(none)".into(), None => "none".into() };
    emit(&format!("res={res} prompt={} ran={} stolen={} other={other}", if prompt { 1 } else { 0 }, if RAN.load(Ordering::SeqCst) { 1 } else { 0 }, if ran_by_other { 1 } else { 0 }));
}

/// the public join handle of a task on a real event loop
fn exec_handle(outcome: &str, sched: &str, emit: &mut dyn FnMut(&str)) {
    use open_coroutine_core::config::Config;
    use open_coroutine_core::net::EventLoops;
    let n: Vec<u64> = sched.split_whitespace().skip(1).filter_map(|x| x.parse().ok()).collect();
    if n.len() != 3 { emit("BADCASE"); return; }
    let (busy, wait, timeout) = (n[0], n[1], n[2]);
    let mut cfg = Config::single();
    _ = cfg.set_hook(false);
    EventLoops::init(&cfg);
    let o = outcome.to_string();
    let h = EventLoops::submit_task(Some("jh".into()), move |_| {
        std::thread::sleep(Duration::from_millis(busy));
        if o == "P" { panic!("boom") } else { Some(o[1..].parse().unwrap()) }
    }, None, None);
    std::thread::sleep(Duration::from_millis(wait));
    let show = |r: std::io::Result<Result<Option<usize>, &str>>| match r.map(|x| x.map_err(|m| m.to_string())).map_err(|e| e.kind()) {
        Ok(Ok(Some(v))) => format!("Ok({v})"),
        Ok(Ok(None)) => "Ok(none)".into(),
        Ok(Err(m)) => format!("Err({})", m.replace(' ', "_")),
        Err(std::io::ErrorKind::TimedOut) => "timeout".into(),
        Err(_) => "failed".into(),
    };
    let res = show(h.timeout_join(Duration::from_millis(timeout)));
    let later = if res == "timeout" { show(h.timeout_join(Duration::from_millis(3000))) } else { "-".into() };
    emit(&format!("res={res} later={later}"));
}
