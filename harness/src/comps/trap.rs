//! C24: memory faults inside coroutines, interleaved with healthy coroutines on one thread.
//! body: `prog ; prog ; … ; sched: c c c …`   prog steps (comma separated): S | R<r> | F<nw|nr|wr|ov> | G<nw|nr|wr>
//!   G = the same wild access made while running on a segment added by maybe_grow
//! out: first `bounds=<bits>` (stack_ptr_in_bounds at bottom-1,bottom,top-1,top,0,max of coroutine 0),
//!      then per resume `Susp | Comp(r) | Err(msg) | Gone`, finally `alive cur=<1 if the thread still has a current suspender although no coroutine is running>`
use crate::rng::Rng;
use open_coroutine_core::common::constants::CoroutineState;
use open_coroutine_core::coroutine::suspender::Suspender;
use open_coroutine_core::coroutine::Coroutine;

pub fn gen(r: &mut Rng, thorough: bool) -> String {
    let n = r.range(1, 3);
    let mut progs = Vec::new();
    for _ in 0..n {
        let k = r.range(0, if thorough { 6 } else { 4 });
        let mut steps: Vec<String> = (0..k).map(|_| "S".to_string()).collect();
        steps.push(match r.below(7) {
            0 => (*r.pick(&["Fnw", "Gnw"])).into(), 1 => (*r.pick(&["Fnr", "Gnr"])).into(), 2 => (*r.pick(&["Fwr", "Gwr"])).into(), 3 => "Fov".into(),
            _ => format!("R{}", r.below(50)),
        });
        progs.push(steps.join(","));
    }
    let m = r.range(2, if thorough { 20 } else { 10 });
    let sched: Vec<String> = (0..m).map(|_| r.below(n).to_string()).collect();
    format!("{} ; sched: {}", progs.join(" ; "), sched.join(" "))
}

#[inline(never)]
fn recurse(n: u64) -> u64 {
    let mut pad = [0u8; 512];
    std::hint::black_box(&mut pad);
    if n == u64::MAX { return 0; }
    recurse(n + 1) + pad[0] as u64 + 1
}

fn run(steps: Vec<String>, s: &Suspender<(), ()>) -> usize {
    for st in steps {
        match st.as_str() {
            "S" => s.suspend(),
            "Fnw" => unsafe { std::ptr::write_volatile(1 as *mut u8, 1); },
            "Fnr" => unsafe { let v = std::ptr::read_volatile(8 as *const u8); std::hint::black_box(v); },
            "Fwr" => unsafe { let v = std::ptr::read_volatile(0x0000_dead_0000_0000usize as *const u8); std::hint::black_box(v); },
            "Fov" => { std::hint::black_box(recurse(0)); }
            g if g.starts_with('G') => {
                let kind = g[1..].to_string();
                // a red zone larger than the whole stack forces a new segment
                let _ = Coroutine::<(), (), usize>::maybe_grow_with(1 << 20, 256 * 1024, move || unsafe {
                    match kind.as_str() {
                        "nw" => std::ptr::write_volatile(1 as *mut u8, 1),
                        "nr" => { let v = std::ptr::read_volatile(8 as *const u8); std::hint::black_box(v); }
                        _ => { let v = std::ptr::read_volatile(0x0000_dead_0000_0000usize as *const u8); std::hint::black_box(v); }
                    }
                });
            }
            r if r.starts_with('R') => return r[1..].parse().unwrap(),
            _ => {}
        }
    }
    0
}

pub fn exec(body: &str, emit: &mut dyn FnMut(&str)) {
    std::panic::set_hook(Box::new(|_| {}));
    let parts: Vec<&str> = body.split(" ; ").collect();
    let sched = parts[parts.len() - 1].trim_start_matches("sched:").trim().to_string();
    let mut cos: Vec<Coroutine<'static, (), (), usize>> = Vec::new();
    for (i, p) in parts[..parts.len() - 1].iter().enumerate() {
        let steps: Vec<String> = p.trim().split(',').map(String::from).collect();
        cos.push(Coroutine::new(Some(format!("t{i}")), move |s: &Suspender<(), ()>, ()| run(steps, s), Some(128 * 1024), None).expect("co"));
    }
    let info = cos[0].stack_infos();
    let (top, bottom) = (info[0].stack_top as u64, info[0].stack_bottom as u64);
    let bits: String = [bottom - 1, bottom, top - 1, top, 0, u64::MAX].iter().map(|&sp| if cos[0].stack_ptr_in_bounds(sp) { '1' } else { '0' }).collect();
    emit(&format!("bounds={bits}"));
    for c in sched.split_whitespace() {
        let c: usize = c.parse().unwrap();
        let out = match cos[c].resume() {
            Ok(CoroutineState::Suspend((), _)) => "Susp".to_string(),
            Ok(CoroutineState::Complete(r)) => format!("Comp({r})"),
            Ok(CoroutineState::Error(m)) => format!("Err({})", m.replace(' ', "_")),
            Ok(other) => format!("Other({other:?})").replace(' ', "_"),
            Err(_) => "Gone".to_string(),
        };
        emit(&out);
    }
    // the resuming thread goes on as before: in particular it is not "inside a coroutine" any more
    emit(&format!("alive cur={}", if Suspender::<(), ()>::current().is_some() { 1 } else { 0 }));
}
