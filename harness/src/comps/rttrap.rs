//! C24 on a started runtime: one task commits a memory fault (wild write / stack overflow); its join must report an
//! error, every other task must finish with its own value, and the loops must keep accepting and running tasks.
//! body: `<loops> <n tasks> <null|overflow> <victim>`
//! out : `others=<finished with own value>/<n-1> victim=<error|value|lost> after=<1|0>` (after = a task submitted afterwards ran)
use crate::rng::Rng;
use open_coroutine_core::config::Config;
use open_coroutine_core::net::EventLoops;
use std::time::Duration;

pub fn gen(r: &mut Rng, _thorough: bool) -> String {
    let n = r.range(1, 6);
    format!("{} {n} {} {}", *r.pick(&[1u64, 1, 2, 3]), *r.pick(&["null", "null", "overflow"]), r.below(n))
}

#[inline(never)]
fn recurse(d: u64) -> u64 { let mut pad = [d; 64]; pad[(d % 64) as usize] = d; if d == u64::MAX { 0 } else { std::hint::black_box(recurse(d + 1)) + std::hint::black_box(pad[3]) } }

pub fn exec(body: &str, emit: &mut dyn FnMut(&str)) {
    std::panic::set_hook(Box::new(|_| {}));
    let w: Vec<&str> = body.split_whitespace().collect();
    if w.len() != 4 { emit("BADCASE"); return; }
    let (loops, n, victim): (usize, usize, usize) = (w[0].parse().unwrap_or(1), w[1].parse().unwrap_or(1), w[3].parse().unwrap_or(0));
    let overflow = w[2] == "overflow";
    let mut cfg = Config::single();
    _ = cfg.set_event_loop_size(loops).set_hook(false).set_max_size(64);
    EventLoops::init(&cfg);
    let mut hs = Vec::new();
    for i in 0..n {
        hs.push(EventLoops::submit_task(None, move |_| {
            // a short hooked sleep first, so that the tasks overlap
            let ts = libc::timespec { tv_sec: 0, tv_nsec: 5_000_000 };
            _ = open_coroutine_core::syscall::nanosleep(None, &ts, std::ptr::null_mut());
            if i == victim {
                if overflow { return Some(recurse(0) as usize); }
                unsafe { std::ptr::write_volatile(8 as *mut u64, 1); }
            }
            Some(500 + i)
        }, None, None));
    }
    let mut own = 0;
    let mut vres = "lost";
    for (i, h) in hs.iter().enumerate() {
        match h.timeout_join(Duration::from_millis(3000)) {
            Ok(Ok(Some(v))) => { if i == victim { vres = "value"; } else if v == 500 + i { own += 1; } }
            Ok(Err(_)) => { if i == victim { vres = "error"; } }
            _ => {}
        }
    }
    let after = EventLoops::submit_task(None, |_| Some(77), None, None);
    let ran = matches!(after.timeout_join(Duration::from_millis(3000)), Ok(Ok(Some(77))));
    emit(&format!("others={own}/{} victim={vres} after={}", n - 1, if ran { 1 } else { 0 }));
    for h in hs { std::mem::forget(h); }
    std::mem::forget(after);
}
