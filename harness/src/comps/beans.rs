//! C26: named singletons under concurrent first use — real threads behind a barrier in a fresh
//! process (each case is a forked child). body: `<threads> <names> <rounds>`
//! out: `distinct=<max distinct instances over names> stable=<1|0>`
use crate::rng::Rng;
use open_coroutine_core::common::beans::BeanFactory;
use std::sync::atomic::{AtomicUsize, Ordering};
use std::sync::{Arc, Barrier, Mutex};

pub fn gen(r: &mut Rng, _thorough: bool) -> String {
    format!("{} {} {}", r.pick(&[2u64, 4, 8, 16, 16, 32]), r.range(1, 3), r.range(1, 3))
}

#[derive(Default, Debug)]
struct Bean { _pad: [u64; 8], touched: AtomicUsize }

const NAMES: [&str; 3] = ["verif-bean-a", "verif-bean-b", "verif-bean-c"];

pub fn exec(body: &str, emit: &mut dyn FnMut(&str)) {
    let t: Vec<usize> = body.split_whitespace().map(|x| x.parse().unwrap()).collect();
    let (threads, names, rounds) = (t[0], t[1].min(3), t[2]);
    let barrier = Arc::new(Barrier::new(threads));
    let seen: Arc<Mutex<Vec<Vec<usize>>>> = Arc::new(Mutex::new(vec![Vec::new(); names]));
    let mut hs = Vec::new();
    for i in 0..threads {
        let (barrier, seen) = (barrier.clone(), seen.clone());
        hs.push(std::thread::spawn(move || {
            let mut mine = vec![Vec::new(); names];
            barrier.wait();
            for r in 0..rounds {
                for n in 0..names {
                    let n = (n + i + r) % names;
                    let b: &Bean = BeanFactory::get_or_default::<Bean>(NAMES[n]);
                    b.touched.fetch_add(1, Ordering::Relaxed);
                    mine[n].push(b as *const Bean as usize);
                }
            }
            let mut s = seen.lock().unwrap();
            for n in 0..names { s[n].extend(mine[n].iter()); }
        }));
    }
    for h in hs { h.join().unwrap(); }
    let s = seen.lock().unwrap();
    let mut max_distinct = 0;
    let mut stable = true;
    for n in 0..names {
        let mut v = s[n].clone(); v.sort(); v.dedup();
        max_distinct = max_distinct.max(v.len());
        // later lookups keep returning the instance now registered
        let now = BeanFactory::get_or_default::<Bean>(NAMES[n]) as *const Bean as usize;
        let again = BeanFactory::get_bean::<Bean>(NAMES[n]).map(|b| b as *const Bean as usize);
        if again != Some(now) || !v.contains(&now) { stable = false; }
    }
    emit(&format!("distinct={} stable={}", max_distinct, if stable { 1 } else { 0 }));
}
