//! C05 on a started runtime: while one task keeps the (single) loop busy, tasks with priorities are submitted;
//! they must then start in priority order, first come first served among equals.
//! body: `<max workers> p1,p2,…`   out: `order=<indices of the tasks in the order their bodies started>`
use crate::rng::Rng;
use open_coroutine_core::config::Config;
use open_coroutine_core::net::EventLoops;
use std::sync::Mutex;
use std::time::{Duration, Instant};

pub fn gen(r: &mut Rng, _thorough: bool) -> String {
    let n = r.range(2, 9);
    let ps: Vec<String> = (0..n).map(|_| r.pick(&[0i64, 0, 1, -1, 5, 5, i64::MIN, i64::MAX]).to_string()).collect();
    format!("{} {}", *r.pick(&[1u64, 2, 16]), ps.join(","))
}

static ORDER: Mutex<Vec<usize>> = Mutex::new(Vec::new());

pub fn exec(body: &str, emit: &mut dyn FnMut(&str)) {
    std::panic::set_hook(Box::new(|_| {}));
    let w: Vec<&str> = body.split_whitespace().collect();
    if w.len() != 2 { emit("BADCASE"); return; }
    let max: usize = w[0].parse().unwrap_or(1);
    let prios: Vec<i64> = w[1].split(',').filter_map(|x| x.parse().ok()).collect();
    let mut cfg = Config::single();
    _ = cfg.set_hook(false).set_max_size(max);
    EventLoops::init(&cfg);
    // the blocker: once it runs, the loop thread is busy for 400 ms
    let started = std::sync::Arc::new(std::sync::atomic::AtomicBool::new(false));
    let s2 = started.clone();
    let h = EventLoops::submit_task(None, move |_| {
        s2.store(true, std::sync::atomic::Ordering::SeqCst);
        let t = Instant::now();
        while t.elapsed() < Duration::from_millis(400) { std::hint::spin_loop(); }
        Some(0)
    }, None, Some(0));
    std::mem::forget(h);
    let t0 = Instant::now();
    while !started.load(std::sync::atomic::Ordering::SeqCst) && t0.elapsed() < Duration::from_secs(3) { std::thread::sleep(Duration::from_millis(1)); }
    for (i, p) in prios.iter().enumerate() {
        let h = EventLoops::submit_task(None, move |_| { ORDER.lock().unwrap().push(i); Some(i) }, None, Some(*p));
        std::mem::forget(h);
    }
    let n = prios.len();
    while ORDER.lock().unwrap().len() < n && t0.elapsed() < Duration::from_secs(5) { std::thread::sleep(Duration::from_millis(2)); }
    emit(&format!("order={}", ORDER.lock().unwrap().iter().map(|x| x.to_string()).collect::<Vec<_>>().join(".")));
}
