//! C14: hooked timed waits (sleep, usleep, nanosleep, poll, select, pthread_cond_timedwait) from a
//! plain thread, waits intercepted (recorded, virtual clock advanced by the requested amount).
//! ops: sleep <s> | usleep <us> | nanosleep <sec> <nsec> | poll <ms> <k> | select <sec> <usec> <k> | selectnull <k>
//!      | cond <rel_ns|null|neg|badnsec> <k>      (k = number of "nothing ready"/ETIMEDOUT answers before success)
//! out: `ret=<r> errno=<e> waits=<rle ns> elapsed=<ns> probes=<n>`
use crate::rng::Rng;
use libc::{c_int, fd_set, nfds_t, pollfd, pthread_cond_t, pthread_mutex_t, timespec, timeval};
use open_coroutine_core::verif::{self, WaitKind};
use std::cell::RefCell;

pub fn gen(r: &mut Rng, _thorough: bool) -> String {
    // `never` (1 000 000 "nothing ready" answers) is only combined with finite timeouts of at most
    // 100 s, so every call ends after at most ~6 300 probes
    let never = 1_000_000u64;
    let k = |r: &mut Rng, finite: bool| if finite && r.chance(3, 5) { never } else { r.below(50) };
    match r.below(7) {
        0 => format!("sleep {}", r.pick(&[0u64, 1, 2, 3600, 4294967295])),
        1 => format!("usleep {}", r.pick(&[0u64, 1, 300, 999, 1000, 2500, 1_000_000, 4294967295])),
        2 => format!("nanosleep {} {}", r.pick(&[0i64, 1, 5, -1, 9_000_000_000_000]), r.pick(&[0i64, 1, 999, 1_000_000, 999_999_999, 1_000_000_000, -1])),
        3 => { let ms = *r.pick(&[0i64, 1, 2, 3, 15, 16, 17, 30, 31, 100, 1000, 12345, 100_000, -1, -5, 2147483647]); format!("poll {} {}", ms, k(r, (0..=100_000).contains(&ms))) }
        4 => {
            let sec = *r.pick(&[0i64, 0, 0, 1, 2, 100, -1, 5_000_000_000, i64::MAX]);
            let usec = *r.pick(&[0i64, 1, 500, 999, 1000, 1001, 3000, 16_000, 999_999, 1_000_000, 2_500_000, -1, i64::MAX]);
            format!("select {} {} {}", sec, usec, k(r, (0..=100).contains(&sec) && (0..=2_500_000).contains(&usec)))
        }
        5 => format!("selectnull {}", r.below(40)),
        _ => {
            let rel = *r.pick(&["0", "1", "5000000", "10000000", "10000001", "25000000", "1000000000", "null", "neg", "badnsec", "past"]);
            format!("cond {} {}", rel, k(r, rel.parse::<u64>().is_ok()))
        }
    }
}

#[derive(Default)]
struct T { waits: Vec<u128>, probes: u64, ready_after: u64, cond_deadlines: Vec<i128> }
thread_local! { static TS: RefCell<T> = RefCell::new(T::default()); }

fn wait_hook(_kind: WaitKind, _fd: c_int, timeout: Option<std::time::Duration>) -> std::io::Result<()> {
    let ns = timeout.map_or(u64::MAX as u128, |d| d.as_nanos());
    TS.with(|t| t.borrow_mut().waits.push(ns));
    let _ = verif::advance_virtual_now(u64::try_from(ns).unwrap_or(u64::MAX));
    Ok(())
}

fn probe() -> c_int {
    TS.with(|t| { let mut t = t.borrow_mut(); t.probes += 1; if t.probes > t.ready_after { 1 } else { 0 } })
}
extern "C" fn k_poll(_f: *mut pollfd, _n: nfds_t, _t: c_int) -> c_int { probe() }
extern "C" fn k_select(_n: c_int, _r: *mut fd_set, _w: *mut fd_set, _e: *mut fd_set, _t: *mut timeval) -> c_int { probe() }
extern "C" fn k_cond(_c: *mut pthread_cond_t, _m: *mut pthread_mutex_t, abs: *const timespec) -> c_int {
    let now = open_coroutine_core::common::now() as i128;
    let d = unsafe { (*abs).tv_sec as i128 * 1_000_000_000 + (*abs).tv_nsec as i128 } - now;
    TS.with(|t| t.borrow_mut().cond_deadlines.push(d));
    if probe() == 1 { 0 } else { libc::ETIMEDOUT }
}

pub fn exec(body: &str, emit: &mut dyn FnMut(&str)) {
    use open_coroutine_core::syscall as sc;
    let t: Vec<&str> = body.split_whitespace().collect();
    let t0 = 1_700_000_000_000_000_000u64;
    verif::set_virtual_now(t0);
    verif::set_wait_hook(Some(wait_hook));
    unsafe { *libc::__errno_location() = 0; }
    let set_k = |k: &str| TS.with(|ts| ts.borrow_mut().ready_after = k.parse().unwrap());
    let ret: i64 = unsafe {
        match t.as_slice() {
            ["sleep", s] => sc::sleep(None, s.parse().unwrap()) as i64,
            ["usleep", us] => sc::usleep(None, us.parse().unwrap()) as i64,
            ["nanosleep", sec, nsec] => {
                let rq = timespec { tv_sec: sec.parse().unwrap(), tv_nsec: nsec.parse().unwrap() };
                let mut rm = timespec { tv_sec: 7, tv_nsec: 7 };
                sc::nanosleep(None, &rq, &mut rm) as i64
            }
            ["poll", ms, k] => { set_k(k); let f: extern "C" fn(*mut pollfd, nfds_t, c_int) -> c_int = k_poll; sc::poll(Some(&f), std::ptr::null_mut(), 0, ms.parse().unwrap()) as i64 }
            ["select", sec, usec, k] => {
                set_k(k);
                let mut tv = timeval { tv_sec: sec.parse().unwrap(), tv_usec: usec.parse().unwrap() };
                let f: extern "C" fn(c_int, *mut fd_set, *mut fd_set, *mut fd_set, *mut timeval) -> c_int = k_select;
                sc::select(Some(&f), 0, std::ptr::null_mut(), std::ptr::null_mut(), std::ptr::null_mut(), &mut tv) as i64
            }
            ["selectnull", k] => {
                set_k(k);
                let f: extern "C" fn(c_int, *mut fd_set, *mut fd_set, *mut fd_set, *mut timeval) -> c_int = k_select;
                sc::select(Some(&f), 0, std::ptr::null_mut(), std::ptr::null_mut(), std::ptr::null_mut(), std::ptr::null_mut()) as i64
            }
            ["cond", rel, k] => {
                set_k(k);
                let f: extern "C" fn(*mut pthread_cond_t, *mut pthread_mutex_t, *const timespec) -> c_int = k_cond;
                let abs: Option<timespec> = match *rel {
                    "null" => None,
                    "neg" => Some(timespec { tv_sec: -1, tv_nsec: 0 }),
                    "badnsec" => Some(timespec { tv_sec: 1, tv_nsec: 1_000_000_000 }),
                    "past" => Some(timespec { tv_sec: 5, tv_nsec: 0 }),
                    v => { let a = t0 as u128 + v.parse::<u128>().unwrap(); Some(timespec { tv_sec: (a / 1_000_000_000) as i64, tv_nsec: (a % 1_000_000_000) as i64 }) }
                };
                let p = abs.as_ref().map_or(std::ptr::null(), |a| a as *const timespec);
                sc::pthread_cond_timedwait(Some(&f), std::ptr::null_mut(), std::ptr::null_mut(), p) as i64
            }
            _ => { emit("BADOP"); return; }
        }
    };
    let errno = unsafe { *libc::__errno_location() };
    let now = open_coroutine_core::common::now();
    verif::set_wait_hook(None);
    verif::clear_virtual_now();
    let (waits, probes, dl) = TS.with(|t| { let t = t.borrow(); (t.waits.clone(), t.probes, t.cond_deadlines.clone()) });
    let dls = if dl.is_empty() { String::new() } else { format!(" inner={}", dl.iter().take(6).map(|d| d.to_string()).collect::<Vec<_>>().join(",")) };
    emit(&format!("ret={} errno={} waits={} elapsed={} probes={}{}", ret, errno, super::time::rle(&waits), now - t0, probes, dls));
}
