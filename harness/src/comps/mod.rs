use crate::Comp;
pub mod time;

pub static ALL: &[Comp] = &[
    Comp { name: "time", gen: time::gen, exec: time::exec, isolate_ms: 0 },
];
