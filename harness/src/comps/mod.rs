use crate::Comp;
pub mod beans;
pub mod co;
pub mod join;
pub mod once;
pub mod rt;
pub mod mpool;
#[cfg(feature = "pre")]
pub mod pre;
#[cfg(feature = "uring")]
pub mod uring;
pub mod sleepers;
pub mod local;
pub mod nio;
pub mod pool;
pub mod qconc;
pub mod queue;
pub mod rtwait;
pub mod rtloop;
pub mod rtwake;
pub mod rtcancel;
pub mod rtstop;
pub mod rtsock;
pub mod rtconn;
pub mod rtprio;
pub mod rttrap;
pub mod rtgrow;
pub mod hookproc;
pub mod sched;
pub mod sel;
pub mod stack;
pub mod time;
pub mod timeouts;
pub mod trap;
pub mod tlcache;

pub static ALL: &[Comp] = &[
    Comp { name: "time", gen: time::gen, exec: time::exec, isolate_ms: 0 },
    Comp { name: "oq", gen: queue::gen_oq, exec: queue::exec_oq, isolate_ms: 500 },
    Comp { name: "qconc", gen: qconc::gen, exec: qconc::exec, isolate_ms: 20000 },
    Comp { name: "nio", gen: nio::gen, exec: nio::exec, isolate_ms: 3000 },
    Comp { name: "tlcache", gen: tlcache::gen, exec: tlcache::exec, isolate_ms: 5000 },
    Comp { name: "timeouts", gen: timeouts::gen, exec: timeouts::exec, isolate_ms: 5000 },
    Comp { name: "rtwait", gen: rtwait::gen, exec: rtwait::exec, isolate_ms: 10000 },
    Comp { name: "rtloop", gen: rtloop::gen, exec: rtloop::exec, isolate_ms: 12000 },
    Comp { name: "rtwake", gen: rtwake::gen, exec: rtwake::exec, isolate_ms: 12000 },
    Comp { name: "rtcancel", gen: rtcancel::gen, exec: rtcancel::exec, isolate_ms: 15000 },
    Comp { name: "rtstop", gen: rtstop::gen, exec: rtstop::exec, isolate_ms: 15000 },
    Comp { name: "rtsock", gen: rtsock::gen, exec: rtsock::exec, isolate_ms: 30000 },
    Comp { name: "rtconn", gen: rtconn::gen, exec: rtconn::exec, isolate_ms: 15000 },
    Comp { name: "rtprio", gen: rtprio::gen, exec: rtprio::exec, isolate_ms: 15000 },
    Comp { name: "rttrap", gen: rttrap::gen, exec: rttrap::exec, isolate_ms: 20000 },
    Comp { name: "rtgrow", gen: rtgrow::gen, exec: rtgrow::exec, isolate_ms: 20000 },
    Comp { name: "hookproc", gen: hookproc::gen, exec: hookproc::exec, isolate_ms: 12000 },
    Comp { name: "co", gen: co::gen, exec: co::exec, isolate_ms: 5000 },
    Comp { name: "local", gen: local::gen, exec: local::exec, isolate_ms: 5000 },
    Comp { name: "beans", gen: beans::gen, exec: beans::exec, isolate_ms: 10000 },
    Comp { name: "sel", gen: sel::gen, exec: sel::exec, isolate_ms: 8000 },
    Comp { name: "stack", gen: stack::gen, exec: stack::exec, isolate_ms: 10000 },
    Comp { name: "trap", gen: trap::gen, exec: trap::exec, isolate_ms: 10000 },
    Comp { name: "sched", gen: sched::gen, exec: sched::exec, isolate_ms: 10000 },
    Comp { name: "pool", gen: pool::gen, exec: pool::exec, isolate_ms: 15000 },
    Comp { name: "join", gen: join::gen, exec: join::exec, isolate_ms: 15000 },
    Comp { name: "once", gen: once::gen, exec: once::exec, isolate_ms: 15000 },
    Comp { name: "rt", gen: rt::gen, exec: rt::exec, isolate_ms: 15000 },
    Comp { name: "mpool", gen: mpool::gen, exec: mpool::exec, isolate_ms: 2500 },
    #[cfg(feature = "uring")]
    Comp { name: "uring", gen: uring::gen, exec: uring::exec, isolate_ms: 45000 },
    #[cfg(feature = "pre")]
    Comp { name: "pre", gen: pre::gen, exec: pre::exec, isolate_ms: 20000 },
    Comp { name: "sleepers", gen: sleepers::gen, exec: sleepers::exec, isolate_ms: 15000 },
    Comp { name: "pq", gen: queue::gen_pq, exec: queue::exec_pq, isolate_ms: 500 },
];
