//! C22 (build with `--features pre`): preemption by the monitor thread, wall clock.
//! body: `<threads> ; prog ; prog ; …`  every thread runs the same coroutines on its own Scheduler.
//!   prog steps (comma separated): B<ms> busy loop in Running state | Z<ms> busy loop in Syscall state |
//!   Y plain yield | R (finish; the value is the checksum of the work done) |
//!   N<ms> nested: resume an inner coroutine that busy-loops (it is preempted back into this one), then a
//!   busy loop of ms in this (outer) coroutine — which must be preempted as well
//! out per thread (joined by ` / `): per coroutine `<k>:v=<checksum intact>,pz=<preemptions inside Z sections>,pbl=<every B section of
//!   at least 45 ms was preempted at least once>`, then `order=<completion order>`; a coroutine that never finished is missing
use crate::rng::Rng;
use open_coroutine_core::common::constants::{CoroutineState, SyscallName, SyscallState};
use open_coroutine_core::coroutine::listener::Listener;
use open_coroutine_core::coroutine::local::CoroutineLocal;
use open_coroutine_core::scheduler::{SchedulableCoroutine, Scheduler};
use std::cell::Cell;
use std::rc::Rc;
use std::sync::atomic::{AtomicU64, Ordering};
use std::time::{Duration, Instant};

pub fn gen(r: &mut Rng, thorough: bool) -> String {
    let threads = *r.pick(&[1u64, 1, 2, 4, 8, if thorough { 16 } else { 12 }]);
    // several started coroutines on several threads is the known-finding territory (stolen while parked in
    // the signal handler): most multi-thread cases keep one coroutine per thread
    let n = if threads > 1 && !r.chance(1, 5) { 1 } else { r.range(1, 4) };
    let mut progs = Vec::new();
    for _ in 0..n {
        let k = r.range(0, 3);
        let mut steps = Vec::new();
        for _ in 0..k {
            if threads == 1 && r.chance(1, 6) { steps.push(format!("N{}", *r.pick(&[45u64, 60]))); continue; }
            steps.push(match r.below(6) { 0 | 1 => format!("B{}", *r.pick(&[2u64, 30, 45, 60])), 2 | 3 => format!("Z{}", *r.pick(&[5u64, 30, 50])), _ => "Y".to_string() });
        }
        steps.push("R".into());
        progs.push(steps.join(","));
    }
    format!("{threads} ; {}", progs.join(" ; "))
}

/// per coroutine (kept in its coroutine-local storage): what the body is in the middle of
/// (0 nothing, 1 a B section, 2 a Z section) and the involuntary suspensions seen since the section began
type Mark = Rc<Cell<(u8, u64)>>;
const MARK: &str = "verif-pre-mark";

#[derive(Debug)]
struct Watch;
impl Listener<(), Option<usize>> for Watch {
    fn on_state_changed(&self, local: &CoroutineLocal, _old: CoroutineState<(), Option<usize>>, new: CoroutineState<(), Option<usize>>) {
        // a change to Suspend while the body is inside a busy section is a preemption (bodies leave the section before they yield)
        if let CoroutineState::Suspend((), _) = new {
            if let Some(m) = local.get::<Mark>(MARK) { let (sec, hits) = m.get(); if sec != 0 { m.set((sec, hits + 1)); } }
        }
    }
}

const MUL: u64 = 6364136223846793005;
const ADD: u64 = 1442695040888963407;

#[inline(never)]
fn work(acc: u64, until: Instant) -> (u64, u64) {
    let (mut a, mut rounds) = (acc, 0u64);
    while Instant::now() < until {
        for _ in 0..2000 { a = a.wrapping_mul(MUL).wrapping_add(ADD); }
        rounds += 1;
    }
    (a, rounds)
}

fn replay(rounds: u64) -> u64 {
    let mut a = 7u64;
    for _ in 0..rounds * 2000 { a = a.wrapping_mul(MUL).wrapping_add(ADD); }
    a
}

fn run_thread(progs: Vec<String>) -> String {
    let sched: &'static mut Scheduler<'static> = Box::leak(Box::new(Scheduler::new(format!("verif-pre-{:?}", std::thread::current().id()), 256 * 1024)));
    sched.add_listener(Watch);
    let n = progs.len();
    // bodies can be preempted anywhere: they only touch preallocated atomics (no allocation, no RefCell)
    // slot k: bit0 done, bit1 checksum intact, bit2 every long B section preempted, bits 8.. = preemptions inside Z sections
    let slots: &'static Vec<AtomicU64> = Box::leak(Box::new((0..n).map(|_| AtomicU64::new(0)).collect()));
    let rank: &'static Vec<AtomicU64> = Box::leak(Box::new((0..n).map(|_| AtomicU64::new(u64::MAX)).collect()));
    let next: &'static AtomicU64 = Box::leak(Box::new(AtomicU64::new(0)));
    for (k, p) in progs.iter().enumerate() {
        // (kind, ms) pairs, parsed outside the body
        let steps: Vec<(u8, u64)> = p.split(',').map(|st| { let (h, rest) = st.split_at(1); (h.as_bytes()[0], rest.parse().unwrap_or(0)) }).collect();
        // inner coroutines for the nested steps are built here, outside any preemptible code (and never freed)
        let mut inners: Vec<open_coroutine_core::coroutine::Coroutine<'static, (), (), Option<usize>>> = steps.iter().filter(|s| s.0 == b'N').map(|&(_, ms)| {
            open_coroutine_core::coroutine::Coroutine::new(None, move |_s: &open_coroutine_core::coroutine::suspender::Suspender<(), ()>, ()| {
                let _ = work(3, Instant::now() + Duration::from_millis(ms)); None
            }, Some(128 * 1024), None).expect("inner")
        }).collect();
        inners.reverse();
        let co = SchedulableCoroutine::new(Some(format!("pre{k}-{:?}", std::thread::current().id())), move |s, ()| {
            let (mut acc, mut rounds, mut pz, mut pbl) = (7u64, 0u64, 0u64, true);
            let mark: Mark = Rc::new(Cell::new((0, 0)));
            let _ = SchedulableCoroutine::current().unwrap().put(MARK, mark.clone());
            for &(h, ms) in steps.iter() {
                match h {
                    b'B' | b'Z' => {
                        if h == b'Z' { let _ = SchedulableCoroutine::current().unwrap().syscall((), SyscallName::write, SyscallState::Executing); }
                        mark.set((if h == b'Z' { 2 } else { 1 }, 0));
                        let (a, r) = work(acc, Instant::now() + Duration::from_millis(ms));
                        let hits = mark.get().1;
                        mark.set((0, 0));
                        acc = a; rounds += r;
                        if h == b'Z' { pz += hits; let _ = SchedulableCoroutine::current().unwrap().running(); }
                        else if ms >= 45 && hits == 0 { pbl = false; }
                    }
                    b'N' => {
                        // the inner one runs until it is preempted (or done); then this coroutine goes on computing
                        if let Some(mut inner) = inners.pop() { let _ = inner.resume(); std::mem::forget(inner); }
                        mark.set((1, 0));
                        let (a, r) = work(acc, Instant::now() + Duration::from_millis(ms));
                        let hits = mark.get().1;
                        mark.set((0, 0));
                        acc = a; rounds += r;
                        if hits == 0 { pbl = false; }
                    }
                    b'Y' => { s.suspend(); }
                    _ => {}
                }
            }
            let ok = replay(rounds) == acc;
            rank[k].store(next.fetch_add(1, Ordering::SeqCst), Ordering::SeqCst);
            slots[k].store(1 | ((ok as u64) << 1) | ((pbl as u64) << 2) | (pz << 8), Ordering::SeqCst);
            Some(0)
        }, Some(256 * 1024), None).expect("co");
        let _ = sched.submit_raw_co(co);
    }
    let deadline = Instant::now() + Duration::from_secs(6);
    while slots.iter().any(|s| s.load(Ordering::SeqCst) & 1 == 0) && Instant::now() < deadline {
        let _ = sched.try_timeout_schedule(open_coroutine_core::common::now() + 20_000_000);
    }
    let r = (0..n).filter_map(|k| { let v = slots[k].load(Ordering::SeqCst); if v & 1 == 0 { None } else { Some(format!("{k}:v={},pz={},pbl={}", (v >> 1) & 1, v >> 8, (v >> 2) & 1)) } }).collect::<Vec<_>>().join(" ");
    let mut ord: Vec<(u64, usize)> = (0..n).map(|k| (rank[k].load(Ordering::SeqCst), k)).filter(|x| x.0 != u64::MAX).collect();
    ord.sort();
    format!("{r} order={}", ord.iter().map(|x| x.1.to_string()).collect::<Vec<_>>().join("."))
}

pub fn exec(body: &str, emit: &mut dyn FnMut(&str)) {
    std::panic::set_hook(Box::new(|_| {}));
    let parts: Vec<String> = body.split(" ; ").map(String::from).collect();
    let threads: usize = parts[0].trim().parse().unwrap_or(1);
    let progs: Vec<String> = parts[1..].to_vec();
    let hs: Vec<_> = (0..threads).map(|_| { let p = progs.clone(); std::thread::spawn(move || run_thread(p)) }).collect();
    let outs: Vec<String> = hs.into_iter().map(|h| h.join().unwrap_or_else(|_| "THREADPANIC".into())).collect();
    emit(&outs.join(" / "));
}
