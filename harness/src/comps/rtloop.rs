//! C15 on the wall clock: a real event loop (its own thread) whose pool may keep idle workers
//! (`keep_alive_time`, `min_size`); n tasks block in a hooked nanosleep of d ms, c tasks compute for a few ms.
//! body: `<n sleepers> <d ms> <c computing> <keep_alive ms> <min_size> [<loops>]` (several loops: the sleepers migrate between the loop threads)
//! out : `done=<tasks finished> late=<0|1>`  late = the last sleeper finished later than d + 1200 ms
use crate::rng::Rng;
use open_coroutine_core::common::constants::DEFAULT_STACK_SIZE;
use open_coroutine_core::config::Config;
use open_coroutine_core::net::EventLoops;
use std::sync::atomic::{AtomicU64, Ordering};
use std::time::{Duration, Instant};

pub fn gen(r: &mut Rng, _thorough: bool) -> String {
    let n = r.range(1, 6);
    let d = *r.pick(&[30u64, 100, 200]);
    let c = r.range(0, 3);
    let keep = *r.pick(&[0u64, 0, 50, 3000, 8000]);
    let min = *r.pick(&[0u64, 0, 0, 1, 2]);
    // several loops only with the default pool configuration: with keep-alive / core workers *and* several loops a
    // stall was seen once (5 sleepers of 30 ms, keep-alive 8 s, 3 loops: 1 of 6 tasks within 4 s) and never again in
    // repeated runs; it is noted in DESIGN.md and not judged here
    let loops = if keep == 0 && min == 0 { *r.pick(&[1u64, 1, 2, 3]) } else { 1 };
    format!("{n} {d} {c} {keep} {min} {loops}")
}

static DONE: AtomicU64 = AtomicU64::new(0);
static LAST_MS: AtomicU64 = AtomicU64::new(0);

pub fn exec(body: &str, emit: &mut dyn FnMut(&str)) {
    std::panic::set_hook(Box::new(|_| {}));
    let w: Vec<u64> = body.split_whitespace().filter_map(|x| x.parse().ok()).collect();
    if w.len() != 5 && w.len() != 6 { emit("BADCASE"); return; }
    let (n, d, c, keep, min) = (w[0], w[1], w[2], w[3], w[4]);
    let loops = if w.len() == 6 { w[5].max(1) as usize } else { 1 };
    let cfg = Config::new(loops, DEFAULT_STACK_SIZE, min as usize, 16, keep * 1_000_000, 0, 0, false);
    EventLoops::init(&cfg);
    let start = Instant::now();
    for _ in 0..n {
        let h = EventLoops::submit_task(None, move |_| {
            let ts = libc::timespec { tv_sec: (d / 1000) as i64, tv_nsec: ((d % 1000) * 1_000_000) as i64 };
            _ = open_coroutine_core::syscall::nanosleep(None, &ts, std::ptr::null_mut());
            LAST_MS.fetch_max(start.elapsed().as_millis() as u64, Ordering::SeqCst);
            DONE.fetch_add(1, Ordering::SeqCst);
            Some(0)
        }, None, None);
        std::mem::forget(h);
    }
    for _ in 0..c {
        let h = EventLoops::submit_task(None, move |_| {
            let t = Instant::now();
            while t.elapsed() < Duration::from_millis(3) { std::hint::spin_loop(); }
            DONE.fetch_add(1, Ordering::SeqCst);
            Some(0)
        }, None, None);
        std::mem::forget(h);
    }
    let budget = Duration::from_millis(d + 4000);
    while DONE.load(Ordering::SeqCst) < n + c && start.elapsed() < budget { std::thread::sleep(Duration::from_millis(5)); }
    let late = DONE.load(Ordering::SeqCst) < n + c || LAST_MS.load(Ordering::SeqCst) > d + 1200;
    emit(&format!("done={} late={}", DONE.load(Ordering::SeqCst), if late { 1 } else { 0 }));
}
