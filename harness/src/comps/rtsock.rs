//! C16/C20 end to end on a started runtime with the real kernel: pairs of coroutines, a writer that pushes
//! `kbytes` KiB through a TCP loopback connection with hooked `send`s of `chunk` bytes and a reader that takes them with
//! hooked `recv`s (the socket buffers fill up, so both sides really wait for readiness; with several loops the
//! coroutines migrate between the loop threads).
//! body: `<loops> <pairs> <kbytes> <chunk>`
//! out : `intact=<pairs whose bytes arrived complete and in order>/<pairs> unfinished=<coroutines not done after the budget>`
use crate::rng::Rng;
use open_coroutine_core::config::Config;
use open_coroutine_core::net::EventLoops;
use std::sync::atomic::{AtomicU64, Ordering};
use std::time::{Duration, Instant};

pub fn gen(r: &mut Rng, _thorough: bool) -> String {
    let loops = *r.pick(&[1u64, 1, 2, 3]);
    let pairs = r.range(1, 5);
    let kb = *r.pick(&[1u64, 64, 512, 2048]);
    let chunk = *r.pick(&[1u64, 7, 1000, 65536, 300000]);
    let kb = if chunk < 100 { kb.min(4) } else { kb };
    format!("{loops} {pairs} {kb} {chunk}")
}

static INTACT: AtomicU64 = AtomicU64::new(0);
static DONE: AtomicU64 = AtomicU64::new(0);

fn tcp_pair() -> (i32, i32) {
    use std::os::fd::IntoRawFd;
    let l = std::net::TcpListener::bind("127.0.0.1:0").expect("bind");
    let a = std::net::TcpStream::connect(l.local_addr().unwrap()).expect("connect");
    let (b, _) = l.accept().expect("accept");
    (a.into_raw_fd(), b.into_raw_fd())
}
fn byte_at(pair: u64, i: usize) -> u8 { (pair as usize * 131 + i * 7 + i / 251) as u8 }

pub fn exec(body: &str, emit: &mut dyn FnMut(&str)) {
    std::panic::set_hook(Box::new(|_| {}));
    let w: Vec<u64> = body.split_whitespace().filter_map(|x| x.parse().ok()).collect();
    if w.len() != 4 { emit("BADCASE"); return; }
    let (loops, pairs, kb, chunk) = (w[0] as usize, w[1], w[2], w[3] as usize);
    let total = (kb * 1024) as usize;
    let mut cfg = Config::single();
    _ = cfg.set_event_loop_size(loops).set_hook(false).set_max_size(64);
    EventLoops::init(&cfg);
    let start = Instant::now();
    for p in 0..pairs {
        let (a, b) = tcp_pair();
        let h = EventLoops::submit_task(None, move |_| {
            let data: Vec<u8> = (0..total).map(|i| byte_at(p, i)).collect();
            let mut off = 0;
            while off < total {
                let n = chunk.min(total - off);
                let r = open_coroutine_core::syscall::send(None, a, data[off..].as_ptr().cast(), n, 0);
                if r <= 0 { break; }
                off += r as usize;
            }
            unsafe { libc::shutdown(a, libc::SHUT_WR); }
            DONE.fetch_add(1, Ordering::SeqCst);
            Some(off)
        }, None, None);
        std::mem::forget(h);
        let h = EventLoops::submit_task(None, move |_| {
            let mut buf = vec![0u8; chunk.max(1).min(1 << 20)];
            let mut got = 0usize;
            let mut good = true;
            loop {
                let r = open_coroutine_core::syscall::recv(None, b, buf.as_mut_ptr().cast(), buf.len(), 0);
                if r <= 0 { break; }
                for (k, &x) in buf[..r as usize].iter().enumerate() { if x != byte_at(p, got + k) { good = false; } }
                got += r as usize;
            }
            if good && got == total { INTACT.fetch_add(1, Ordering::SeqCst); }
            DONE.fetch_add(1, Ordering::SeqCst);
            _ = open_coroutine_core::syscall::close(None, a); _ = open_coroutine_core::syscall::close(None, b);
            Some(got)
        }, None, None);
        std::mem::forget(h);
    }
    let budget = Duration::from_millis(6000 + kb * pairs);
    while DONE.load(Ordering::SeqCst) < 2 * pairs && start.elapsed() < budget { std::thread::sleep(Duration::from_millis(5)); }
    emit(&format!("intact={}/{pairs} unfinished={}", INTACT.load(Ordering::SeqCst), 2 * pairs - DONE.load(Ordering::SeqCst)));
}
