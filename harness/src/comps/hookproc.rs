//! C19 (and the hook layer itself) at the level of a whole process: the helper `ochhook` links the hook *dylib* built
//! from /repo/hook as an application does and then uses plain libc calls (socketpair, setsockopt, recv, close).
//! body: `<limit ms> <close|keep> <new limit ms> <write after ms>` (see ../../harness_hook/src/main.rs)
//! out : `reused=<0|1> first=<ret>:<errno>|- second=<ret>:<errno> at=<limit|newlimit|write|other>`
//!   at = which of the three times of the case the duration of the second recv is closest to (within a factor of 1.6)
//! body: `nb <blocking 0|1> <limit ms>` (C18)  out: `ret=<r>:<errno> flag=<0|1> at=<now|limit|other>`
//! body: `sl <sleep|usleep|nanosleep> <ms>` (C14) out: `ret=<r> at=<requested|early|late>` (late = more than 50 % + 500 ms over)
use crate::rng::Rng;
use std::process::Command;

pub fn gen(r: &mut Rng, _thorough: bool) -> String {
    match r.below(5) {
        0 => { let blocking = r.below(2); let lim = *r.pick(&[0u64, 300, 300, 600]); return format!("nb {blocking} {}", if blocking == 1 && lim == 0 { 300 } else { lim }); }
        1 => { let c = *r.pick(&["sleep", "usleep", "nanosleep", "nanosleep"]); return format!("sl {c} {}", if c == "sleep" { 1000 } else { *r.pick(&[1u64, 30, 120, 400]) }); }
        _ => {}
    }
    // the three times of a case are a factor of two or more apart, so that a loaded machine cannot blur them
    let limit = *r.pick(&[0u64, 100, 100, 100]);
    let close = *r.pick(&["close", "close", "keep"]);
    let (newl, w) = *r.pick(&[(0u64, 900u64), (0, 900), (350, 900), (2200, 900), (350, 0)]);
    format!("{limit} {close} {newl} {w}")
}

pub fn exec(body: &str, emit: &mut dyn FnMut(&str)) {
    let w: Vec<&str> = body.split_whitespace().collect();
    if w.len() != 4 && !(w.len() == 3 && (w[0] == "nb" || w[0] == "sl")) { emit("BADCASE"); return; }
    let dir = concat!(env!("CARGO_MANIFEST_DIR"), "/../harness_hook");
    let out = Command::new(format!("{dir}/target/debug/ochhook"))
        .args(&w)
        .env("LD_LIBRARY_PATH", format!("{dir}/target_hooklib/debug"))
        .output();
    let Ok(out) = out else { emit("NOHELPER"); return; };
    let text = String::from_utf8_lossy(&out.stdout);
    if w[0] == "nb" || w[0] == "sl" {
        let Some(line) = text.lines().rev().find(|l| l.starts_with("ret=")) else { emit(&format!("ABORT status={:?}", out.status.code())); return; };
        let ms: f64 = line.split_whitespace().find_map(|t| t.strip_prefix("ms=")).and_then(|x| x.parse().ok()).unwrap_or(-1.0);
        let want: f64 = w[2].parse().unwrap_or(0.0);
        let at = if w[0] == "nb" {
            if ms < 120.0 { "now" } else if want > 0.0 && ms > want * 0.6 && ms < want * 1.7 { "limit" } else { "other" }
        } else if ms + 0.5 < want { "early" } else if ms > want * 1.5 + 500.0 { "late" } else { "requested" };
        let kept: Vec<&str> = line.split_whitespace().filter(|t| !t.starts_with("ms=")).collect();
        emit(&format!("{} at={at}", kept.join(" ")));
        return;
    }
    let Some(line) = text.lines().rev().find(|l| l.starts_with("reused=")) else {
        emit(&format!("ABORT status={:?}", out.status.code())); return;
    };
    // discretise the duration: nearest of the case's own three times
    let num = |i: usize| w[i].parse::<f64>().unwrap_or(0.0);
    let ms: f64 = line.split_whitespace().find_map(|t| t.strip_prefix("ms=")).and_then(|x| x.parse().ok()).unwrap_or(-1.0);
    let cands = [("limit", num(0)), ("newlimit", num(2)), ("write", num(3))];
    let mut at = "other";
    let mut best = f64::MAX;
    for (n, v) in cands { if v > 0.0 && ms > 0.0 { let d = (ms / v).ln().abs(); if d < 1.6f64.ln() && d < best { best = d; at = n; } } }
    let kept: Vec<&str> = line.split_whitespace().filter(|t| !t.starts_with("ms=")).collect();
    emit(&format!("{} at={at}", kept.join(" ")));
}
