//! C03 (concurrent part) / C01 support: real threads on the real queues; compared at quiescence.
//! body: `<oq|pq> <threads> <per_thread_ops> <cap> <mode>`  mode: shared | local | mixed | starved
//!   starved: even threads only push to the shared queue, odd threads only pop it, so pops keep
//!   meeting a (nearly) empty queue while pushes are in flight
//! out : `lenminusheld=<d> dup=<n> lost=<n> phantom=<n>`
use crate::rng::Rng;
use open_coroutine_core::common::ordered_work_steal::{OrderedLocalQueue, OrderedWorkStealQueue};
use open_coroutine_core::common::work_steal::{LocalQueue, WorkStealQueue};
use std::sync::{Arc, Barrier, Mutex};

pub fn gen(r: &mut Rng, thorough: bool) -> String {
    let kind = if r.chance(2, 3) { "oq" } else { "pq" };
    let threads = r.range(2, if thorough { 12 } else { 8 });
    let per = if thorough { r.range(2000, 40000) } else { r.range(1000, 8000) };
    let cap = *r.pick(&[1u64, 2, 4, 8, 64, 256]);
    let mode = *r.pick(&["shared", "shared", "local", "mixed", "starved", "starved"]);
    format!("{kind} {threads} {per} {cap} {mode}")
}

trait Q: 'static {
    fn gpush(&self, x: usize, p: i64);
    fn gpop(&self) -> Option<usize>;
    fn glen(&self) -> usize;
}
trait L {
    fn lpush(&self, x: usize, p: i64);
    fn lpop(&self) -> Option<usize>;
}
impl Q for OrderedWorkStealQueue<usize> {
    fn gpush(&self, x: usize, p: i64) { self.push_with_priority(p, x) }
    fn gpop(&self) -> Option<usize> { self.pop() }
    fn glen(&self) -> usize { self.len() }
}
impl Q for WorkStealQueue<usize> {
    fn gpush(&self, x: usize, _p: i64) { self.push(x) }
    fn gpop(&self) -> Option<usize> { self.pop() }
    fn glen(&self) -> usize { self.len() }
}
impl L for OrderedLocalQueue<'static, usize> {
    fn lpush(&self, x: usize, p: i64) { self.push_with_priority(p, x) }
    fn lpop(&self) -> Option<usize> { self.pop() }
}
impl L for LocalQueue<'static, usize> {
    fn lpush(&self, x: usize, _p: i64) { self.push(x) }
    fn lpop(&self) -> Option<usize> { self.pop() }
}

fn run<QQ: Q, LL: L + 'static>(q: &'static QQ, mk_local: fn(&'static QQ) -> LL, threads: usize, per: usize, mode: &str) -> String {
    let qaddr = q as *const QQ as usize;
    let barrier = Arc::new(Barrier::new(threads));
    let popped: Arc<Mutex<Vec<usize>>> = Arc::new(Mutex::new(Vec::new()));
    // local handles are created on this thread (round-robin index), then moved by address
    let locals: Vec<usize> = (0..threads).map(|_| Box::leak(Box::new(mk_local(q))) as *const LL as usize).collect();
    let mut hs = Vec::new();
    for t in 0..threads {
        let barrier = barrier.clone();
        let popped = popped.clone();
        let laddr = locals[t];
        let mode = mode.to_string();
        hs.push(std::thread::spawn(move || {
            let q: &QQ = unsafe { &*(qaddr as *const QQ) };
            let l: &LL = unsafe { &*(laddr as *const LL) };
            let mut rng = Rng::new(t as u64 + 1);
            let mut mine = Vec::new();
            barrier.wait();
            if mode == "starved" {
                if t % 2 == 0 {
                    for k in 0..per { q.gpush(t * per + k, rng.below(3) as i64 - 1); if k % 64 == 0 { std::thread::yield_now(); } }
                } else {
                    for _ in 0..per * 3 { if let Some(x) = q.gpop() { mine.push(x); } }
                }
                // ids of the popper threads are never pushed: they count as present below
                popped.lock().unwrap().extend(mine);
                if t % 2 == 1 { popped.lock().unwrap().extend((0..per).map(|k| t * per + k)); }
                return;
            }
            for k in 0..per {
                let id = t * per + k;
                let p = rng.below(3) as i64 - 1;
                let use_local = match mode.as_str() { "shared" => false, "local" => true, _ => rng.chance(1, 2) };
                if use_local { l.lpush(id, p) } else { q.gpush(id, p) }
                if rng.chance(2, 5) {
                    let r = if use_local || rng.chance(1, 2) && mode != "shared" { l.lpop() } else { q.gpop() };
                    if let Some(x) = r { mine.push(x); }
                }
            }
            popped.lock().unwrap().extend(mine);
        }));
    }
    for h in hs { h.join().unwrap(); }
    // quiescent: compare the counter with what the shared queue holds, then drain everything
    let mut all = popped.lock().unwrap().clone();
    let len = q.glen();
    let mut held = 0usize;
    // drain local queues through their owners' handles first (local pops may also serve the shared queue)
    let mut from_locals = Vec::new();
    if mode == "shared" || mode == "starved" {
        while let Some(x) = q.gpop() { held += 1; all.push(x); }
    } else {
        // count what the shared queue holds without disturbing: pop all, remember, then continue draining
        let mut tmp = Vec::new();
        while let Some(x) = q.gpop() { tmp.push(x); }
        held = tmp.len();
        all.extend(tmp);
        for &la in &locals {
            let l: &LL = unsafe { &*(la as *const LL) };
            while let Some(x) = l.lpop() { from_locals.push(x); }
        }
        while let Some(x) = q.gpop() { from_locals.push(x); }
        all.extend(from_locals);
    }
    let total = threads * per;
    let mut seen = vec![0u32; total];
    let mut phantom = 0;
    for &x in &all { if x < total { seen[x] += 1; } else { phantom += 1; } }
    let dup = seen.iter().filter(|&&c| c > 1).count();
    let lost = seen.iter().filter(|&&c| c == 0).count();
    format!("lenminusheld={} dup={} lost={} phantom={}", len as i64 - held as i64, dup, lost, phantom)
}

pub fn exec(body: &str, emit: &mut dyn FnMut(&str)) {
    let t: Vec<&str> = body.split_whitespace().collect();
    if t.len() != 5 { emit("BADCASE"); return; }
    let (threads, per, cap): (usize, usize, usize) = (t[1].parse().unwrap(), t[2].parse().unwrap(), t[3].parse().unwrap());
    let out = match t[0] {
        "oq" => {
            let q: &'static OrderedWorkStealQueue<usize> = Box::leak(Box::new(OrderedWorkStealQueue::new(threads, cap)));
            run(q, |q| q.local_queue(), threads, per, t[4])
        }
        "pq" => {
            let q: &'static WorkStealQueue<usize> = Box::leak(Box::new(WorkStealQueue::new(threads, cap)));
            run(q, |q| q.local_queue(), threads, per, t[4])
        }
        _ => "BADCASE".to_string(),
    };
    emit(&out);
}
