//! Run one case in a forked child with a watchdog: abort and hang become outcomes.
use std::io::{Read, Write};
use std::os::unix::io::FromRawFd;

pub enum Outcome { Done(String), Abort(i32), Hang, Exit(i32) }

pub fn isolated<F: FnOnce() -> String>(timeout_ms: u64, f: F) -> Outcome {
    unsafe {
        let mut fds = [0i32; 2];
        assert_eq!(0, libc::pipe(fds.as_mut_ptr()));
        let _ = std::io::stdout().flush();
        let pid = libc::fork();
        assert!(pid >= 0, "fork failed");
        if pid == 0 {
            libc::close(fds[0]);
            // silence panic messages / repo logging of the child
            let devnull = libc::open(b"/dev/null\0".as_ptr().cast(), libc::O_WRONLY);
            if std::env::var_os("OCH_CHILD_STDERR").is_none() { libc::dup2(devnull, 2); }
            libc::dup2(devnull, 1);
            let out = f();
            let mut w = std::fs::File::from_raw_fd(fds[1]);
            let _ = w.write_all(out.as_bytes());
            let _ = w.flush();
            libc::_exit(0);
        }
        libc::close(fds[1]);
        // reader with deadline: poll the pipe until EOF or timeout
        let mut r = std::fs::File::from_raw_fd(fds[0]);
        let mut buf = Vec::new();
        let start = std::time::Instant::now();
        let mut hang = false;
        loop {
            let left = timeout_ms as i64 - start.elapsed().as_millis() as i64;
            if left <= 0 { hang = true; break; }
            let mut pfd = libc::pollfd { fd: fds[0], events: libc::POLLIN, revents: 0 };
            let pr = libc::poll(&mut pfd, 1, left.min(1000) as i32);
            if pr > 0 {
                let mut tmp = [0u8; 65536];
                match r.read(&mut tmp) {
                    Ok(0) => break,
                    Ok(n) => buf.extend_from_slice(&tmp[..n]),
                    Err(_) => break,
                }
            }
        }
        let mut status = 0i32;
        if hang {
            libc::kill(pid, libc::SIGKILL);
            libc::waitpid(pid, &mut status, 0);
            return Outcome::Hang;
        }
        // EOF: child closed the pipe (exit or death); reap it, with a grace period
        let t1 = std::time::Instant::now();
        loop {
            let w = libc::waitpid(pid, &mut status, libc::WNOHANG);
            if w == pid { break; }
            if t1.elapsed().as_millis() as u64 > timeout_ms { libc::kill(pid, libc::SIGKILL); libc::waitpid(pid, &mut status, 0); return Outcome::Hang; }
            std::thread::sleep(std::time::Duration::from_micros(200));
        }
        if libc::WIFSIGNALED(status) { return Outcome::Abort(libc::WTERMSIG(status)); }
        let code = libc::WEXITSTATUS(status);
        if code != 0 { return Outcome::Exit(code); }
        Outcome::Done(String::from_utf8_lossy(&buf).into_owned())
    }
}

pub fn render(o: Outcome) -> String {
    match o {
        Outcome::Done(s) => s,
        Outcome::Abort(sig) => format!("ABORT sig={sig}"),
        Outcome::Hang => "HANG".to_string(),
        Outcome::Exit(c) => format!("EXIT code={c}"),
    }
}
