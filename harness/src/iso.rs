//! Run one case in a forked child with a watchdog: abort and hang become outcomes.
//! The child streams one output per op (separated by 0x1f) so that the outputs produced before
//! a hang or abort are kept; the abnormal end is appended as a final output `HANG` / `ABORT sig=N`.
use std::io::{Read, Write};
use std::os::unix::io::FromRawFd;

pub fn isolated<F: FnOnce(&mut dyn FnMut(&str))>(timeout_ms: u64, f: F) -> String {
    unsafe {
        let mut fds = [0i32; 2];
        assert_eq!(0, libc::pipe(fds.as_mut_ptr()));
        let _ = std::io::stdout().flush();
        let pid = libc::fork();
        assert!(pid >= 0, "fork failed");
        if pid == 0 {
            libc::close(fds[0]);
            let devnull = libc::open(b"/dev/null\0".as_ptr().cast(), libc::O_WRONLY);
            if std::env::var_os("OCH_CHILD_STDERR").is_none() { libc::dup2(devnull, 2); }
            libc::dup2(devnull, 1);
            let mut w = std::fs::File::from_raw_fd(fds[1]);
            let mut emit = |o: &str| {
                let _ = w.write_all(o.as_bytes());
                let _ = w.write_all(&[0x1f]);
                let _ = w.flush();
            };
            f(&mut emit);
            libc::_exit(0);
        }
        libc::close(fds[1]);
        let mut r = std::fs::File::from_raw_fd(fds[0]);
        let mut buf = Vec::new();
        let start = std::time::Instant::now();
        let mut hang = false;
        // A case hangs when the child has *used* its budget of CPU time (a spin), or when it has made no
        // progress for a generous multiple of the budget on the wall clock (a block): a child that is merely
        // starved by other load on the machine is not a hang.
        let wall_limit = timeout_ms * 4 + 2000;
        let tick_ms = 1000 / (libc::sysconf(libc::_SC_CLK_TCK).max(1) as u64);
        let cpu_ms = |pid: i32| -> u64 {
            std::fs::read_to_string(format!("/proc/{pid}/stat")).ok().and_then(|st| {
                let rest = st.rsplit_once(") ")?.1.to_string();
                let f: Vec<&str> = rest.split_whitespace().collect();
                Some((f.get(11)?.parse::<u64>().ok()? + f.get(12)?.parse::<u64>().ok()?) * tick_ms)
            }).unwrap_or(0)
        };
        loop {
            let wall = start.elapsed().as_millis() as u64;
            if wall >= wall_limit || (wall >= timeout_ms && cpu_ms(pid) >= timeout_ms) {
                if std::env::var_os("OCH_HANG_DEBUG").is_some() { eprintln!("HANG-1 wall={wall} cpu={} limit={timeout_ms}", cpu_ms(pid)); }
                hang = true; break;
            }
            let left = (wall_limit - wall) as i64;
            let mut pfd = libc::pollfd { fd: fds[0], events: libc::POLLIN, revents: 0 };
            let pr = libc::poll(&mut pfd, 1, left.min(100) as i32);
            if pr > 0 {
                let mut tmp = [0u8; 65536];
                match r.read(&mut tmp) {
                    Ok(0) => break,
                    Ok(n) => buf.extend_from_slice(&tmp[..n]),
                    Err(_) => break,
                }
            }
        }
        let mut status = 0i32;
        let mut tail: Option<String> = None;
        if hang {
            libc::kill(pid, libc::SIGKILL);
            libc::waitpid(pid, &mut status, 0);
            tail = Some("HANG".into());
        } else {
            let t1 = std::time::Instant::now();
            loop {
                let w = libc::waitpid(pid, &mut status, libc::WNOHANG);
                if w == pid { break; }
                if t1.elapsed().as_millis() as u64 > wall_limit {
                    if std::env::var_os("OCH_HANG_DEBUG").is_some() { eprintln!("HANG-2 waited={} cpu={}", t1.elapsed().as_millis(), cpu_ms(pid)); }
                    libc::kill(pid, libc::SIGKILL);
                    libc::waitpid(pid, &mut status, 0);
                    tail = Some("HANG".into());
                    break;
                }
                std::thread::sleep(std::time::Duration::from_micros(100));
            }
            if tail.is_none() {
                if libc::WIFSIGNALED(status) { tail = Some(format!("ABORT sig={}", libc::WTERMSIG(status))); }
                else if libc::WEXITSTATUS(status) != 0 { tail = Some(format!("EXIT code={}", libc::WEXITSTATUS(status))); }
            }
        }
        let text = String::from_utf8_lossy(&buf).into_owned();
        let mut outs: Vec<String> = text.split('\u{1f}').map(|s| s.to_string()).collect();
        if outs.last().map(|s| s.is_empty()).unwrap_or(false) { outs.pop(); }
        if let Some(t) = tail { outs.push(t); }
        outs.join(" | ")
    }
}
