fn main() {
    // the dylib is built by ../harness/prebuild.sh from /repo/hook (current working tree) into target_hooklib
    let dir = std::path::Path::new(env!("CARGO_MANIFEST_DIR")).join("target_hooklib").join("debug");
    println!("cargo:rustc-link-search=native={}", dir.display());
    println!("cargo:rustc-link-lib=dylib=open_coroutine_hook");
    println!("cargo:rerun-if-changed=build.rs");
}
