//! One scenario per process, through the hook dylib exactly as an application sees it: plain libc calls.
//! args: `nb <blocking 0|1> <limit ms>`: recv on an empty socket in the given mode (SO_RCVTIMEO = limit if > 0);
//!          out `ret=<r>:<errno> flag=<0 blocking|1 non-blocking afterwards> ms=<duration>`
//!       `sl <sleep|usleep|nanosleep> <ms>`: the timed call from a plain thread; out `ret=<r> ms=<duration>`
//! or    `<limit ms> <close|keep> <new limit ms> <write after ms>`
//!   socket pair A, SO_RCVTIMEO = limit on A (if > 0) and a recv on the empty A; A is closed (or kept); socket pair B
//!   (it gets A's descriptor numbers again when A was closed), SO_RCVTIMEO = new limit on B (if > 0); a thread writes
//!   3 bytes to B's peer after `write after` ms (if > 0); recv on B.
//! out: `reused=<0|1> first=<ret>:<errno> second=<ret>:<errno> ms=<coarse bucket of the second recv's duration>`
use open_coroutine_core::config::Config;
use std::time::{Duration, Instant};

extern "C" {
    fn open_coroutine_init(config: Config) -> libc::c_int;
}

fn pair() -> [i32; 2] {
    let mut sv = [0i32; 2];
    unsafe { libc::socketpair(libc::AF_UNIX, libc::SOCK_STREAM, 0, sv.as_mut_ptr()); }
    sv
}
fn set_limit(fd: i32, ms: u64) {
    let tv = libc::timeval { tv_sec: (ms / 1000) as i64, tv_usec: ((ms % 1000) * 1000) as i64 };
    unsafe { libc::setsockopt(fd, libc::SOL_SOCKET, libc::SO_RCVTIMEO, (&tv as *const libc::timeval).cast(), std::mem::size_of::<libc::timeval>() as u32); }
}
fn errno() -> i32 { unsafe { *libc::__errno_location() } }

fn main() {
    let a: Vec<String> = std::env::args().collect();
    if a.len() == 4 && a[1] == "nb" { return nonblocking(a[2] == "1", a[3].parse().unwrap_or(0)); }
    if a.len() == 4 && a[1] == "sl" { return sleeper(&a[2], a[3].parse().unwrap_or(0)); }
    if a.len() != 5 { println!("BADCASE"); return; }
    let limit: u64 = a[1].parse().unwrap_or(0);
    let close = a[2] == "close";
    let new_limit: u64 = a[3].parse().unwrap_or(0);
    let write_after: u64 = a[4].parse().unwrap_or(0);
    let mut cfg = Config::single();
    _ = cfg.set_hook(true);
    unsafe { open_coroutine_init(cfg); }
    let mut buf = [0u8; 8];
    let sa = pair();
    let mut first = "-".to_string();
    if limit > 0 {
        set_limit(sa[0], limit);
        let r = unsafe { libc::recv(sa[0], buf.as_mut_ptr().cast(), 8, 0) };
        first = format!("{r}:{}", if r < 0 { errno() } else { 0 });
    }
    if close { unsafe { libc::close(sa[0]); libc::close(sa[1]); } }
    let sb = pair();
    let reused = sb[0] == sa[0];
    if new_limit > 0 { set_limit(sb[0], new_limit); }
    if write_after > 0 {
        let w = sb[1];
        std::thread::spawn(move || { std::thread::sleep(Duration::from_millis(write_after)); let x = [1u8, 2, 3]; unsafe { libc::write(w, x.as_ptr().cast(), 3); } });
    }
    let t = Instant::now();
    let r = unsafe { libc::recv(sb[0], buf.as_mut_ptr().cast(), 8, 0) };
    let e = if r < 0 { errno() } else { 0 };
    let ms = t.elapsed().as_millis() as u64;
    println!("reused={} first={first} second={r}:{e} ms={ms}", if reused { 1 } else { 0 });
}

fn init() {
    let mut cfg = Config::single();
    _ = cfg.set_hook(true);
    unsafe { open_coroutine_init(cfg); }
}

fn nonblocking(blocking: bool, limit: u64) {
    init();
    let sv = pair();
    if limit > 0 { set_limit(sv[0], limit); }
    unsafe {
        let fl = libc::fcntl(sv[0], libc::F_GETFL);
        libc::fcntl(sv[0], libc::F_SETFL, if blocking { fl & !libc::O_NONBLOCK } else { fl | libc::O_NONBLOCK });
    }
    let mut buf = [0u8; 8];
    let t = Instant::now();
    let r = unsafe { libc::recv(sv[0], buf.as_mut_ptr().cast(), 8, 0) };
    let e = if r < 0 { errno() } else { 0 };
    let ms = t.elapsed().as_millis();
    let fl = unsafe { libc::fcntl(sv[0], libc::F_GETFL) };
    println!("ret={r}:{e} flag={} ms={ms}", if fl & libc::O_NONBLOCK != 0 { 1 } else { 0 });
}

fn sleeper(call: &str, ms: u64) {
    init();
    let t = Instant::now();
    let r: i64 = unsafe {
        match call {
            "sleep" => i64::from(libc::sleep((ms / 1000) as u32)),
            "usleep" => i64::from(libc::usleep((ms * 1000) as u32)),
            _ => { let ts = libc::timespec { tv_sec: (ms / 1000) as i64, tv_nsec: ((ms % 1000) * 1_000_000) as i64 }; i64::from(libc::nanosleep(&ts, std::ptr::null_mut())) }
        }
    };
    println!("ret={r} ms={}", t.elapsed().as_millis());
}
