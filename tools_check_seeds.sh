#!/bin/bash
# Re-validate every kept seeded change against the current /repo HEAD: apply, run the property's quick
# check (must report a VIOLATION), undo. Never leaves /repo modified. Writes seeded/STATUS.md.
cd /verif
out=seeded/STATUS.md
echo "# seeded changes against /repo $(git -C /repo rev-parse --short HEAD) ($(date -u +%F))" > $out
echo "" >> $out
echo "| property | applies | check result |" >> $out
echo "|---|---|---|" >> $out
for d in seeded/C*/; do
  name=$(basename $d)
  id=${name%b}   # seeded/C05b is a further change for property C05
  if [ -n "$(git -C /repo status --porcelain --untracked-files=no)" ]; then echo "/repo is dirty, stopping" >&2; exit 2; fi
  how=clean
  if ! git -C /repo apply --check $PWD/$d/patch.diff 2>/dev/null; then
    if git -C /repo apply -3 $PWD/$d/patch.diff 2>/dev/null; then how=3way; git -C /repo reset -q; else how=NO; git -C /repo reset -q; git -C /repo checkout -- .; fi
  else git -C /repo apply $PWD/$d/patch.diff; fi
  if [ $how = NO ]; then echo "| $name | does not apply | - |" >> $out; continue; fi
  res=$(timeout 1500 ./check $id 2>&1 | grep -E "^VIOLATION|^\[C" | tr '\n' ' ' | cut -c1-220)
  git -C /repo reset -q; git -C /repo checkout -- .
  echo "| $name | $how | $res |" >> $out
done
cat $out
