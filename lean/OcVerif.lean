import OcVerif.Util
import OcVerif.Model.TimeHelpers
import OcVerif.Spec.C28
import OcVerif.Props.C28
