import OcVerif.Util
import OcVerif.Driver.Time
import OcVerif.Driver.Queue
import OcVerif.Driver.QConc
import OcVerif.Driver.Nio
import OcVerif.Driver.TLCache
import OcVerif.Driver.HookProc
import OcVerif.Driver.Timeouts
import OcVerif.Driver.RtWait
import OcVerif.Driver.RtLoop
import OcVerif.Driver.RtWake
import OcVerif.Driver.RtCancel
import OcVerif.Driver.RtStop
import OcVerif.Driver.RtSock
import OcVerif.Driver.RtConn
import OcVerif.Driver.RtPrio
import OcVerif.Driver.RtTrap
import OcVerif.Driver.RtGrow
import OcVerif.Driver.Co
import OcVerif.Driver.Local
import OcVerif.Driver.Beans
import OcVerif.Driver.Sel
import OcVerif.Driver.Stack
import OcVerif.Driver.Trap
import OcVerif.Driver.Sched
import OcVerif.Driver.Pool
import OcVerif.Driver.Join
import OcVerif.Driver.Rt
import OcVerif.Driver.MPool
import OcVerif.Driver.Once
import OcVerif.Driver.Sleepers
import OcVerif.Driver.Pre
import OcVerif.Driver.UringD
/-!
`ocmodel`: reads history lines `<comp> <id> : <body> => <implementation outputs>` on stdin,
runs the Lean model on `<body>`, compares with the implementation's outputs and evaluates the
executable specifications on the implementation's history. One result line per input line:

  `R <comp> <id> agree=<0|1> blame=<Cxx,..> spec=<Cxx:0|1,...> labels=<a,b> :: model=<...> :: impl=<...> :: detail=<...>`
-/
open Oc

def dispatch (comp : String) : Option (String → String → Verdict) :=
  match comp with
  | "time" => some Driver.Time.drive
  | "oq" => some Driver.Queue.driveOq
  | "pq" => some Driver.Queue.drivePq
  | "qconc" => some Driver.QConc.drive
  | "nio" => some Driver.Nio.drive
  | "tlcache" => some Driver.TLCache.drive
  | "hookproc" => some Driver.HookProc.drive
  | "timeouts" => some Driver.Timeouts.drive
  | "rtwait" => some Driver.RtWait.drive
  | "rtloop" => some Driver.RtLoop.drive
  | "rtwake" => some Driver.RtWake.drive
  | "rtcancel" => some Driver.RtCancel.drive
  | "rtstop" => some Driver.RtStop.drive
  | "rtsock" => some Driver.RtSock.drive
  | "rtconn" => some Driver.RtConn.drive
  | "rtprio" => some Driver.RtPrio.drive
  | "rttrap" => some Driver.RtTrap.drive
  | "rtgrow" => some Driver.RtGrow.drive
  | "co" => some Driver.Co.drive
  | "local" => some Driver.Local.drive
  | "beans" => some Driver.Beans.drive
  | "sel" => some Driver.Sel.drive
  | "stack" => some Driver.Stack.drive
  | "trap" => some Driver.Trap.drive
  | "sched" => some Driver.Sched.drive
  | "pool" => some Driver.Pool.drive
  | "join" => some Driver.Join.drive
  | "rt" => some Driver.Rt.drive
  | "mpool" => some Driver.MPool.drive
  | "once" => some Driver.Once.drive
  | "sleepers" => some Driver.Sleepers.drive
  | "pre" => some Driver.Pre.drive
  | "uring" => some Driver.UringD.drive
  | _ => none

def handle (line : String) : String :=
  let (lhs, impl) := match line.splitOn " => " with
    | [a, b] => (a, b.trimAscii.toString)
    | [a] => (a, "")
    | a :: rest => (a, (String.intercalate " => " rest).trimAscii.toString)
    | [] => ("", "")
  let (head, body) := match lhs.splitOn " : " with
    | [h] => (h, "")
    | h :: rest => (h, String.intercalate " : " rest)
    | [] => ("", "")
  match words head with
  | [comp, id] =>
    match dispatch comp with
    | none => s!"E {comp} {id} unknown-component"
    | some f =>
      let v := f body.trimAscii.toString impl
      let same := v.modelOut.trimAscii.toString == impl
      let blamed : List String := if same then [] else match v.blame with
        | some l => l
        | none => v.spec.map (·.1)
      let agree := blamed.isEmpty
      let spec := joinWith "," (v.spec.map fun (p, b, _) => s!"{p}:{boolStr b}")
      let detail := joinWith " ;; " ((v.spec.filter (fun x => !x.2.1)).map fun (p, _, d) => s!"{p}: {d}")
      s!"R {comp} {id} agree={boolStr agree} blame={joinWith "," blamed} spec={spec} labels={joinWith "," v.labels} :: model={v.modelOut} :: impl={impl} :: detail={detail}"
  | _ => s!"E ? ? malformed-line"

partial def loop (h : IO.FS.Stream) (out : IO.FS.Stream) : IO Unit := do
  let line ← h.getLine
  if line.isEmpty then return ()
  let l := line.trimAscii.toString
  if l ≠ "" then out.putStrLn (handle l)
  loop h out

def main : IO Unit := do
  loop (← IO.getStdin) (← IO.getStdout)
