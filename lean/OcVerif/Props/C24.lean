import OcVerif.Model.Trap
/-!
# C24 — a memory fault in a coroutine only fails that coroutine
-/
namespace Oc.Props.C24
open Oc.Trap

/-- The fault is reported as a stack overflow exactly when the faulting stack pointer lies outside
all of the coroutine's stack segments. -/
theorem C24_message (segs : List Seg) (sp : Nat) :
    trapMsg segs sp = "stack overflow" ↔ ¬ ∃ s ∈ segs, s.bottom ≤ sp ∧ sp < s.top := by
  unfold trapMsg inBounds
  by_cases h : (segs.any fun s => decide (s.bottom ≤ sp) && decide (sp < s.top)) = true
  · simp only [h, if_true]
    constructor
    · intro hh; exact absurd hh (by decide)
    · intro hn
      exfalso; apply hn
      obtain ⟨s, hs, hb⟩ := List.any_eq_true.mp h
      simp only [Bool.and_eq_true, decide_eq_true_eq] at hb
      exact ⟨s, hs, hb⟩
  · simp only [h, Bool.false_eq_true, if_false, true_iff]
    rintro ⟨s, hs, hb⟩
    apply h
    exact List.any_eq_true.mpr ⟨s, hs, by simp [hb.1, hb.2]⟩

/-- A fault ends that coroutine with an error (it never runs again) … -/
theorem C24_fault_is_error (c : TCo) (sp : Nat) (rest : List Step) (ha : c.st = .alive) (hp : c.prog = .fault sp :: rest) :
    (resume1 c).2 = .error (trapMsg c.segs sp) ∧ (resume1 (resume1 c).1).2 = .error (trapMsg c.segs sp) ∧
    (resume1 (resume1 c).1).1 = (resume1 c).1 := by
  simp [resume1, ha, hp]

/-- … and resuming coroutine `i` — faulting or not — leaves every other coroutine of the thread
exactly as it was: the resuming thread and all other coroutines continue normally. -/
theorem C24_contained (cos : List TCo) (i j : Nat) (hij : j ≠ i) :
    (resumeAt cos i).1[j]? = cos[j]? := by
  unfold resumeAt
  cases h : cos[i]? with
  | none => rfl
  | some c => simp [List.getElem?_set, Ne.symm hij]

/-- Hence a healthy coroutine's results do not depend on whether some other coroutine faults:
replacing another coroutine's program changes nothing for it. -/
theorem C24_others_unaffected (cos : List TCo) (i j : Nat) (hij : j ≠ i) (c' : TCo) (hi : i < cos.length) :
    (resumeAt (cos.set i c') j).2 = (resumeAt cos j).2 := by
  unfold resumeAt
  simp [List.getElem?_set, hij.symm, Ne.symm hij.symm]
  cases h : cos[j]? <;> simp [h, hij]

example : trapMsg [⟨1000, 100⟩] 99 = "stack overflow" ∧ trapMsg [⟨1000, 100⟩] 100 = "invalid memory reference" ∧
    trapMsg [⟨1000, 100⟩] 1000 = "stack overflow" := by decide

end Oc.Props.C24
