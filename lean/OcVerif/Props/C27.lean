import OcVerif.Model.Uring
import OcVerif.Model.UringSq
/-!
# C27 — io_uring completions reach the call that submitted them

Every interleaving of any number of callers' steps with the kernel's completions (any order, any
time, any results), on the routing model of `Model/Uring.lean`.
-/
namespace Oc.Props.C27
open Oc.Uring List

theorem pcOf_setPc_same (σ : Sys) (t : Nat) (p : Pc) : pcOf (setPc σ t p) t = p := by
  simp [pcOf, setPc]

theorem pcOf_setPc_other (σ : Sys) (t u : Nat) (p : Pc) (h : u ≠ t) : pcOf (setPc σ t p) u = pcOf σ u := by
  unfold pcOf setPc
  simp only [List.find?_cons]
  have : ((t, p).1 == u) = false := by simp [Ne.symm h]
  simp only [this]
  congr 2
  induction σ.pcs with
  | nil => rfl
  | cons e es ih =>
    simp only [List.filter_cons]
    by_cases he : e.1 = t
    · have h1 : (e.1 != t) = false := by simp [he]
      have h2 : (e.1 == u) = false := by simp [he, Ne.symm h]
      simp only [h1, Bool.false_eq_true, if_false, List.find?_cons, h2]; exact ih
    · have h1 : (e.1 != t) = true := by simp [he]
      simp only [h1, if_true, List.find?_cons]
      split
      · rfl
      · exact ih

/-- the inductive invariant of the order the code has now (slot first, then submit) -/
structure Inv (σ : Sys) : Prop where
  first : σ.slotFirst = true
  /-- a request is in the kernel only while its slot is registered and its caller waits -/
  inKernel : ∀ t, t ∈ σ.kernel → t ∈ keys σ.table ∧ pcOf σ t = .waiting
  noDrop : σ.dropped = []
  /-- a filled slot belongs to a waiting caller and is that caller's own answer -/
  inFilled : ∀ t v, (t, v) ∈ σ.filled → pcOf σ t = .waiting ∧ (t, v) ∈ σ.answered ∧ t ∉ σ.kernel
  /-- a registered slot belongs to a caller in the middle of its call -/
  inTable : ∀ t, t ∈ keys σ.table → pcOf σ t = .half ∨ (pcOf σ t = .waiting ∧ t ∈ σ.kernel)
  /-- between its two steps a caller has its slot registered and nothing in flight -/
  inHalf : ∀ t, pcOf σ t = .half → t ∈ keys σ.table ∧ t ∉ σ.kernel
  kernelNodup : σ.kernel.Nodup
  filledNodup : (keys σ.filled).Nodup

theorem inv_init : Inv {} :=
  ⟨rfl, by intro t h; simp at h, rfl, by intro t v h; simp at h, by intro t h; simp [keys] at h,
   by intro t h; simp [pcOf] at h, by simp, by simp [keys]⟩

theorem mem_keys {α : Type} (l : List (Nat × α)) (t : Nat) : t ∈ keys l ↔ ∃ v, (t, v) ∈ l := by
  unfold keys; simp

theorem keys_filter_ne {α : Type} (l : List (Nat × α)) (t u : Nat) :
    u ∈ keys (l.filter (fun e => e.1 != t)) ↔ (u ∈ keys l ∧ u ≠ t) := by
  simp only [mem_keys, List.mem_filter]
  constructor
  · rintro ⟨v, hv, hne⟩; exact ⟨⟨v, hv⟩, by simpa using hne⟩
  · rintro ⟨⟨v, hv⟩, hne⟩; exact ⟨v, hv, by simpa using hne⟩

theorem inv_step {σ σ' : Sys} (a : Act) (hi : Inv σ) (hs : step σ a = some σ') : Inv σ' := by
  obtain ⟨h1, h2, h3, h4, h5, hH, h6, h7⟩ := hi
  cases a with
  | call t =>
    simp only [step] at hs
    split at hs
    · -- start: register the slot
      rename_i hpc
      simp only [h1, if_true, Option.some.injEq] at hs; subst hs
      have hnk : t ∉ σ.kernel := by intro h; have := (h2 t h).2; rw [hpc] at this; simp at this
      have hnt : t ∉ keys σ.table := by
        intro h
        rcases h5 t h with h | ⟨h, _⟩ <;> (rw [hpc] at h; simp at h)
      refine ⟨rfl, ?_, h3, ?_, ?_, ?_, h6, h7⟩
      · intro u hu
        have hu' : u ∈ σ.kernel := hu
        have hne : u ≠ t := by intro h; subst h; exact hnk hu'
        obtain ⟨a, b⟩ := h2 u hu'
        exact ⟨by simp only [keys, setPc, List.map_cons, List.mem_cons]; exact Or.inr a, by rw [pcOf_setPc_other _ _ _ _ hne]; exact b⟩
      · intro u v huv
        have huv' : (u, v) ∈ σ.filled := huv
        obtain ⟨a, b, c⟩ := h4 u v huv'
        have hne : u ≠ t := by intro h; subst h; rw [hpc] at a; simp at a
        exact ⟨by rw [pcOf_setPc_other _ _ _ _ hne]; exact a, b, c⟩
      · intro u hu
        simp only [keys, setPc, List.map_cons, List.mem_cons] at hu
        rcases hu with rfl | hu
        · left; exact pcOf_setPc_same _ _ _
        · have hne : u ≠ t := by intro h; subst h; exact hnt hu
          rw [pcOf_setPc_other _ _ _ _ hne]
          exact h5 u hu
      · intro u hu
        by_cases hne : u = t
        · subst hne
          exact ⟨by simp [keys, setPc], hnk⟩
        · rw [pcOf_setPc_other _ _ _ _ hne] at hu
          obtain ⟨a, b⟩ := hH u hu
          exact ⟨by simp only [keys, setPc, List.map_cons, List.mem_cons]; exact Or.inr a, b⟩
    · -- half: hand the request to the kernel
      rename_i hpc
      simp only [h1, if_true, Option.some.injEq] at hs; subst hs
      obtain ⟨htab, hnk⟩ := hH t hpc
      refine ⟨rfl, ?_, h3, ?_, ?_, ?_, ?_, h7⟩
      · intro u hu
        simp only [setPc, List.mem_cons] at hu
        rcases hu with rfl | hu
        · exact ⟨htab, pcOf_setPc_same _ _ _⟩
        · have hne : u ≠ t := by intro h; subst h; exact hnk hu
          obtain ⟨a, b⟩ := h2 u hu
          exact ⟨a, by rw [pcOf_setPc_other _ _ _ _ hne]; exact b⟩
      · intro u v huv
        have huv' : (u, v) ∈ σ.filled := huv
        obtain ⟨a, b, c⟩ := h4 u v huv'
        have hne : u ≠ t := by intro h; subst h; rw [hpc] at a; simp at a
        exact ⟨by rw [pcOf_setPc_other _ _ _ _ hne]; exact a, b, by simp only [setPc, List.mem_cons, not_or]; exact ⟨hne, c⟩⟩
      · intro u hu
        have hu' : u ∈ keys σ.table := hu
        by_cases hne : u = t
        · subst hne
          right; exact ⟨pcOf_setPc_same _ _ _, by simp [setPc]⟩
        · rw [pcOf_setPc_other _ _ _ _ hne]
          rcases h5 u hu' with h | ⟨h, hk⟩
          · exact Or.inl h
          · exact Or.inr ⟨h, by simp only [setPc, List.mem_cons]; exact Or.inr hk⟩
      · intro u hu
        have hne : u ≠ t := by intro h; subst h; rw [pcOf_setPc_same] at hu; simp at hu
        rw [pcOf_setPc_other _ _ _ _ hne] at hu
        obtain ⟨a, b⟩ := hH u hu
        exact ⟨a, by simp only [setPc, List.mem_cons, not_or]; exact ⟨hne, b⟩⟩
      · simp only [setPc, List.nodup_cons]; exact ⟨hnk, h6⟩
    · -- waiting: take the filled value, if any
      rename_i hpc
      split at hs
      · rename_i t' v hfind
        simp only [Option.some.injEq] at hs; subst hs
        have hmem : (t', v) ∈ σ.filled := List.mem_of_find?_eq_some hfind
        have hkey : t' = t := by have := List.find?_some hfind; simpa using this
        subst hkey
        obtain ⟨_, _, hnk⟩ := h4 t' v hmem
        have hnt : t' ∉ keys σ.table := by
          intro h
          rcases h5 t' h with h | ⟨_, hk⟩
          · rw [hpc] at h; simp at h
          · exact hnk hk
        refine ⟨h1, ?_, h3, ?_, ?_, ?_, h6, ?_⟩
        · intro u hu
          have hu' : u ∈ σ.kernel := hu
          have hne : u ≠ t' := by intro h; subst h; exact hnk hu'
          obtain ⟨a, b⟩ := h2 u hu'
          exact ⟨a, by rw [pcOf_setPc_other _ _ _ _ hne]; exact b⟩
        · intro u w huw
          simp only [setPc, List.mem_filter] at huw
          obtain ⟨huw, hne⟩ := huw
          have hne : u ≠ t' := by simpa using hne
          obtain ⟨a, b, c⟩ := h4 u w huw
          exact ⟨by rw [pcOf_setPc_other _ _ _ _ hne]; exact a, b, c⟩
        · intro u hu
          have hu' : u ∈ keys σ.table := hu
          have hne : u ≠ t' := by intro h; subst h; exact hnt hu'
          rw [pcOf_setPc_other _ _ _ _ hne]
          exact h5 u hu'
        · intro u hu
          have hne : u ≠ t' := by
            intro h; subst h; rw [pcOf_setPc_same] at hu
            unfold toRet at hu; split at hu <;> simp at hu
          rw [pcOf_setPc_other _ _ _ _ hne] at hu
          exact hH u hu
        · simp only [setPc]
          unfold keys at h7 ⊢
          exact (List.Nodup.sublist (List.Sublist.map _ List.filter_sublist) h7)
      · simp at hs
    · simp at hs
  | complete t res =>
    simp only [step] at hs
    split at hs
    · rename_i hkt
      have hkt' : t ∈ σ.kernel := by simpa using hkt
      obtain ⟨htab, hwait⟩ := h2 t hkt'
      have hany : σ.table.any (fun e => e.1 == t) = true := by
        rw [mem_keys] at htab; obtain ⟨v, hv⟩ := htab
        simp only [List.any_eq_true]; exact ⟨(t, v), hv, by simp⟩
      simp only [hany, if_true, Option.some.injEq] at hs; subst hs
      have hnf : t ∉ keys σ.filled := by
        intro h; rw [mem_keys] at h; obtain ⟨v, hv⟩ := h; exact (h4 t v hv).2.2 hkt'
      have herase : ∀ u, u ∈ σ.kernel.erase t ↔ (u ∈ σ.kernel ∧ u ≠ t) := by
        intro u; rw [List.Nodup.mem_erase_iff h6]; exact And.comm
      refine ⟨h1, ?_, h3, ?_, ?_, ?_, ?_, ?_⟩
      · intro u hu
        obtain ⟨huk, hne⟩ := (herase u).mp hu
        obtain ⟨a, b⟩ := h2 u huk
        exact ⟨(keys_filter_ne _ _ _).mpr ⟨a, hne⟩, b⟩
      · intro u v huv
        simp only [List.mem_cons, Prod.mk.injEq] at huv
        rcases huv with ⟨rfl, rfl⟩ | huv
        · exact ⟨hwait, List.mem_cons_self, fun h => ((herase u).mp h).2 rfl⟩
        · obtain ⟨a, b, c⟩ := h4 u v huv
          exact ⟨a, List.mem_cons_of_mem _ b, fun h => c ((herase u).mp h).1⟩
      · intro u hu
        obtain ⟨hut, hne⟩ := (keys_filter_ne _ _ _).mp hu
        rcases h5 u hut with h | ⟨h, hk⟩
        · exact Or.inl h
        · exact Or.inr ⟨h, (herase u).mpr ⟨hk, hne⟩⟩
      · intro u hu
        have hu' : pcOf σ u = .half := hu
        obtain ⟨a, b⟩ := hH u hu'
        have hne : u ≠ t := by intro h; subst h; rw [hwait] at hu'; simp at hu' 
        exact ⟨(keys_filter_ne _ _ _).mpr ⟨a, hne⟩, fun h => b ((herase u).mp h).1⟩
      · exact h6.erase t
      · simp only [keys, List.map_cons, List.nodup_cons]; exact ⟨hnf, h7⟩
    · simp at hs

theorem reach_inv {σ : Sys} (h : Reach {} σ) : Inv σ := by
  induction h with
  | refl => exact inv_init
  | step a _ hs ih => exact inv_step a ih hs

/-- **No completion is dropped**: under every interleaving of callers and completions, a completion
the loop thread takes always finds the result slot of the call that submitted it. -/
theorem C27_no_completion_dropped (σ : Sys) (h : Reach {} σ) : σ.dropped = [] := (reach_inv h).noDrop

/-- **A call returns the result of its own submission**: when a waiting caller `t` returns, what it
returns is (the errno translation of) a value `v` that the kernel produced for the request tagged
`t` — a completion of another call can never be what it sees. -/
theorem C27_own_result (σ σ' : Sys) (h : Reach {} σ) (t : Nat) (hw : pcOf σ t = .waiting)
    (hs : step σ (.call t) = some σ') : ∃ v, (t, v) ∈ σ.answered ∧ pcOf σ' t = toRet v := by
  have hi := reach_inv h
  simp only [step, hw] at hs
  split at hs
  · rename_i t' v hfind
    simp only [Option.some.injEq] at hs; subst hs
    have hmem : (t', v) ∈ σ.filled := List.mem_of_find?_eq_some hfind
    have hkey : t' = t := by have := List.find?_some hfind; simpa using this
    subst hkey
    exact ⟨v, (hi.inFilled t' v hmem).2.1, pcOf_setPc_same _ _ _⟩
  · simp at hs

/-- **A negative completion becomes −1 with the matching errno**, any other completion is returned as it is. -/
theorem C27_errno (r : Int) :
    (r < 0 → toRet r = .returned (-1) (-r).toNat) ∧ (0 ≤ r → toRet r = .returned r 0) := by
  unfold toRet
  constructor
  · intro h; simp [h]
  · intro h; have : ¬ r < 0 := by omega
    simp [this]

/-- A completion only ever fills the slot registered under its own token: other callers' slots,
program counters and pending requests are untouched. -/
theorem C27_completion_frame (σ σ' : Sys) (t u : Nat) (res : Int) (hs : step σ (.complete t res) = some σ') (hne : u ≠ t) :
    pcOf σ' u = pcOf σ u ∧ (u ∈ keys σ'.table ↔ u ∈ keys σ.table) ∧ (∀ v, (u, v) ∈ σ'.filled ↔ (u, v) ∈ σ.filled) := by
  simp only [step] at hs
  split at hs
  · split at hs
    · simp only [Option.some.injEq] at hs; subst hs
      refine ⟨rfl, ?_, ?_⟩
      · rw [keys_filter_ne]; exact ⟨fun h => h.1, fun h => ⟨h, hne⟩⟩
      · intro v; simp [hne]
    · simp only [Option.some.injEq] at hs; subst hs
      exact ⟨rfl, Iff.rfl, fun v => Iff.rfl⟩
  · simp at hs

/-- The order the code had before the fix (submit, then register) loses a completion that the loop
thread takes in between: the result is dropped and the caller can never return. -/
theorem C27_old_order_drops :
    (run { slotFirst := false } [.call 7, .complete 7 42, .call 7]).map (fun σ => (σ.dropped, σ.kernel, step σ (.call 7))) =
      some ([(7, 42)], [], none) := by decide

-- non-vacuity: two callers, completions in the opposite order, one of them an error
example : (run {} [.call 1, .call 2, .call 1, .call 2, .complete 2 (-9), .complete 1 5, .call 1, .call 2]).map
    (fun σ => (pcOf σ 1, pcOf σ 2, σ.dropped)) = some (.returned 5 0, .returned (-1) 9, []) := by decide

/-! ## the producer side of the submission queue -/
section Sq
open Oc.UringSq

theorem pushLocked_eq (r : Ring) (p e : Nat) (hv : r.views = []) :
    pushLocked r (p, e) = { tail := r.tail + 1, slots := (r.tail, e) :: r.slots.filter (·.1 != r.tail), views := [] } := by
  simp [pushLocked, UringSq.run, UringSq.step, viewOf, hv]

theorem find_filter_ne (l : List (Nat × Nat)) (t i : Nat) (h : i ≠ t) :
    (l.filter (·.1 != t)).find? (·.1 == i) = l.find? (·.1 == i) := by
  induction l with
  | nil => rfl
  | cons x xs ih =>
    by_cases hx : x.1 = t
    · have h1 : (x.1 != t) = false := by simp [hx]
      have h2 : (x.1 == i) = false := by simp [hx]; exact fun e => h e.symm
      simp [List.filter_cons, h1, List.find?_cons, h2, ih]
    · have h1 : (x.1 != t) = true := by simp [hx]
      simp only [List.filter_cons, h1, if_true, List.find?_cons]
      split
      · rfl
      · exact ih

theorem submitted_pushLocked (r : Ring) (p e : Nat) (hv : r.views = []) :
    (pushLocked r (p, e)).views = [] ∧ submitted (pushLocked r (p, e)) = submitted r ++ [some e] := by
  rw [pushLocked_eq r p e hv]
  refine ⟨rfl, ?_⟩
  unfold submitted
  simp only [List.range_succ, List.map_append, List.map_cons, List.map_nil]
  congr 1
  · apply List.map_congr_left
    intro i hi
    have hlt : i < r.tail := List.mem_range.mp hi
    have hne : i ≠ r.tail := by omega
    have hb : (r.tail == i) = false := by simp; omega
    simp only [slotAt, List.find?_cons, hb]
    rw [find_filter_ne r.slots r.tail i hne]
  · simp [slotAt]

/-- Whatever threads push whatever entries: when every `push_sq` runs under the lock, the kernel
is handed exactly the pushed entries, each once, in the order of the pushes — none is overwritten. -/
theorem C27_sq_locked_no_loss (pes : List (Nat × Nat)) :
    submitted (pes.foldl pushLocked {}) = pes.map (fun pe => some pe.2) ∧ (pes.foldl pushLocked {}).tail = pes.length := by
  have gen : ∀ (r : Ring), r.views = [] →
      (pes.foldl pushLocked r).views = [] ∧
      submitted (pes.foldl pushLocked r) = submitted r ++ pes.map (fun pe => some pe.2) ∧
      (pes.foldl pushLocked r).tail = r.tail + pes.length := by
    induction pes with
    | nil => intro r hv; exact ⟨hv, by simp, by simp⟩
    | cons pe rest ih =>
      intro r hv
      obtain ⟨p, e⟩ := pe
      have h1 := submitted_pushLocked r p e hv
      have h2 := ih (pushLocked r (p, e)) h1.1
      refine ⟨h2.1, ?_, ?_⟩
      · simp only [List.foldl_cons, List.map_cons]
        rw [h2.2.1, h1.2]; simp
      · simp only [List.foldl_cons, List.length_cons]
        rw [h2.2.2, pushLocked_eq r p e hv]; simp only; omega
  have := gen {} rfl
  exact ⟨by simpa [submitted] using this.2.1, by simpa using this.2.2⟩

/-- Without the lock (the code before the repair): two threads open their views on the same tail,
both write slot 0, both publish tail 1 — the kernel sees one entry, the other call waits for ever. -/
theorem C27_sq_unlocked_loses :
    submitted (UringSq.run {} [.create 1, .create 2, .push 1 11, .push 2 22, .sync 1, .sync 2]) = [some 22] := by decide

example : submitted ([(1, 11), (2, 22), (1, 33)].foldl pushLocked {}) = [some 11, some 22, some 33] := by decide

end Sq

end Oc.Props.C27
