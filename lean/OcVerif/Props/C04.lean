import OcVerif.Proofs.Queue.Len
import OcVerif.Proofs.Queue.PlainQ
/-!
# C04 — queue operations and task submission always terminate

The only unbounded loop of the queue code is `push_to_global`'s `while done < count`; it is
modelled with fuel and `none` = "fuel exhausted". Every other loop is a bounded `for` and is a
structurally recursive (hence total) Lean function. `Steal::Retry` loops of crossbeam are
trusted (lock-freedom), see DESIGN.md.
-/
namespace Oc.Props.C04
open Oc.Queue

/-- The transfer loop ends within `count − done + 1` iterations from **every** state of the local
map — reachable or not, in particular whatever siblings have stolen in the meantime. -/
theorem C04_moveLoop_terminates (q : PQ) (done count : Nat) (hd : done ≤ count) :
    (moveLoop (count - done + 1) q done count).isSome = true :=
  moveLoop_isSome _ q done count hd (by omega)

/-- A local push returns after a bounded number of steps from every state (not only reachable
ones): `pushFuel s i = len/2 + 1` loop iterations suffice. -/
theorem C04_push_terminates (s : Sys) (i : Nat) (p : Int) (x : Item) (hi : i < s.locals.length) :
    (pushLocal (pushFuel s i) s i p x).isSome = true :=
  pushLocal_isSome s i p x hi

/-- Every API call on an existing handle returns, from every state. -/
theorem C04_step_terminates (s : Sys) (o : Op) (hv : o.valid s.locals.length = true) :
    (step s o).isSome = true := step_isSome s o hv

/-- Hence every history terminates, including histories in which siblings steal between a
queue's pushes (the states the pre-fix code spun on). -/
theorem C04_history_terminates (n cap : Nat) (ops : List Op) (hv : ∀ o ∈ ops, o.valid n = true) :
    (run (mk n cap) ops).isSome = true := by
  apply run_isSome; simpa [mk] using hv

/-- The state the pre-fix code spun on (cap 4: victim pushes 4, a sibling pops 3, victim pushes)
is handled: the push returns and overflows nothing it does not have. -/
theorem C04_former_spin_witness :
    (run (mk 2 4) [.lpush 0 0 0, .lpush 0 0 1, .lpush 0 0 2, .lpush 0 0 3,
                   .lpop 1 0, .lpop 1 0, .lpop 1 0, .lpush 0 0 4]).map (·.2) = some [0, 1, 2] := by decide

/-- Plain queue: every call on an existing handle returns, from every state (its operations are
total functions: the overflow move is a bounded `take`/`drop`, the steal scan visits each sibling once). -/
theorem C04_plain_step_terminates (s : Oc.Queue.Plain.PSys) (o : Oc.Queue.Plain.POp) (hv : o.valid s.locals.length = true) :
    (Oc.Queue.Plain.pstep s o).isSome = true := Oc.Queue.Plain.pstep_isSome s o hv

end Oc.Props.C04
