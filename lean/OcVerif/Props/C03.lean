import OcVerif.Proofs.Queue.Len
import OcVerif.Proofs.Conc.LenCounter
import OcVerif.Proofs.Queue.PlainQ
/-!
# C03 — work-steal queues neither lose nor duplicate items

Sequential part: every history of shared/local pushes and pops (steals and overflow included),
any number of local queues, any capacity, any priorities, any steal start.
Concurrent part: the shared length counter, every interleaving of any number of threads at
atomic-operation granularity.  (Plain queue: see `C03_plain_*` in this file.)
-/
namespace Oc.Props.C03
open Oc.Queue List

theorem mk_cnt (n cap : Nat) (x : Item) : (mk n cap).cnt x = 0 := by
  simp only [cnt_def, mk]
  have : ∀ n, (List.replicate n ({} : Local)).flatMap (fun l => l.q.vals) = [] := by
    intro n; induction n with
    | zero => rfl
    | succ k ih => simp [List.replicate_succ, ih, PQ.vals]
  simp [this, PQ.vals]

/-- Nothing is lost and nothing is returned twice: after any history, the pushed items are exactly
the popped items plus the items still held (as multisets). -/
theorem C03_conservation (n cap : Nat) (ops : List Op) (s : Sys) (outs : List Item)
    (h : run (mk n cap) ops = some (s, outs)) :
    (pushedOf ops).Perm (outs ++ s.resident) := by
  rw [List.perm_iff_count]
  intro x
  have := cnt_run h x
  rw [mk_cnt] at this
  rw [count_append]
  unfold Sys.cnt at this; omega

/-- Every pushed item is popped at most once (items carry distinct identities). -/
theorem C03_at_most_once (n cap : Nat) (ops : List Op) (s : Sys) (outs : List Item)
    (h : run (mk n cap) ops = some (s, outs)) (hd : (pushedOf ops).Nodup) :
    outs.Nodup ∧ ∀ x ∈ outs, x ∉ s.resident := by
  have hp := C03_conservation n cap ops s outs h
  have hn : (outs ++ s.resident).Nodup := hp.nodup_iff.mp hd
  rw [List.nodup_append] at hn
  exact ⟨hn.1, fun x hx hr => (hn.2.2 x hx x hr) rfl⟩

/-- Every call with an existing handle returns: histories never get stuck in the model. -/
theorem C03_total (n cap : Nat) (ops : List Op) (hv : ∀ o ∈ ops, o.valid n = true) :
    (run (mk n cap) ops).isSome = true := by
  apply run_isSome
  simpa [mk] using hv

/-- Sequentially, the shared queue's reported length equals the number of items it holds. -/
theorem C03_len_seq (n cap : Nat) (ops : List Op) (s : Sys) (outs : List Item)
    (h : run (mk n cap) ops = some (s, outs)) : s.slen = s.shared.vals.length :=
  lenOk_run (s := mk n cap) (by simp [LenOk, mk]) h

open Oc.Conc.Len in
/-- Concurrently: under every interleaving of any number of threads performing any pushes and
pops on the shared queue, once all threads have stopped the reported length equals the number
of items the queue holds. -/
theorem C03_len_conc (c0 c : Cfg) (h0 : Conc.Len.Inv c0) (hr : Reach c0 c) (hq : quiescent c) :
    c.len = c.inj := by
  have := reach_inv h0 hr
  unfold Conc.Len.Inv at this
  have hz : c.ths.countP pend = 0 := by
    rw [List.countP_eq_zero]
    intro t ht; simp [pend, hq t ht]
  omega

open Oc.Conc.Len in
/-- While threads are running the counter never under-reports (so `pop`'s fast path never
reports empty for an item whose push has completed). -/
theorem C03_len_conc_never_under (c0 c : Cfg) (h0 : Conc.Len.Inv c0) (hr : Reach c0 c) : c.inj ≤ c.len := by
  have := reach_inv h0 hr
  unfold Conc.Len.Inv at this; omega

open Oc.Conc.Len in
/-- The protocol before the `fix:` commit (`store(load ± 1)`) loses an update on the two-thread
schedule push‖push: two items in the injector, counter = 1. Kept as the witness that the theorem
above is about the repaired protocol. -/
theorem C03_len_conc_old_counterexample :
    runOld (0, 0, [⟨.idle, [.push]⟩, ⟨.idle, [.push]⟩]) [0, 1, 0, 1, 0, 1]
      = some (2, 1, [⟨.idle, []⟩, ⟨.idle, []⟩]) := by decide

-- non-vacuity
open Oc.Conc.Len in
example : Conc.Len.Inv ⟨0, 0, [⟨.idle, [.push, .pop]⟩, ⟨.idle, [.pop, .push]⟩]⟩ := by simp [Conc.Len.Inv, pend]
example : (run (mk 2 4) [.lpush 0 0 0, .lpush 0 0 1, .lpush 0 0 2, .lpush 0 0 3, .lpop 1 0, .lpop 1 0, .lpop 1 0, .lpush 0 0 4, .gpop]).isSome = true := by decide

/-! ### the plain (priority-less) work-steal queue -/
section Plain
open Oc.Queue.Plain

theorem pmk_cnt (n cap : Nat) (x : Item) : (Plain.mk n cap).cnt x = 0 := by
  simp only [Plain.cnt_def, Plain.mk]
  have : ∀ n, (List.replicate n ({} : PLocal)).flatMap (fun l => l.items) = [] := by
    intro n; induction n with
    | zero => rfl
    | succ k ih => simp [List.replicate_succ, ih]
  simp [this]

/-- Plain queue: nothing is lost and nothing is returned twice, after any history of shared/local
pushes and pops with overflow and stealing. -/
theorem C03_plain_conservation (n cap : Nat) (ops : List POp) (s : PSys) (outs : List Item)
    (h : prun (Plain.mk n cap) ops = some (s, outs)) :
    (ppushedOf ops).Perm (outs ++ s.resident) := by
  rw [List.perm_iff_count]
  intro x
  have := cnt_prun h x
  rw [pmk_cnt] at this
  rw [count_append]
  unfold PSys.cnt at this; omega

/-- Plain queue: the shared length counter equals the number of items the shared queue holds. -/
theorem C03_plain_len (n cap : Nat) (ops : List POp) (s : PSys) (outs : List Item)
    (h : prun (Plain.mk n cap) ops = some (s, outs)) : s.slen = s.shared.length :=
  plen_prun (s := Plain.mk n cap) (by simp [PLenOk, Plain.mk]) h

-- non-vacuity: capacity 2, four local pushes (two spill), a sibling steals, everything comes back once
example : (prun (Plain.mk 2 2) [.lpush 0 1, .lpush 0 2, .lpush 0 3, .lpush 0 4, .lpop 1 0, .lpop 1 0, .lpop 0 0, .lpop 0 0, .lpop 0 0]).map (·.2) = some [2, 4, 1, 3] := by decide

end Plain

end Oc.Props.C03
