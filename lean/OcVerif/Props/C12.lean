import OcVerif.Proofs.Pool
import OcVerif.Model.LoopStop
/-!
# C12 — pool lifecycle: stop rejects new work and settles every waiter
-/
namespace Oc.Props.C12
open Oc.Pool

def rank : PState → Nat
  | .running => 0 | .stopping => 1 | .stopped => 2

/-- A pool only moves Running → Stopping → Stopped: no operation ever takes the state backwards, and
only `stop` changes it. -/
theorem C12_monotone (p : Pool) :
    (∀ p', pass p = some p' → p'.state = p.state) ∧ (∀ prog prio, (submit p prog prio).1.state = p.state) ∧
    (∀ t, (cancelTask p t).state = p.state) ∧ (∀ t, (wait p t).1.state = p.state) ∧
    rank p.state ≤ rank (stop p).1.state := by
  refine ⟨?_, ?_, ?_, ?_, ?_⟩
  · intro p' hp
    unfold pass at hp
    split at hp
    · simp at hp
    · simp only [Option.some.injEq] at hp; subst hp; rw [schedLoop_state, tryGrow_state]
  · intro prog prio; unfold submit; split <;> rfl
  · intro t; unfold cancelTask; split <;> rfl
  · intro t; unfold wait; split
    · rfl
    · split <;> rfl
  · unfold stop
    split
    · rw [doClean_state]; exact Nat.le_refl _
    · unfold stopLive
      split
      · rename_i hns _
        rw [tryGrow_state]
        cases hst : p.state with
        | stopped => exact absurd hst hns
        | running => simp [rank]
        | stopping => simp [rank]
      · rename_i hns _
        rw [doClean_state]
        cases hst : p.state with
        | stopped => exact absurd hst hns
        | running => simp [rank]
        | stopping => simp [rank]

/-- Once stopping has begun, submissions are rejected and the task queue is untouched. -/
theorem C12_reject_after_stop (p : Pool) (prog : List TStep) (prio : Int) (h : p.state ≠ .running) :
    (submit p prog prio).2 = false ∧ (submit p prog prio).1.tasks = p.tasks := by
  unfold submit
  cases hst : p.state with
  | running => exact absurd hst h
  | stopping => exact ⟨rfl, rfl⟩
  | stopped => exact ⟨rfl, rfl⟩

/-- `stop` reports success only when every accepted task has been taken from the queue and every
worker has returned: nothing accepted earlier is left unrun. -/
theorem C12_accepted_run_before_ok (p : Pool) (hs : p.state ≠ .stopped) (hok : (stop p).2 = true) :
    (stop p).1.state = .stopped ∧ (stop p).1.running = 0 ∧ (stop p).1.tasks.vals = [] := by
  unfold stop at hok ⊢
  simp only [hs, if_false] at hok ⊢
  unfold stopLive at hok ⊢
  split at hok
  · simp at hok
  · rename_i hc
    simp only [hc, if_false]
    refine ⟨by rw [doClean_state], ?_, ?_⟩
    · rw [(doClean_frame _).1]; simp only; omega
    · rw [(doClean_frame _).2]; simp only
      cases hv : (tryGrow { p with state := .stopping }).tasks.vals with
      | nil => rfl
      | cons a b => exact absurd (Or.inr (by rw [hv]; simp)) hc

/-- After a successful stop every registered waiter has been settled (none is left waiting), … -/
theorem C12_waiters_settled (p : Pool) (hok : (stop p).2 = true) : (stop p).1.waits = [] := by
  unfold stop at hok ⊢
  split
  · exact doClean_waits _
  · rename_i hs
    simp only [hs, if_false] at hok
    unfold stopLive at hok ⊢
    split at hok
    · simp at hok
    · rename_i hc; simp only [hc, if_false]; exact doClean_waits _

/-- … and a wait that starts after the pool has stopped, for a task that will never run, fails at
once instead of blocking. -/
theorem C12_wait_after_stopped (p : Pool) (t : Nat) (hs : p.state = .stopped)
    (hn : p.results.find? (fun e => e.1 == t) = none) : (wait p t).2 = .failed := by
  simp [wait, hn, hs]

example : (stop (submit { maxSize := 1 } [.ret 5] 0).1).2 = false := by decide
example : ((pass (stop (submit { maxSize := 1 } [.ret 5] 0).1).1).map (fun p => (stop p).2)) = some true := by decide

/-- A task that submits to its own pool from inside its body is treated like any other submitter:
once stopping has begun the submission is rejected and the task queue is untouched — in particular
while `stop` drains the tasks that were accepted before it. -/
theorem C12_nested_submission_rejected (p : Pool) (t : Nat) (h : p.state ≠ .running) :
    (nestSubmit p t).tasks = p.tasks ∧ (nestSubmit p t).nested = p.nested ++ [(t, false)] ∧
    (nestSubmit p t).state = p.state := by
  unfold nestSubmit
  split
  · rename_i hs; exact absurd hs h
  · exact ⟨rfl, rfl, rfl⟩

/-- …and while the pool is running it is accepted and queued exactly once. -/
theorem C12_nested_submission_accepted (p : Pool) (t : Nat) (h : p.state = .running) :
    (nestSubmit p t).tasks = p.tasks.push 0 p.progs.length ∧ (nestSubmit p t).nested = p.nested ++ [(t, true)] := by
  unfold nestSubmit; simp [h]

/-! ## `EventLoops::stop`: the count of running loops -/
section LoopStop
open Oc.LoopStop

theorem countP_set_pc (l : List Pc) (i : Nat) (a b : Pc) (h : l[i]? = some a) (q : Pc → Bool) :
    (l.set i b).countP q + (if q a then 1 else 0) = l.countP q + (if q b then 1 else 0) := by
  induction l generalizing i with
  | nil => simp at h
  | cons x xs ih =>
    cases i with
    | zero =>
      simp at h; subst h
      simp only [List.set_cons_zero, List.countP_cons]
      split <;> split <;> omega
    | succ i =>
      simp at h
      have := ih i h
      simp only [List.set_cons_succ, List.countP_cons]
      omega

/-- after the repair: the count is exactly the number of loops whose thread exists and has not finished -/
def InvL (s : S) : Prop := s.countAtStart = true → s.count = alive s

theorem invL_step (s : S) (a : Act) (h : InvL s) : InvL (step s a) := by
  intro hc
  have hcs : s.countAtStart = true := by
    cases a <;> (simp only [step] at hc; split at hc <;> first | exact hc | (try split at hc) <;> exact hc)
  have h0 := h hcs
  cases a with
  | start i =>
    simp only [step]
    split
    · rename_i hp
      have := countP_set_pc s.pcs i .created .spawned hp (fun p => p == .spawned || p == .running)
      simp [alive, hcs] at this ⊢
      unfold alive at h0; omega
    · exact h0
  | thread i =>
    simp only [step]
    split
    · rename_i hp
      have := countP_set_pc s.pcs i .spawned .running hp (fun p => p == .spawned || p == .running)
      simp [alive, hcs] at this ⊢
      unfold alive at h0; omega
    · rename_i hp
      have := countP_set_pc s.pcs i .running .exited hp (fun p => p == .spawned || p == .running)
      simp [alive] at this ⊢
      unfold alive at h0; omega
    · exact h0

theorem invL_foldl (as : List Act) : ∀ (s : S), InvL s → InvL (as.foldl step s) := by
  induction as with
  | nil => intro s h; exact h
  | cons a rest ih => intro s h; exact ih _ (invL_step s a h)

theorem countAtStart_step (s : S) (a : Act) : (step s a).countAtStart = s.countAtStart := by
  cases a <;> (simp only [step]; split <;> first | rfl | (try split) <;> rfl)

theorem countAtStart_foldl (as : List Act) : ∀ (s : S), (as.foldl step s).countAtStart = s.countAtStart := by
  induction as with
  | nil => intro s; rfl
  | cons a rest ih => intro s; simp only [List.foldl_cons]; rw [ih, countAtStart_step]

/-- **A stop that sees zero has nothing left to wait for.** For every number of loops and every
interleaving of `start` calls and thread steps (threads may be scheduled arbitrarily late): when
`stop` reads zero, no loop is in between — each is either not started at all or has finished its
loop, i.e. has run everything that was accepted before stopping began. -/
theorem C12_stop_sees_zero_only_when_all_exited (n : Nat) (as : List Act) (i : Nat) (p : Pc)
    (hz : stopSeesZero (run { pcs := List.replicate n .created } as) = true)
    (hp : (run { pcs := List.replicate n .created } as).pcs[i]? = some p) : p = .created ∨ p = .exited := by
  have hinv : InvL (run { pcs := List.replicate n .created } as) := by
    unfold run
    apply invL_foldl
    intro _
    simp [alive, List.countP_replicate]
  have hcs : (run { pcs := List.replicate n .created } as).countAtStart = true := by
    unfold run; rw [countAtStart_foldl]
  have hcount := hinv hcs
  simp only [stopSeesZero, beq_iff_eq] at hz
  rw [hz] at hcount
  have hnone := List.countP_eq_zero.mp hcount.symm
  have hmem := List.mem_of_getElem? hp
  have := hnone p hmem
  cases p <;> simp at this ⊢

/-- Before the repair the thread raised the count itself: a stop right after `start` sees zero
although the loop has not run anything yet. -/
theorem C12_old_stop_before_thread_ran :
    stopSeesZero (run { pcs := [.created], countAtStart := false } [.start 0]) = true ∧
    (run { pcs := [.created], countAtStart := false } [.start 0]).pcs = [.spawned] := by decide

end LoopStop

end Oc.Props.C12
