import OcVerif.Proofs.Pool
/-!
# C12 — pool lifecycle: stop rejects new work and settles every waiter
-/
namespace Oc.Props.C12
open Oc.Pool

def rank : PState → Nat
  | .running => 0 | .stopping => 1 | .stopped => 2

/-- A pool only moves Running → Stopping → Stopped: no operation ever takes the state backwards, and
only `stop` changes it. -/
theorem C12_monotone (p : Pool) :
    (∀ p', pass p = some p' → p'.state = p.state) ∧ (∀ prog prio, (submit p prog prio).1.state = p.state) ∧
    (∀ t, (cancelTask p t).state = p.state) ∧ (∀ t, (wait p t).1.state = p.state) ∧
    rank p.state ≤ rank (stop p).1.state := by
  refine ⟨?_, ?_, ?_, ?_, ?_⟩
  · intro p' hp
    unfold pass at hp
    split at hp
    · simp at hp
    · simp only [Option.some.injEq] at hp; subst hp; rw [schedLoop_state, tryGrow_state]
  · intro prog prio; unfold submit; split <;> rfl
  · intro t; unfold cancelTask; split <;> rfl
  · intro t; unfold wait; split
    · rfl
    · split <;> rfl
  · unfold stop
    split
    · rw [doClean_state]; exact Nat.le_refl _
    · unfold stopLive
      split
      · rename_i hns _
        rw [tryGrow_state]
        cases hst : p.state with
        | stopped => exact absurd hst hns
        | running => simp [rank]
        | stopping => simp [rank]
      · rename_i hns _
        rw [doClean_state]
        cases hst : p.state with
        | stopped => exact absurd hst hns
        | running => simp [rank]
        | stopping => simp [rank]

/-- Once stopping has begun, submissions are rejected and the task queue is untouched. -/
theorem C12_reject_after_stop (p : Pool) (prog : List TStep) (prio : Int) (h : p.state ≠ .running) :
    (submit p prog prio).2 = false ∧ (submit p prog prio).1.tasks = p.tasks := by
  unfold submit
  cases hst : p.state with
  | running => exact absurd hst h
  | stopping => exact ⟨rfl, rfl⟩
  | stopped => exact ⟨rfl, rfl⟩

/-- `stop` reports success only when every accepted task has been taken from the queue and every
worker has returned: nothing accepted earlier is left unrun. -/
theorem C12_accepted_run_before_ok (p : Pool) (hs : p.state ≠ .stopped) (hok : (stop p).2 = true) :
    (stop p).1.state = .stopped ∧ (stop p).1.running = 0 ∧ (stop p).1.tasks.vals = [] := by
  unfold stop at hok ⊢
  simp only [hs, if_false] at hok ⊢
  unfold stopLive at hok ⊢
  split at hok
  · simp at hok
  · rename_i hc
    simp only [hc, if_false]
    refine ⟨by rw [doClean_state], ?_, ?_⟩
    · rw [(doClean_frame _).1]; simp only; omega
    · rw [(doClean_frame _).2]; simp only
      cases hv : (tryGrow { p with state := .stopping }).tasks.vals with
      | nil => rfl
      | cons a b => exact absurd (Or.inr (by rw [hv]; simp)) hc

/-- After a successful stop every registered waiter has been settled (none is left waiting), … -/
theorem C12_waiters_settled (p : Pool) (hok : (stop p).2 = true) : (stop p).1.waits = [] := by
  unfold stop at hok ⊢
  split
  · exact doClean_waits _
  · rename_i hs
    simp only [hs, if_false] at hok
    unfold stopLive at hok ⊢
    split at hok
    · simp at hok
    · rename_i hc; simp only [hc, if_false]; exact doClean_waits _

/-- … and a wait that starts after the pool has stopped, for a task that will never run, fails at
once instead of blocking. -/
theorem C12_wait_after_stopped (p : Pool) (t : Nat) (hs : p.state = .stopped)
    (hn : p.results.find? (fun e => e.1 == t) = none) : (wait p t).2 = .failed := by
  simp [wait, hn, hs]

example : (stop (submit { maxSize := 1 } [.ret 5] 0).1).2 = false := by decide
example : ((pass (stop (submit { maxSize := 1 } [.ret 5] 0).1).1).map (fun p => (stop p).2)) = some true := by decide

/-- A task that submits to its own pool from inside its body is treated like any other submitter:
once stopping has begun the submission is rejected and the task queue is untouched — in particular
while `stop` drains the tasks that were accepted before it. -/
theorem C12_nested_submission_rejected (p : Pool) (t : Nat) (h : p.state ≠ .running) :
    (nestSubmit p t).tasks = p.tasks ∧ (nestSubmit p t).nested = p.nested ++ [(t, false)] ∧
    (nestSubmit p t).state = p.state := by
  unfold nestSubmit
  split
  · rename_i hs; exact absurd hs h
  · exact ⟨rfl, rfl, rfl⟩

/-- …and while the pool is running it is accepted and queued exactly once. -/
theorem C12_nested_submission_accepted (p : Pool) (t : Nat) (h : p.state = .running) :
    (nestSubmit p t).tasks = p.tasks.push 0 p.progs.length ∧ (nestSubmit p t).nested = p.nested ++ [(t, true)] := by
  unfold nestSubmit; simp [h]

end Oc.Props.C12
