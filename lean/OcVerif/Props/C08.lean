import OcVerif.Proofs.Coroutine
/-!
# C08 — values and panics cross the coroutine boundary faithfully
-/
namespace Oc.Props.C08
open Oc.Co Oc.Spec.C07

/-- Each value passed when resuming is delivered to the body exactly once, in order: a resume that
reaches the body appends exactly its parameter to what the body has received; one that does not
(finished, not yet due, cancelled) delivers nothing. -/
theorem C08_param_delivered (th : Th) (c : Co) (p : Nat) :
    (resume th c p).2.1.got = c.got ++ [p] ∨ (resume th c p).2.1.got = c.got := by
  unfold resume
  split
  · exact Or.inr rfl
  · exact Or.inr rfl
  · split
    · exact Or.inr rfl
    · rename_i c1 hc1
      have hg := got_toRunning hc1
      have hafter := afterSwitch_got
      split
      · exact Or.inr hg
      · split
        · right; rw [hafter]; exact hg
        · left; rw [hafter, runBody_got]; simp [hg]

/-- The value a body yields is the value that resume reports (plain suspend: time 0). -/
theorem C08_yield_reported (now : Nat) (c : Co) (p y : Nat) (rest : List Step)
    (hs : c.state = .ready) (hp : c.prog = .susp y :: rest) (hd : c.done = false) (hc : c.inCancel = false) :
    (resume { now := now } c p).2.2 = .state (.suspend y 0) := by
  simp [resume, hs, Co.toRunning, Co.change, hp, hd, hc, runBody, afterSwitch, Co.toSuspend]

/-- The body's return value is reported as completion by the resume in which it returns … -/
theorem C08_return_reported (now : Nat) (c : Co) (p r : Nat) (rest : List Step)
    (hs : c.state = .ready) (hp : c.prog = .ret r :: rest) (hd : c.done = false) (hc : c.inCancel = false) :
    (resume { now := now } c p).2.2 = .state (.complete r) ∧ (resume { now := now } c p).2.1.state = .complete r := by
  simp [resume, hs, Co.toRunning, Co.change, hp, hd, hc, runBody, afterSwitch, Co.toComplete]

/-- … and exactly once: later resumes return the same completion without reporting or running anything. -/
theorem C08_return_once (th : Th) (c : Co) (p r : Nat) (hs : c.state = .complete r) :
    (resume th c p).2.2 = .state (.complete r) ∧ (resume th c p).2.1 = c := by
  simp [resume, hs]

/-- A panic in the body is reported as an error carrying the panic message — for `&'static str`
and for formatted (`String`) messages — and does not unwind into the caller. -/
theorem C08_panic_contained (now : Nat) (c : Co) (p k : Nat) (rest : List Step)
    (hs : c.state = .ready) (hp : c.prog = .panic k :: rest) (hd : c.done = false) (hc : c.inCancel = false) :
    (resume { now := now } c p).2.2 = .state (.error (panicMsg k)) := by
  simp [resume, hs, Co.toRunning, Co.change, hp, hd, hc, runBody, afterSwitch, Co.toError]

/-- Resume never unwinds into the caller unless a finished context is resumed again in a
non-terminal state (the body returned while it had put itself into a syscall state). -/
theorem C08_no_unwind (th : Th) (c : Co) (p : Nat) (hd : c.done = false) : (resume th c p).2.2 ≠ .panic := by
  unfold resume
  split
  · simp
  · simp
  · split
    · simp
    · rename_i c1 hc1
      have hdone : c1.done = c.done := by
        unfold Co.toRunning at hc1
        split at hc1 <;> try (simp only [Option.some.injEq] at hc1; subst hc1; rfl)
        · split at hc1
          · simp only [Option.some.injEq] at hc1; subst hc1; rfl
          · simp at hc1
        · simp at hc1
      have hafter : ∀ th' c' e, (afterSwitch th' c' e).2.2 ≠ .panic := by
        intro th' c' e
        unfold afterSwitch
        cases e <;> simp only <;> (repeat' split) <;> simp
      rw [hdone, hd]
      simp only [Bool.false_eq_true, if_false]
      split
      · exact hafter _ _ _
      · exact hafter _ _ _

example : panicMsg 0 = "boom" ∧ panicMsg 7 = "boom7" := by decide

end Oc.Props.C08
