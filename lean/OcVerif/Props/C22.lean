import OcVerif.Model.Preempt
/-!
# C22 — preemption interrupts long-running coroutines, never syscalls

Theorems on the bookkeeping model of `monitor.rs` (any number of scheduling threads, any times, late
signal delivery). What the model cannot carry — the machine-level safety of suspending inside a
signal handler — is exercised by the `pre` component on the real code (feature `preemptive`) and is
partial; see the known finding for many threads.
-/
namespace Oc.Props.C22
open Oc.Preempt List

/-- **A coroutine in a system-call state is never preempted**: whenever the signal is delivered —
on time, late, or stale — the handler leaves a thread alone whose current coroutine is not in the
`Running` state. -/
theorem C22_syscall_never_preempted (σ : Sys) (t : Nat) (x : Th) (hx : σ.ths[t]? = some x) (hs : x.st ≠ .running) :
    handler σ t = σ := by
  simp [handler, hx, hs]

/-- … and entering a system call withdraws the coroutine's node, so later scans do not even signal
its thread on its account. -/
theorem C22_syscall_withdraws_node (σ : Sys) (t : Nat) (x : Th) (n : Node) (now : Nat)
    (hx : σ.ths[t]? = some x) (hn : x.node = some n) :
    n ∉ (change σ t .syscall now).queue := by
  simp [change, hx, hn, remove]

/-- **A long runner is interrupted.** A coroutine that became `Running` at `t₀` and has not changed
state since is signalled by every scan at or after `t₀ + SLICE`, and the handler then suspends it
(its preemption count goes up, its node is withdrawn) — so the other ready coroutines of that thread
get to run. -/
theorem C22_long_runner_interrupted (σ : Sys) (t : Nat) (x : Th) (t0 now : Nat)
    (hx : σ.ths[t]? = some x) (hlate : t0 + SLICE ≤ now) :
    t ∈ scan (change σ t .running t0) now ∧
    ∃ y, (handler (change σ t .running t0) t).ths[t]? = some y ∧ y.st = .suspended ∧ y.preempted = x.preempted + 1 ∧
      (⟨t0 + SLICE, t⟩ : Node) ∉ (handler (change σ t .running t0) t).queue := by
  have hlt : t < σ.ths.length := (List.getElem?_eq_some_iff.mp hx).1
  constructor
  · simp only [scan, change, hx, List.mem_map, List.mem_filter]
    refine ⟨⟨t0 + SLICE, t⟩, ⟨?_, by simpa using hlate⟩, rfl⟩
    unfold Preempt.insert
    split
    · rename_i h; simpa using h
    · exact List.mem_cons_self
  · simp only [change, hx, handler]
    simp [hlt, remove]

/-- A coroutine inside its slice is not signalled on its own account. -/
theorem C22_not_before_slice (σ : Sys) (t : Nat) (x : Th) (t0 now : Nat) (hx : σ.ths[t]? = some x)
    (hq : ∀ n ∈ σ.queue, n.th ≠ t) (hearly : now < t0 + SLICE) :
    t ∉ scan (change σ t .running t0) now := by
  simp only [scan, change, hx, List.mem_map, List.mem_filter, not_exists, not_and]
  intro n hn heq
  obtain ⟨hmem, hts⟩ := hn
  unfold Preempt.insert at hmem
  have : n = ⟨t0 + SLICE, t⟩ ∨ n ∈ σ.queue := by
    split at hmem
    · exact Or.inr hmem
    · exact List.mem_cons.mp hmem
  rcases this with rfl | h
  · simp at hts; omega
  · exact hq n h heq

/-- **Other threads are not touched**: a state change or a handler run on thread `t` leaves every
other thread's record as it was. -/
theorem C22_frame (σ : Sys) (t u : Nat) (s : CState) (now : Nat) (hu : u ≠ t) :
    (change σ t s now).ths[u]? = σ.ths[u]? ∧ (handler σ t).ths[u]? = σ.ths[u]? := by
  constructor
  · unfold change
    split
    · rfl
    · cases s <;> simp [List.getElem?_set, Ne.symm hu]
  · unfold handler
    split
    · rfl
    · split
      · simp [List.getElem?_set, Ne.symm hu]
      · rfl

/-- **Preemption never changes what a coroutine computes**: wherever the preemptions fall, the value
is the same as without any (and the number of preemptions is only counted). -/
theorem C22_result_unchanged (f : Nat → Nat → Nat) (acc : Nat) (units : List Nat) (ps : List Bool) :
    (runUnits f acc units ps).1 = (runUnits f acc units []).1 := by
  induction units generalizing acc ps with
  | nil => cases ps <;> rfl
  | cons u us ih =>
    cases ps with
    | nil => rfl
    | cons p ps => simp only [runUnits]; exact ih (f acc u) ps

-- non-vacuity: two threads; thread 0's coroutine runs from t = 0 and is signalled at 10 ms, thread 1's
-- is in a system call and is neither signalled nor touched by a stale signal
example : scan (change (change { ths := [{}, {}] } 0 .running 0) 1 .running 0 |> fun σ => change σ 1 .syscall 1000) 10000000 = [0] := by decide
example : (handler (change (change { ths := [{}, {}] } 1 .running 0) 1 .syscall 5) 1).ths[1]?.map (·.preempted) = some 0 := by decide

end Oc.Props.C22
