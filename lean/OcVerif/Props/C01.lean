import OcVerif.Model.Runtime
import OcVerif.Props.C03
import OcVerif.Props.C06
/-!
# C01 — every submitted task runs exactly once

Every history of submissions to any loop, scheduling passes of any loop (with stealing and
overflow to the shared queue) and cancel requests, for any number of loops and any local capacity.
-/
namespace Oc.Props.C01
open Oc.Queue Oc.Rt List

theorem run_snoc {s s1 s2 : Sys} {ops : List Op} {outs : List Item} {o : Op} {r : Option Item}
    (h : Queue.run s ops = some (s1, outs)) (hs : Queue.step s1 o = some (s2, r)) :
    Queue.run s (ops ++ [o]) = some (s2, outs ++ r.toList) := by
  induction ops generalizing s outs with
  | nil =>
    simp only [Queue.run, Option.some.injEq, Prod.mk.injEq] at h
    obtain ⟨rfl, rfl⟩ := h
    simp [Queue.run, hs]
  | cons a as ih =>
    unfold Queue.run at h
    split at h
    · simp at h
    · rename_i sa ra hsa
      split at h
      · simp at h
      · rename_i sb ob hrb
        simp only [Option.some.injEq, Prod.mk.injEq] at h
        obtain ⟨rfl, rfl⟩ := h
        have := ih hrb
        simp only [List.cons_append, Queue.run, hsa, this, List.append_assoc]

/-- the invariant: the ghost history replays to the current queue state, ids are handed out in
order, and what was popped is what ran or was skipped -/
structure Inv (n cap : Nat) (r : Rt) : Prop where
  replay : Queue.run (mk n cap) r.hist = some (r.q, r.taken)
  ids : pushedOf r.hist = List.range r.nextId
  split : r.taken.Perm (r.ran ++ r.skipped)
  skip : ∀ x ∈ r.skipped, x ∈ r.creq
  canc : ∀ x, has r.cancelled x = true → x ∈ r.creq

theorem has_mem (l : List Nat) (x : Nat) : has l x = true ↔ x ∈ l := by
  induction l with
  | nil => simp [has]
  | cons y ys ih =>
    unfold has
    by_cases h : y = x
    · simp [h]
    · simp only [h, if_false, ih, List.mem_cons]
      constructor
      · intro hm; exact Or.inr hm
      · intro hm; rcases hm with hm | hm
        · exact absurd hm.symm h
        · exact hm

theorem remove_sub (l : List Nat) (x y : Nat) (h : has (remove l x) y = true) : has l y = true := by
  rw [has_mem] at h ⊢
  induction l with
  | nil => simp [remove] at h
  | cons z zs ih =>
    unfold remove at h
    by_cases hz : z = x
    · simp only [hz, if_true] at h
      exact List.mem_cons_of_mem _ (ih h)
    · simp only [hz, if_false] at h
      rcases List.mem_cons.mp h with h | h
      · exact h ▸ List.mem_cons_self
      · exact List.mem_cons_of_mem _ (ih h)

theorem pushedOf_snoc (ops : List Op) (o : Op) : pushedOf (ops ++ [o]) = pushedOf ops ++ o.pushed := by
  simp [pushedOf]

theorem inv_init (n cap : Nat) : Inv n cap (init n cap) :=
  ⟨rfl, rfl, by simp [init], by simp [init], by simp [init, has]⟩

theorem inv_step {n cap : Nat} {r r' : Rt} (o : ROp) (hi : Inv n cap r) (hs : step r o = some r') :
    Inv n cap r' := by
  obtain ⟨h1, h2, h3, h4, h5⟩ := hi
  cases o with
  | submit i p =>
    simp only [Rt.step] at hs
    split at hs
    · simp at hs
    · rename_i s hq
      simp only [Option.some.injEq] at hs; subst hs
      have hnone : s.2 = none := by
        simp only [Queue.step, Option.map_eq_some_iff] at hq
        obtain ⟨_, _, rfl⟩ := hq; rfl
      have := run_snoc h1 (show Queue.step r.q (.lpush i p r.nextId) = some (s.1, s.2) from hq)
      refine ⟨by simpa [hnone] using this, ?_, h3, h4, h5⟩
      simp only [pushedOf_snoc, h2, Op.pushed, List.range_succ]
  | take i start =>
    simp only [Rt.step] at hs
    split at hs
    · simp at hs
    · rename_i s hq
      have hrun := run_snoc h1 (show Queue.step r.q (.lpop i start) = some (s.1, s.2) from hq)
      split at hs
      · rename_i hn
        simp only [Option.some.injEq] at hs; subst hs
        refine ⟨by simpa [hn] using hrun, by simpa [pushedOf_snoc, Op.pushed] using h2, h3, h4, h5⟩
      · rename_i x hx
        split at hs
        · rename_i hc
          simp only [Option.some.injEq] at hs; subst hs
          refine ⟨by simpa [hx] using hrun, by simpa [pushedOf_snoc, Op.pushed] using h2, ?_, ?_, ?_⟩
          · simp only [← List.append_assoc]; exact List.Perm.append_right _ h3
          · intro y hy
            rcases List.mem_append.mp hy with hy | hy
            · exact h4 y hy
            · simp only [List.mem_singleton] at hy; subst hy; exact h5 _ hc
          · intro y hy; exact h5 y (remove_sub _ _ _ hy)
        · simp only [Option.some.injEq] at hs; subst hs
          refine ⟨by simpa [hx] using hrun, by simpa [pushedOf_snoc, Op.pushed] using h2, ?_, h4, h5⟩
          have : (r.ran ++ [x] ++ r.skipped).Perm (r.ran ++ r.skipped ++ [x]) := by
            simp only [List.append_assoc]
            exact List.Perm.append_left _ List.perm_append_comm
          exact (List.Perm.append_right _ h3).trans this.symm
  | cancel id =>
    simp only [Rt.step, Option.some.injEq] at hs; subst hs
    refine ⟨h1, h2, h3, fun x hx => List.mem_cons_of_mem _ (h4 x hx), ?_⟩
    intro x hx
    unfold has at hx
    by_cases hid : id = x
    · subst hid; exact List.mem_cons_self
    · simp only [hid, if_false] at hx; exact List.mem_cons_of_mem _ (h5 x hx)

theorem reach_inv {n cap : Nat} {r : Rt} (h : Reach n cap r) : Inv n cap r := by
  induction h with
  | init => exact inv_init n cap
  | step o _ hs ih => exact inv_step o ih hs

/-- **Exactly once.** In every reachable state the submitted tasks `0 … nextId-1` are, as a
multiset, exactly: the tasks that ran, the tasks skipped because of a cancel, and the tasks still
queued.  So no task is lost and none is in two of these places or twice in one. -/
theorem C01_exactly_once (n cap : Nat) (r : Rt) (h : Reach n cap r) :
    (List.range r.nextId).Perm (r.ran ++ r.skipped ++ r.q.resident) := by
  have hi := reach_inv h
  have := C03.C03_conservation n cap r.hist r.q r.taken hi.replay
  rw [hi.ids] at this
  exact this.trans (List.Perm.append_right _ hi.split)

/-- No task runs twice, and a task that ran is neither skipped nor still queued. -/
theorem C01_at_most_once (n cap : Nat) (r : Rt) (h : Reach n cap r) :
    r.ran.Nodup ∧ ∀ x ∈ r.ran, x ∉ r.skipped ∧ x ∉ r.q.resident := by
  have hp := C01_exactly_once n cap r h
  have hn : (r.ran ++ r.skipped ++ r.q.resident).Nodup := hp.nodup_iff.mp List.nodup_range
  rw [List.append_assoc] at hn
  have := List.nodup_append.mp hn
  refine ⟨this.1, fun x hx => ⟨fun hs => ?_, fun hq => ?_⟩⟩
  · exact this.2.2 x hx x (List.mem_append_left _ hs) rfl
  · exact this.2.2 x hx x (List.mem_append_right _ hq) rfl

/-- Every submitted task is accounted for: it ran, was skipped, or is still queued. -/
theorem C01_none_lost (n cap : Nat) (r : Rt) (h : Reach n cap r) (x : Nat) (hx : x < r.nextId) :
    x ∈ r.ran ∨ x ∈ r.skipped ∨ x ∈ r.q.resident := by
  have hp := C01_exactly_once n cap r h
  have : x ∈ r.ran ++ r.skipped ++ r.q.resident := hp.subset (List.mem_range.mpr hx)
  simp only [List.mem_append] at this
  rcases this with (h | h) | h
  · exact Or.inl h
  · exact Or.inr (Or.inl h)
  · exact Or.inr (Or.inr h)

/-- A task is skipped only if its cancellation was requested (before it was taken). -/
theorem C01_skipped_only_if_cancelled (n cap : Nat) (r : Rt) (h : Reach n cap r) (x : Nat)
    (hx : x ∈ r.skipped) : x ∈ r.creq := (reach_inv h).skip x hx

/-- A pass that takes a task for which no cancel is pending runs it. -/
theorem C01_taken_runs (r r' : Rt) (i start : Nat) (s : Sys) (x : Item)
    (hq : Queue.step r.q (.lpop i start) = some (s, some x)) (hc : has r.cancelled x = false)
    (hs : step r (.take i start) = some r') : r'.ran = r.ran ++ [x] := by
  simp only [Rt.step, hq, hc] at hs
  simp only [Bool.false_eq_true, if_false, Option.some.injEq] at hs
  subst hs; rfl

theorem step_q_nlocals {r r' : Rt} {o : ROp} (hs : step r o = some r') :
    r'.q.locals.length = r.q.locals.length := by
  cases o with
  | submit i p =>
    simp only [Rt.step] at hs
    split at hs
    · simp at hs
    · rename_i s hq
      simp only [Option.some.injEq] at hs; subst hs
      exact step_nlocals (show Queue.step r.q _ = some (s.1, s.2) from hq)
  | take i start =>
    simp only [Rt.step] at hs
    split at hs
    · simp at hs
    · rename_i s hq
      have := step_nlocals (show Queue.step r.q _ = some (s.1, s.2) from hq)
      split at hs
      · simp only [Option.some.injEq] at hs; subst hs; exact this
      · split at hs <;> (simp only [Option.some.injEq] at hs; subst hs; exact this)
  | cancel id => simp only [Rt.step, Option.some.injEq] at hs; subst hs; rfl

theorem reach_nlocals {n cap : Nat} {r : Rt} (h : Reach n cap r) : r.q.locals.length = n := by
  induction h with
  | init => simp [init, mk]
  | step o _ hs ih => rw [step_q_nlocals hs, ih]

/-- Every call returns: a submission never spins, a pass never blocks. -/
theorem C01_total (n cap : Nat) (r : Rt) (h : Reach n cap r) (o : ROp) (hv : o.valid n = true) :
    (step r o).isSome = true := by
  have hn := reach_nlocals h
  cases o with
  | submit i p =>
    have : (Queue.step r.q (.lpush i p r.nextId)).isSome = true :=
      step_isSome _ _ (by simpa [Op.valid, ROp.valid, hn] using hv)
    simp only [Rt.step]
    split
    · rename_i hq; simp [hq] at this
    · rfl
  | take i start =>
    have : (Queue.step r.q (.lpop i start)).isSome = true :=
      step_isSome _ _ (by simpa [Op.valid, ROp.valid, hn] using hv)
    simp only [Rt.step]
    split
    · rename_i hq; simp [hq] at this
    · split
      · rfl
      · split <;> rfl
  | cancel id => rfl

/-- **No stranding.** If a scheduling pass of any loop finds nothing (with capacity ≥ 1), then no
task is queued anywhere — in the shared queue or in any loop's local queue. -/
theorem C01_no_stranding (n cap : Nat) (hc : 0 < cap) (r r' : Rt) (h : Reach n cap r) (i start : Nat)
    (hi : i < n) (hs : step r (.take i start) = some r') (hnone : r'.taken = r.taken) :
    r.q.resident = [] := by
  have hinv := reach_inv h
  have hn := reach_nlocals h
  apply C06.C06_idle_reachable n cap hc r.hist r.q r.taken hinv.replay i start (by omega)
  simp only [Rt.step] at hs
  split at hs
  · simp at hs
  · rename_i s hq
    have hq' : s = popLocal r.q i start := by
      simp only [Queue.step, hn, hi, if_true, Option.some.injEq] at hq; exact hq.symm
    split at hs
    · rename_i hnn; rw [← hq']; exact hnn
    · rename_i x hx
      exfalso
      split at hs <;>
        (simp only [Option.some.injEq] at hs; subst hs
         simp only at hnone
         have := congrArg List.length hnone
         simp at this)

/-- a pass removes from the queues exactly the task it took -/
theorem take_resident {r r' : Rt} {i st : Nat} (hs : Rt.step r (.take i st) = some r') :
    r.q.resident.length = r'.q.resident.length + (r'.taken.length - r.taken.length) ∧ r'.nextId = r.nextId := by
  simp only [Rt.step] at hs
  split at hs
  · simp at hs
  · rename_i s hq
    have hlen : r.q.resident.length = s.1.resident.length + s.2.toList.length := by
      have hp : r.q.resident.Perm (s.2.toList ++ s.1.resident) := by
        rw [List.perm_iff_count]
        intro x
        have := cnt_step (show Queue.step r.q _ = some (s.1, s.2) from hq) x
        simp only [Op.pushed, List.count_nil, Nat.add_zero] at this
        rw [List.count_append]
        unfold Sys.cnt at this; omega
      rw [hp.length_eq, List.length_append]; omega
    split at hs
    · rename_i hn
      simp only [Option.some.injEq] at hs; subst hs
      simp only [hn, Option.toList, List.length_nil] at hlen
      exact ⟨by simp; omega, rfl⟩
    · rename_i x hx
      simp only [hx, Option.toList, List.length_singleton] at hlen
      split at hs <;>
        (simp only [Option.some.injEq] at hs; subst hs
         exact ⟨by simp; omega, rfl⟩)

/-- **The queues drain.** From any reachable state, with no further submissions, scheduling passes
of any single loop `i` (whatever their steal starts) — at least as many as there are queued
tasks — leave nothing queued: every submitted task has then run or was skipped for a cancel,
wherever it was queued (shared queue or any loop's local queue). -/
theorem C01_drain (n cap : Nat) (hc : 0 < cap) (i : Nat) (hi : i < n) (starts : List Nat) (r : Rt)
    (h : Reach n cap r) (hk : r.q.resident.length ≤ starts.length) :
    ∃ r', drain i starts r = some r' ∧ Reach n cap r' ∧ r'.q.resident = [] ∧ r'.nextId = r.nextId ∧
      (List.range r.nextId).Perm (r'.ran ++ r'.skipped) := by
  induction starts generalizing r with
  | nil =>
    have hz : r.q.resident = [] := List.eq_nil_of_length_eq_zero (by simpa using hk)
    refine ⟨r, rfl, h, hz, rfl, ?_⟩
    have := C01_exactly_once n cap r h
    rwa [hz, List.append_nil] at this
  | cons st sts ih =>
    have hsome := C01_total n cap r h (.take i st) (by simp [ROp.valid, hi])
    obtain ⟨r1, hr1⟩ := Option.isSome_iff_exists.mp hsome
    have hreach : Reach n cap r1 := Reach.step _ h hr1
    obtain ⟨hlen, hid⟩ := take_resident hr1
    have hle : r1.q.resident.length ≤ sts.length := by
      by_cases hsame : r1.taken = r.taken
      · have := C01_no_stranding n cap hc r r1 h i st hi hr1 hsame
        rw [this] at hlen; simp at hlen; omega
      · have hgt : r.taken.length < r1.taken.length := by
          simp only [Rt.step] at hr1
          split at hr1
          · simp at hr1
          · split at hr1
            · simp only [Option.some.injEq] at hr1; subst hr1; exact absurd rfl hsame
            · split at hr1 <;> (simp only [Option.some.injEq] at hr1; subst hr1; simp)
        simp only [List.length_cons] at hk; omega
    obtain ⟨r', hd, hr', hres, hid', hperm⟩ := ih r1 hreach hle
    refine ⟨r', by simp only [drain, hr1, hd], hr', hres, by rw [hid', hid], ?_⟩
    rw [← hid]; exact hperm

-- non-vacuity: two loops, capacity 2; five tasks submitted to loop 0 (three spill to the shared
-- queue), task 1 is cancelled; loop 1 alone drains everything: 0 2 3 4 run once, 1 is skipped
example : ((run (init 2 2) [.submit 0 0, .submit 0 0, .submit 0 0, .submit 0 0, .submit 0 0, .cancel 1]).bind
    (drain 1 [0, 0, 0, 0, 0])).map (fun r => (r.ran, r.skipped, r.q.resident)) = some ([3, 0, 2, 4], [1], []) := by
  decide

end Oc.Props.C01
