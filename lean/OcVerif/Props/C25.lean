import OcVerif.Model.Local
/-!
# C25 — coroutine-local storage is private, map-like, and released with the coroutine
-/
namespace Oc.Props.C25
open Oc.Local List

theorem slookup_cons_same (s : List (Slot × Nat)) (k : Slot) (v : Nat) : slookup ((k, v) :: s) k = some v := by
  simp [slookup, List.find?_cons]

theorem slookup_cons_other (s : List (Slot × Nat)) (k k' : Slot) (v : Nat) (h : k' ≠ k) :
    slookup ((k, v) :: s) k' = slookup s k' := by
  simp [slookup, List.find?_cons, Ne.symm h]

theorem slookup_erase_same (s : List (Slot × Nat)) (k : Slot) : slookup (serase s k) k = none := by
  induction s with
  | nil => rfl
  | cons e r ih =>
    simp only [serase, List.filter_cons]
    by_cases h : e.1 = k
    · simp only [h, bne_self_eq_false, Bool.false_eq_true, if_false]; exact ih
    · have : (e.1 != k) = true := by simp [h]
      simp only [this, if_true, slookup, List.find?_cons]
      have : (e.1 == k) = false := by simp [h]
      simp only [this]; exact ih

theorem slookup_erase_other (s : List (Slot × Nat)) (k k' : Slot) (h : k' ≠ k) :
    slookup (serase s k) k' = slookup s k' := by
  induction s with
  | nil => rfl
  | cons e r ih =>
    simp only [serase, List.filter_cons]
    by_cases he : e.1 = k
    · simp only [he, bne_self_eq_false, Bool.false_eq_true, if_false]
      have : (k == k') = false := by simp [Ne.symm h]
      simp only [slookup, List.find?_cons, he, this] at ih ⊢; exact ih
    · have h1 : (e.1 != k) = true := by simp [he]
      simp only [h1, if_true, slookup, List.find?_cons]
      by_cases hk : e.1 = k'
      · simp [hk]
      · have : (e.1 == k') = false := by simp [hk]
        simp only [this]; exact ih

/-- Map-like: storing returns the value previously under the key, reading then returns the latest
value, removing returns it and deletes the key. -/
theorem C25_map_like (s : St) (c k v : Nat) (ha : c ∉ s.dead) :
    (step s (.put c k v)).2 = slookup s.store (c, k) ∧
    (step (step s (.put c k v)).1 (.get c k)).2 = some v ∧
    (step (step s (.put c k v)).1 (.remove c k)).2 = some v ∧
    (step (step (step s (.put c k v)).1 (.remove c k)).1 (.get c k)).2 = none := by
  simp [step, ha, slookup_cons_same, slookup_erase_same]

/-- Private: no operation on one coroutine's storage changes what another coroutine reads. -/
theorem C25_private (s : St) (o : Op) (c' k' : Nat)
    (hne : match o with
      | .put c _ _ => c ≠ c' | .get c _ => c ≠ c' | .getMutSet c _ _ => c ≠ c' | .remove c _ => c ≠ c' | .dropCo c => c ≠ c') :
    slookup (step s o).1.store (c', k') = slookup s.store (c', k') := by
  have hs : ∀ c k, c ≠ c' → ((c', k') : Slot) ≠ (c, k) := by
    intro c k h heq; exact h (by simpa using (congrArg Prod.fst heq).symm)
  cases o with
  | put c k v =>
    simp only [step]; split
    · rfl
    · simp only [slookup_cons_other _ _ _ _ (hs c k hne), slookup_erase_other _ _ _ (hs c k hne)]
  | get c k => simp only [step]; split <;> rfl
  | getMutSet c k v =>
    simp only [step]; split
    · rfl
    · split
      · simp only [slookup_cons_other _ _ _ _ (hs c k hne), slookup_erase_other _ _ _ (hs c k hne)]
      · rfl
  | remove c k =>
    simp only [step]; split
    · rfl
    · simp only [slookup_erase_other _ _ _ (hs c k hne)]
  | dropCo c =>
    simp only [step]; split
    · rfl
    · simp only [slookup]
      congr 1
      induction s.store with
      | nil => rfl
      | cons e r ih =>
        simp only [List.filter_cons]
        by_cases he : e.1.1 = c
        · have h1 : (e.1.1 != c) = false := by simp [he]
          have h2 : (e.1 == (c', k')) = false := by
            simp only [beq_eq_false_iff_ne, ne_eq]; intro h; rw [h] at he; exact hne he.symm
          simp only [h1, Bool.false_eq_true, if_false, List.find?_cons, h2]; exact ih
        · have h1 : (e.1.1 != c) = true := by simp [he]
          simp only [h1, if_true, List.find?_cons]
          split
          · rfl
          · exact ih

/-- accounting invariant: every value created so far is either still stored or has been dropped, exactly once -/
def Acc (s : St) (made : List Nat) : Prop := ∀ x, count x (s.store.map (·.2)) + count x s.drops = count x made

theorem count_erase (s : List (Slot × Nat)) (k : Slot) (x : Nat) :
    count x ((serase s k).map (·.2)) + count x ((s.filter (fun e => e.1 == k)).map (·.2)) = count x (s.map (·.2)) := by
  induction s with
  | nil => rfl
  | cons e r ih =>
    simp only [serase, List.filter_cons] at ih ⊢
    by_cases h : e.1 = k
    · simp [h, count_cons] at ih ⊢; omega
    · have h1 : (e.1 != k) = true := by simp [h]
      have h2 : (e.1 == k) = false := by simp [h]
      simp [h1, h2, count_cons] at ih ⊢; omega

/-- at most one entry per slot -/
def Uniq (s : List (Slot × Nat)) : Prop := (s.map (·.1)).Nodup

theorem filter_eq_lookup (s : List (Slot × Nat)) (k : Slot) (hu : Uniq s) :
    (s.filter (fun e => e.1 == k)).map (·.2) = (slookup s k).toList := by
  induction s with
  | nil => rfl
  | cons e r ih =>
    have hu' : Uniq r := (List.nodup_cons.mp hu).2
    have hnot : e.1 ∉ r.map (·.1) := (List.nodup_cons.mp hu).1
    simp only [List.filter_cons, slookup, List.find?_cons]
    by_cases h : e.1 = k
    · have : r.filter (fun e => e.1 == k) = [] := by
        rw [List.filter_eq_nil_iff]; intro a ha hak
        have : a.1 = k := by simpa using hak
        exact hnot (by rw [h, ← this]; exact List.mem_map_of_mem (f := (·.1)) ha)
      simp [h, this]
    · have h2 : (e.1 == k) = false := by simp [h]
      simp only [h2, Bool.false_eq_true, if_false]
      exact ih hu'

theorem uniq_erase (s : List (Slot × Nat)) (k : Slot) (hu : Uniq s) : Uniq (serase s k) := by
  unfold Uniq serase at *
  exact (List.Nodup.sublist (List.Sublist.map _ List.filter_sublist) hu)

theorem uniq_cons_erase (s : List (Slot × Nat)) (k : Slot) (v : Nat) (hu : Uniq s) : Uniq ((k, v) :: serase s k) := by
  unfold Uniq
  simp only [List.map_cons, List.nodup_cons]
  refine ⟨?_, uniq_erase s k hu⟩
  intro hm
  obtain ⟨e, he, hk⟩ := List.mem_map.mp hm
  simp only [serase, List.mem_filter] at he
  simp [hk] at he

theorem uniq_step (s : St) (o : Op) (hu : Uniq s.store) : Uniq (step s o).1.store := by
  cases o with
  | put c k v => simp only [step]; split; exact hu; exact uniq_cons_erase _ _ _ hu
  | get c k => simp only [step]; split <;> exact hu
  | getMutSet c k v =>
    simp only [step]; split
    · exact hu
    · split
      · exact uniq_cons_erase _ _ _ hu
      · exact hu
  | remove c k => simp only [step]; split; exact hu; exact uniq_erase _ _ hu
  | dropCo c =>
    simp only [step]; split
    · exact hu
    · exact (List.Nodup.sublist (List.Sublist.map _ List.filter_sublist) hu)

theorem acc_step (s : St) (o : Op) (made : List Nat) (hu : Uniq s.store) (h : Acc s made) :
    Acc (step s o).1 (made ++ created s o) := by
  intro x
  have hx := h x
  cases o with
  | put c k v =>
    simp only [step, created]
    split
    · simpa using hx
    · have he := count_erase s.store (c, k) x
      rw [filter_eq_lookup _ _ hu] at he
      simp [count_cons, count_append] at he hx ⊢
      omega
  | get c k => simp only [step, created]; split <;> simpa using hx
  | getMutSet c k v =>
    simp only [step, created]
    split
    · simpa using hx
    · have he := count_erase s.store (c, k) x
      rw [filter_eq_lookup _ _ hu] at he
      split
      · rename_i old hl
        rw [hl] at he
        simp [count_cons, count_append] at he hx ⊢
        omega
      · simp [count_cons, count_append] at hx ⊢; omega
  | remove c k =>
    simp only [step, created]
    split
    · simpa using hx
    · have he := count_erase s.store (c, k) x
      rw [filter_eq_lookup _ _ hu] at he
      simp [count_append] at he hx ⊢
      omega
  | dropCo c =>
    simp only [step, created]
    split
    · simpa using hx
    · have hsplit : count x ((s.store.filter (fun e => e.1.1 != c)).map (·.2)) +
          count x ((s.store.filter (fun e => e.1.1 == c)).map (·.2)) = count x (s.store.map (·.2)) := by
        induction s.store with
        | nil => rfl
        | cons e r ih =>
          simp only [List.filter_cons]
          by_cases he : e.1.1 = c
          · simp [he, count_cons] at ih ⊢; omega
          · have h1 : (e.1.1 != c) = true := by simp [he]
            have h2 : (e.1.1 == c) = false := by simp [he]
            simp [h1, h2, count_cons] at ih ⊢; omega
      simp [count_append] at hsplit hx ⊢
      omega

/-- Every value ever stored is dropped exactly once: when it is returned to the caller by an
overwrite or a removal, or — if still stored — when its coroutine is dropped. After all coroutines
have been dropped nothing is left and the drop log is a permutation of the values created. -/
theorem C25_drop_exactly_once (s : St) (ops : List Op) (made : List Nat) (hu : Uniq s.store) (h : Acc s made) :
    Acc (run s ops).1 (made ++ (run s ops).2) := by
  induction ops generalizing s made with
  | nil => simpa [run] using h
  | cons o os ih =>
    have := ih (step s o).1 (made ++ created s o) (uniq_step s o hu) (acc_step s o made hu h)
    simpa [run, List.append_assoc] using this

theorem C25_all_released (ops : List Op) (hempty : (run {} ops).1.store = []) :
    (run {} ops).1.drops.Perm (run {} ops).2 := by
  have := C25_drop_exactly_once {} ops [] (by simp [Uniq]) (by intro x; simp)
  rw [List.perm_iff_count]
  intro x
  have hx := this x
  rw [hempty] at hx
  simpa using hx

/-- dropping a coroutine empties its storage -/
theorem C25_drop_releases (s : St) (c k : Nat) (ha : c ∉ s.dead) :
    slookup (step s (.dropCo c)).1.store (c, k) = none := by
  simp only [step, ha, if_false, slookup]
  have : (s.store.filter (fun e => e.1.1 != c)).find? (fun e => e.1 == (c, k)) = none := by
    rw [List.find?_eq_none]
    intro e he
    simp only [List.mem_filter, bne_iff_ne, ne_eq] at he
    simp only [beq_iff_eq]
    intro h; rw [h] at he; exact he.2 rfl
  simp [this]

example : (run {} [.put 0 1 10, .put 0 1 11, .put 1 1 12, .remove 0 1, .dropCo 1]).1.drops = [10, 11, 12] := by decide

end Oc.Props.C25
