import OcVerif.Proofs.Pool
import OcVerif.Model.CancelSignal
/-!
# C13 — cancelling a task affects only that task
-/
namespace Oc.Props.C13
open Oc.Pool Oc.Queue

/-- A task cancelled before it starts never runs, and its waiter is settled: when a worker takes it
from the queue it is skipped — nothing is started — and an error result is stored (which removes the
waiter registration). -/
theorem C13_before_start (f : Nat) (p : Pool) (w : Nat) (x : Worker) (pr : Int) (t : Nat) (q' : PQ)
    (hx : p.workers[w]? = some x) (hal : x.alive = true) (hpl : x.plain = false) (hidle : x.task = none)
    (hpop : p.tasks.popMin = some (pr, t, q')) (hc : t ∈ p.cancelTasks) :
    resumeWorker (f + 1) p w =
      resumeWorker f (finish { p with tasks := q', cancelTasks := p.cancelTasks.filter (· != t) } t (.err "The task was cancelled")) w ∧
    (finish { p with tasks := q', cancelTasks := p.cancelTasks.filter (· != t) } t (.err "The task was cancelled")).started = p.started ∧
    (t ∉ (finish { p with tasks := q', cancelTasks := p.cancelTasks.filter (· != t) } t (.err "The task was cancelled")).waits ∨
      t ∈ p.noWaits) := by
  refine ⟨by simp [resumeWorker, hx, hal, hpl, hidle, hpop, hc], ?_, ?_⟩
  · unfold finish; split <;> rfl
  · unfold finish
    by_cases hn : p.noWaits.contains t = true
    · right; simpa using hn
    · left
      simp only [hn, Bool.false_eq_true, if_false]
      simp [setResult]

/-- Requesting the cancel touches nothing but the cancel sets: queue, workers, results, waiters and
the set of started tasks are unchanged — no other task is cancelled, skipped or interrupted by it. -/
theorem C13_cancel_frame (p : Pool) (t : Nat) :
    (cancelTask p t).tasks = p.tasks ∧ (cancelTask p t).workers = p.workers ∧ (cancelTask p t).results = p.results ∧
    (cancelTask p t).waits = p.waits ∧ (cancelTask p t).started = p.started ∧ (cancelTask p t).running = p.running := by
  unfold cancelTask
  split <;> exact ⟨rfl, rfl, rfl, rfl, rfl, rfl⟩

/-- Skipping a cancelled task changes only that task's result and waiter: every other task's result
and waiter registration stay as they were. -/
theorem C13_skip_frame (p : Pool) (t u : Nat) (o : Outcome) (hu : u ≠ t) :
    (setResult p t o).results.find? (fun e => e.1 == u) = p.results.find? (fun e => e.1 == u) ∧
    (u ∈ (setResult p t o).waits ↔ u ∈ p.waits) := by
  constructor
  · simp only [setResult, List.find?_cons]
    have : (t == u) = false := by simp [Ne.symm hu]
    simp only [this]
    induction p.results with
    | nil => rfl
    | cons e r ih =>
      simp only [List.filter_cons]
      by_cases he : e.1 = t
      · have h1 : (e.1 != t) = false := by simp [he]
        have h2 : (e.1 == u) = false := by simp [he, Ne.symm hu]
        simp only [h1, Bool.false_eq_true, if_false, List.find?_cons, h2]; exact ih
      · have h1 : (e.1 != t) = true := by simp [he]
        simp only [h1, if_true, List.find?_cons]
        split
        · rfl
        · exact ih
  · simp [setResult, List.mem_filter, hu]

-- a queued task is cancelled: it never starts, its waiter gets an error, the other task runs
example : ((pass (cancelTask (submit (submit { maxSize := 1 } [.ret 5] 0).1 [.ret 6] 0).1 0)).map
    (fun p => (p.started, p.results))) = some ([1], [(1, .ok 6), (0, .err "The task was cancelled")]) := by decide

theorem tryGrow_results_waits (p : Pool) : (tryGrow p).results = p.results ∧ (tryGrow p).waits = p.waits ∧ (tryGrow p).started = p.started := by
  unfold tryGrow; split
  · exact ⟨rfl, rfl, rfl⟩
  · split <;> exact ⟨rfl, rfl, rfl⟩

/-- A cancel that finds the task suspended inside its worker: at that worker's next turn the
scheduler drops it, and the task it was in the middle of is settled then — the result "cancelled" is
stored, the waiter registration is removed (it is woken), nothing new is started by the drop itself,
and the worker's slot is given back. -/
theorem C13_parked_cancel_settles (p : Pool) (w t : Nat) (x : Worker) (hx : p.workers[w]? = some x)
    (hal : x.alive = true) (ht : x.task = some t) (hnw : p.noWaits.contains t = false) :
    (t, Outcome.err "The task was cancelled") ∈ (dropParked p w).results ∧ t ∉ (dropParked p w).waits ∧
    (dropParked p w).started = p.started := by
  unfold dropParked
  simp only [hx, hal, ht, Bool.not_true, Bool.false_eq_true, if_false]
  rw [(tryGrow_results_waits _).1, (tryGrow_results_waits _).2.1, (tryGrow_results_waits _).2.2]
  unfold finish
  simp only [setWorker, hnw, Bool.false_eq_true, if_false]
  simp [setResult]

/-- …and when nobody wants the task's result (a dropped join handle) nothing is stored for it. -/
theorem C13_parked_cancel_unwanted (p : Pool) (w t : Nat) (x : Worker) (hx : p.workers[w]? = some x)
    (hal : x.alive = true) (ht : x.task = some t) (hnw : p.noWaits.contains t = true) :
    (dropParked p w).results = p.results ∧ t ∉ (dropParked p w).noWaits := by
  have hnwq : ∀ q : Pool, (tryGrow q).noWaits = q.noWaits := by
    intro q; unfold tryGrow; split
    · rfl
    · split <;> rfl
  unfold dropParked
  simp only [hx, hal, ht, Bool.not_true, Bool.false_eq_true, if_false]
  refine ⟨?_, ?_⟩
  · rw [(tryGrow_results_waits _).1]; unfold finish; simp only [setWorker, hnw, if_true]
  · rw [hnwq]; unfold finish; simp only [setWorker, hnw, if_true]; simp

/-! ## cancelling a task that is in progress: the signal and the cancel set -/
section Signal
open Oc.CancelSignal

/-- what the repaired code keeps true: nobody is cancelled, marked or targeted without a request -/
def InvS (s : S) : Prop :=
  s.checked = true → (∀ c ∈ s.cancelled, c ∈ s.requested) ∧ (∀ c ∈ s.deferred, c ∈ s.requested) ∧
    (∀ c, s.target = some c → c ∈ s.requested)

theorem checked_step (s : S) (a : Act) : (step s a).checked = s.checked := by
  cases a with
  | cancel c => simp only [step]; split <;> split <;> rfl
  | switch x =>
    cases x with
    | none => rfl
    | some c => simp only [step]; split <;> (try rfl); split <;> rfl
  | deliver =>
    simp only [step]; split
    · rfl
    · split
      · rfl
      · split
        · split <;> rfl
        · rfl

theorem invS_step (s : S) (a : Act) (h : InvS s) : InvS (step s a) := by
  intro hc
  have hcs : s.checked = true := by rw [← checked_step s a]; exact hc
  obtain ⟨h1, h2, h3⟩ := h hcs
  cases a with
  | cancel c =>
    simp only [step, hcs, if_true]
    split
    · refine ⟨fun x hx => List.mem_cons_of_mem _ (h1 x hx), ?_, ?_⟩
      · intro x hx
        simp only [List.mem_cons] at hx
        cases hx with
        | inl e => subst e; exact List.mem_cons_self
        | inr e => exact List.mem_cons_of_mem _ (h2 x e)
      · intro x hx; simp only [Option.some.injEq] at hx; subst hx; exact List.mem_cons_self
    · refine ⟨fun x hx => List.mem_cons_of_mem _ (h1 x hx), ?_, fun x hx => List.mem_cons_of_mem _ (h3 x hx)⟩
      intro x hx
      simp only [List.mem_cons] at hx
      cases hx with
      | inl e => subst e; exact List.mem_cons_self
      | inr e => exact List.mem_cons_of_mem _ (h2 x e)
  | switch x =>
    cases x with
    | none => exact ⟨h1, h2, h3⟩
    | some c =>
      simp only [step]
      split
      · exact ⟨h1, h2, h3⟩
      · split
        · rename_i hd
          refine ⟨?_, fun x hx => h2 x (List.mem_filter.mp hx).1, h3⟩
          intro x hx
          simp only [List.mem_cons] at hx
          cases hx with
          | inl e => subst e; exact h2 _ hd
          | inr e => exact h1 x e
        · exact ⟨h1, h2, h3⟩
  | deliver =>
    simp only [step]
    split
    · exact ⟨h1, h2, h3⟩
    · split
      · exact ⟨h1, h2, h3⟩
      · rename_i c hcur
        simp only [hcs, if_true]
        split
        · rename_i ht
          refine ⟨?_, fun x hx => h2 x (List.mem_filter.mp hx).1, by intro x hx; simp at hx⟩
          intro x hx
          simp only [List.mem_cons] at hx
          cases hx with
          | inl e => subst e; exact h3 _ ht
          | inr e => exact h1 x e
        · exact ⟨h1, h2, h3⟩

/-- **Only requested coroutines are ever cancelled.** For every sequence of cancel requests, of
switches of the thread between coroutines and of (arbitrarily late) signal deliveries: every
coroutine that ends up cancelled is one a cancel was asked for — the signal never ends the
coroutine that merely happens to be running when it arrives. -/
theorem C13_signal_cancels_only_requested (as : List Act) (c : Nat) (hc : c ∈ (run {} as).cancelled) :
    c ∈ (run {} as).requested := by
  have gen : ∀ (l : List Act) (s : S), InvS s → InvS (l.foldl step s) := by
    intro l
    induction l with
    | nil => intro s h; exact h
    | cons a rest ih => intro s h; exact ih _ (invS_step s a h)
  have hck : ∀ (l : List Act) (s : S), (l.foldl step s).checked = s.checked := by
    intro l
    induction l with
    | nil => intro s; rfl
    | cons a rest ih => intro s; simp only [List.foldl_cons]; rw [ih, checked_step]
  have hinv := gen as {} (fun _ => ⟨by simp, by simp, by simp⟩)
  exact (hinv (by unfold run at *; rw [hck])).1 c hc

/-- A request for a coroutine that is parked, or whose signal arrives too late, is still honoured:
it stays in the scheduler's cancel set and the coroutine is dropped at its next turn. -/
theorem C13_missed_signal_still_cancels :
    (run {} [.switch (some 1), .cancel 1, .switch (some 2), .deliver, .switch (some 1)]).cancelled = [1] ∧
    (run {} [.switch (some 1), .cancel 1, .switch (some 2), .deliver, .switch (some 1)]).current = none := by decide

/-- Before the repair the handler ended whatever coroutine was current: coroutine 1 is asked to be
cancelled while it runs, the thread moves on to coroutine 2, the signal arrives — 2 is cancelled,
1 is not. -/
theorem C13_old_signal_hits_bystander :
    (run { checked := false } [.switch (some 1), .cancel 1, .switch (some 2), .deliver]).cancelled = [2] ∧
    (run { checked := false } [.switch (some 1), .cancel 1, .switch (some 2), .deliver]).requested = [1] := by decide

end Signal

end Oc.Props.C13
