import OcVerif.Proofs.Queue.Idle
/-!
# C06 — work in the shared queue is not starved by local work; idle locals find work

* the tick arithmetic (including the `u32` wrap) guarantees a pop whose tick is a multiple of 61
  within any 61 consecutive pops of one local queue;
* such a pop is served from the shared queue whenever that queue holds an item;
* a local pop reports "empty" only if no queue of the system holds an item (capacity ≥ 1).
-/
namespace Oc.Props.C06
open Oc.Queue List

/-- the tick value returned by the `k`-th pop after a stored tick `t` -/
def tickIter : Nat → Nat → Nat × Nat
  | t, 0 => (t, t)
  | t, k + 1 => nextTick (tickIter t k).1

theorem tickIter_lin (t k : Nat) (h : t + k ≤ U32MAX) : tickIter t k = (t + k, t + k) := by
  induction k with
  | zero => rfl
  | succ k ih =>
    unfold tickIter
    rw [ih (by omega)]
    unfold nextTick
    have : ¬ (t + k ≥ U32MAX) := by omega
    simp only [this, if_false]; rfl

/-- Within any 61 consecutive pops on one local queue, one pop's tick is a multiple of 61 —
also across the `u32` wrap-around of the tick counter. -/
theorem C06_tick_window (t : Nat) (ht : t ≤ U32MAX) :
    ∃ k, 1 ≤ k ∧ k ≤ 61 ∧ (tickIter t k).2 % 61 = 0 := by
  have hU : U32MAX = 4294967295 := by decide
  by_cases hw : t + 61 ≤ U32MAX
  · refine ⟨61 - t % 61, by omega, by omega, ?_⟩
    rw [tickIter_lin t _ (by omega)]
    simp only; omega
  · refine ⟨U32MAX - t + 1, by omega, by omega, ?_⟩
    unfold tickIter
    rw [tickIter_lin t _ (by omega)]
    unfold nextTick
    have : t + (U32MAX - t) ≥ U32MAX := by omega
    simp [this]

/-- A pop whose tick is a multiple of 61 is served from the shared queue whenever the shared
queue holds an item: it returns the shared queue's head (its C05-minimum). -/
theorem C06_served (s : Sys) (i start : Nat) (l : Local) (hl : s.locals[i]? = some l)
    (hlen : s.slen = s.shared.vals.length) (hne : s.shared.vals ≠ [])
    (htick : (nextTick l.tick).2 % 61 = 0) :
    (popLocal s i start).2 = s.shared.vals.head? := by
  unfold popLocal
  simp only [hl, htick, if_true]
  have hps : (popShared (setLocal s i { l with tick := (nextTick l.tick).1 })).2 = s.shared.vals.head? := by
    unfold popShared
    have h0 : ¬ (setLocal s i { l with tick := (nextTick l.tick).1 }).slen = 0 := by
      simp only [setLocal]; rw [hlen]
      intro h; exact hne (List.length_eq_zero_iff.mp h)
    simp only [h0, if_false]
    obtain ⟨⟨p, x, q'⟩, hq⟩ := PQ.popMin_some_of_vals (q := s.shared) hne
    have hv := PQ.popMin_vals hq
    simp only [setLocal, hq, hv, List.head?_cons]
  have hsome : (popShared (setLocal s i { l with tick := (nextTick l.tick).1 })).2.isSome = true := by
    rw [hps]; cases hv : s.shared.vals with
    | nil => exact absurd hv hne
    | cons a b => rfl
  simp only [hsome, if_true]
  exact hps

theorem rot_cover (start j N : Nat) (hj : j < N) : (start + (j + N - start % N) % N) % N = j := by
  have hr : start % N < N := Nat.mod_lt _ (by omega)
  rw [Nat.add_mod_mod]
  have : start + (j + N - start % N) = N * (start / N) + (j + N) := by
    have := Nat.div_add_mod start N
    omega
  rw [this, Nat.mul_add_mod, Nat.add_mod_right, Nat.mod_eq_of_lt hj]

/-- An idle local queue obtains work that is waiting in a sibling or in the shared queue rather
than reporting empty: if a local pop returns nothing, no queue of the system holds an item.
(Capacity ≥ 1; for the degenerate capacity 0 nothing is ever stored locally, see DESIGN.md.) -/
theorem C06_idle (s : Sys) (i start : Nat) (hi : i < s.locals.length) (hc : 0 < s.cap)
    (hlen : s.slen = s.shared.vals.length) (h : (popLocal s i start).2 = none) :
    s.resident = [] := by
  have hl : s.locals[i]? = some s.locals[i] := List.getElem?_eq_getElem hi
  generalize hli : s.locals[i] = l at hl
  unfold popLocal at h
  simp only [hl] at h
  -- the state after the tick update
  generalize hs0 : setLocal s i { l with tick := (nextTick l.tick).1 } = s0 at h
  have hsh : s0.shared = s.shared := by subst hs0; rfl
  have hsl : s0.slen = s.slen := by subst hs0; rfl
  have hcap : s0.cap = s.cap := by subst hs0; rfl
  have hn0 : s0.locals.length = s.locals.length := by subst hs0; exact setLocal_length _ _ _
  have hl0 : s0.locals[i]? = some { l with tick := (nextTick l.tick).1 } := by
    subst hs0; rw [List.getElem?_eq_getElem (by rw [setLocal_length]; exact hi)]; simp [setLocal]
  have hvals0 : ∀ (j : Nat) (lj : Local), s0.locals[j]? = some lj → ∃ lj' : Local, s.locals[j]? = some lj' ∧ lj'.q = lj.q := by
    intro j lj hj
    subst hs0
    obtain ⟨hjl, hje⟩ := getElem?_some_lt hj
    have hjl' : j < s.locals.length := by rw [setLocal_length] at hjl; exact hjl
    by_cases hij : j = i
    · subst hij
      refine ⟨l, hl, ?_⟩
      simp [setLocal] at hje; rw [← hje]
    · refine ⟨s.locals[j], List.getElem?_eq_getElem hjl', ?_⟩
      simp [setLocal, Ne.symm hij] at hje; rw [hje]
  -- the rest of the pop returned none
  have hrest : (popLocalRest s0 i start).2 = none := by
    split at h
    · split at h
      · rename_i hsome; rw [h] at hsome; simp at hsome
      · exact h
    · exact h
  unfold popLocalRest at hrest
  split at hrest
  · rename_i hsome; rw [hrest] at hsome; simp at hsome
  · rename_i hown
    have hownv : ({ l with tick := (nextTick l.tick).1 } : Local).q.vals = [] := by
      rw [← popLocalOnly_none_iff hl0]
      cases hh : (popLocalOnly s0 i).2 with
      | none => rfl
      | some x => rw [hh] at hown; simp at hown
    have hempty : ({ l with tick := (nextTick l.tick).1 } : Local).q.len = 0 := by
      rw [PQ.len_eq, hownv]; rfl
    split at hrest
    · rename_i s3 hs3
      obtain ⟨l3, hl3, hne3⟩ := stealLoop_thief_nonempty hs3
      rw [popLocalOnly_none_iff hl3] at hrest
      exact absurd hrest hne3
    · rename_i hsl0
      -- every local queue is empty
      have hall := stealLoop_none_all hl0 (by rw [hcap]; exact hc) hempty s0.locals.length (Nat.le_refl _) hsl0
      have hlocals : ∀ lj ∈ s.locals, lj.q.vals = [] := by
        intro lj hmem
        obtain ⟨j, hj, rfl⟩ := List.getElem_of_mem hmem
        have hj0 : j < s0.locals.length := by rw [hn0]; exact hj
        have hnum : 0 < s0.locals.length := by omega
        -- choose m with (start + m) % num = j
        let m := (j + s0.locals.length - start % s0.locals.length) % s0.locals.length
        have hm : m < s0.locals.length := Nat.mod_lt _ hnum
        have hmj : (start + m) % s0.locals.length = j := rot_cover start j s0.locals.length hj0
        have hget : s0.locals[(start + m) % s0.locals.length]? = some (s0.locals[j]'hj0) := by
          rw [hmj]; exact List.getElem?_eq_getElem hj0
        have := hall m (by omega) hm _ hget
        obtain ⟨lj', hlj', hq⟩ := hvals0 j _ (List.getElem?_eq_getElem hj0)
        rw [List.getElem?_eq_getElem hj] at hlj'
        simp only [Option.some.injEq] at hlj'
        rw [hlj', hq]; exact this
      -- and so is the shared queue
      have hshared : s.shared.vals = [] := by
        unfold popShared at hrest
        rw [hsl, hsh] at hrest
        split at hrest
        · rename_i h0; rw [hlen] at h0; exact List.length_eq_zero_iff.mp h0
        · split at hrest
          · rename_i hq; exact PQ.popMin_none hq
          · simp at hrest
      unfold Sys.resident
      rw [hshared, List.nil_append, List.flatMap_eq_nil_iff]
      exact hlocals

/-- For every reachable state (any history), with capacity ≥ 1: a local pop that reports empty
means every queue is empty — combines `C06_idle` with the reachability invariants. -/
theorem C06_idle_reachable (n cap : Nat) (hc : 0 < cap) (ops : List Op) (s : Sys) (outs : List Item)
    (hr : run (mk n cap) ops = some (s, outs)) (i start : Nat) (hi : i < s.locals.length)
    (h : (popLocal s i start).2 = none) : s.resident = [] := by
  have hlen := lenOk_run (s := mk n cap) (by simp [LenOk, mk]) hr
  have hcap : s.cap = cap := by
    have : ∀ (s s' : Sys) (ops : List Op) (outs : List Item), run s ops = some (s', outs) → s'.cap = s.cap := by
      intro s s' ops
      induction ops generalizing s with
      | nil => intro outs h; simp only [run, Option.some.injEq, Prod.mk.injEq] at h; rw [h.1]
      | cons o os ih =>
        intro outs h
        unfold run at h
        split at h
        · simp at h
        · rename_i s1 r hst
          split at h
          · simp at h
          · rename_i s2 o2 hr2
            simp only [Option.some.injEq, Prod.mk.injEq] at h
            obtain ⟨rfl, _⟩ := h
            rw [ih s1 o2 hr2]
            -- one step keeps the capacity
            cases o with
            | gpush p y => simp only [step, Option.some.injEq, Prod.mk.injEq] at hst; rw [← hst.1]; rfl
            | gpop =>
              simp only [step, Option.some.injEq] at hst
              have : (popShared s).1.cap = s.cap := by unfold popShared; split; rfl; split <;> rfl
              rw [hst] at this; exact this
            | lpush i p y =>
              simp only [step, Option.map_eq_some_iff, Prod.mk.injEq] at hst
              obtain ⟨s1', hs1, rfl, _⟩ := hst
              have hpa : ∀ (s : Sys) m, (pushAllShared s m).cap = s.cap := by
                intro s m; induction m generalizing s with
                | nil => rfl
                | cons e m ih => simp only [pushAllShared, List.foldl_cons] at ih ⊢; rw [ih]; rfl
              unfold pushLocal at hs1
              split at hs1
              · simp at hs1
              · have hg : ∀ s', pushToGlobal (pushFuel s i) s i p y = some s' → s'.cap = s.cap := by
                  intro s' hg
                  unfold pushToGlobal at hg
                  split at hg
                  · simp at hg
                  · split at hg
                    · simp at hg
                    · simp only [Option.some.injEq] at hg; subst hg
                      simp only [pushShared, hpa]; rfl
                split at hs1
                · exact hg _ hs1
                · split at hs1
                  · exact hg _ hs1
                  · simp only [Option.some.injEq] at hs1; subst hs1; rfl
            | lpop i start =>
              simp only [step] at hst
              split at hst
              · simp only [Option.some.injEq] at hst
                have hpo : ∀ (s : Sys) i, (popLocalOnly s i).1.cap = s.cap := by
                  intro s i; unfold popLocalOnly; split; rfl; split <;> rfl
                have hps : ∀ (s : Sys), (popShared s).1.cap = s.cap := by
                  intro s; unfold popShared; split; rfl; split <;> rfl
                have hsf : ∀ (s s' : Sys) i j, stealFrom s i j = some s' → s'.cap = s.cap := by
                  intro s s' i j h
                  unfold stealFrom at h
                  split at h
                  · split at h
                    · simp at h
                    · split at h
                      · simp only [Option.some.injEq] at h; subst h; rfl
                      · simp at h
                  · simp at h
                have hslp : ∀ (s s' : Sys) i st k, stealLoop s i st k = some s' → s'.cap = s.cap := by
                  intro s s' i st k
                  induction k with
                  | zero => intro h; simp [stealLoop] at h
                  | succ k ih =>
                    intro h
                    unfold stealLoop at h
                    simp only at h
                    split at h
                    · split at h
                      · simp at h
                      · split at h
                        · rename_i s1 hs1; simp only [Option.some.injEq] at h; subst h; exact hsf _ _ _ _ hs1
                        · exact ih h
                    · simp at h
                have hpr : ∀ (s : Sys) i st, (popLocalRest s i st).1.cap = s.cap := by
                  intro s i st
                  unfold popLocalRest
                  split
                  · exact hpo s i
                  · split
                    · rename_i s3 hs3; rw [hpo, hslp _ _ _ _ _ hs3]
                    · exact hps s
                have : (popLocal s i start).1.cap = s.cap := by
                  unfold popLocal
                  split
                  · rfl
                  · split
                    · split
                      · rw [hps]; rfl
                      · rw [hpr]; rfl
                    · rw [hpr]; rfl
                rw [hst] at this; exact this
              · simp at hst
    have := this _ _ _ _ hr
    simpa [mk] using this
  exact C06_idle s i start hi (by omega) hlen h

-- non-vacuity: tick 60 → the next pop (tick 61) serves the shared queue although the local one is non-empty
example : (popLocal { cap := 4, shared := [(5, [7])], slen := 1, locals := [{ q := [(0, [1, 2])], tick := 60 }] } 0 0).2 = some 7 := by decide
example : (tickIter 4294967290 6).2 = 0 := by decide

end Oc.Props.C06
