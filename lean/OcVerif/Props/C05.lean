import OcVerif.Proofs.Queue.Asc
/-!
# C05 — higher-priority work is served first, FIFO among equals

"Within one queue" = the shared queue or one local queue. Each queue of the model is shown to
refine the abstract *stable sorted list*: a push is a stable insertion, a pop takes the head.
Quantifier: all histories (so all reachable queues), all `Int` priorities (⊇ i64, extremes
included), all capacities.
-/
namespace Oc.Props.C05
open Oc.Queue List

/-- Pushing is stable insertion into the priority-sorted view: behind every item whose priority
value is not larger (higher or equal priority, pushed earlier), before all strictly lower ones. -/
theorem C05_push_is_stable_insert (q : PQ) (p : Int) (x : Item) (hq : KeysAsc q) :
    (q.push p x).items = insertStable q.items p x ∧ KeysAsc (q.push p x) :=
  ⟨items_push q p x hq, keysAsc_push q p x hq⟩

/-- A pop returns the head of the sorted view: no remaining item has a strictly smaller priority
value, so no higher-priority item is left waiting. -/
theorem C05_pop_is_min (q : PQ) (hq : KeysAsc q) (p : Int) (x : Item) (q' : PQ)
    (h : q.popMin = some (p, x, q')) :
    q.items = (p, x) :: q'.items ∧ ∀ e ∈ q'.items, p ≤ e.1 := by
  have hi := popMin_items h
  refine ⟨hi, ?_⟩
  have hs := items_sorted q hq
  rw [hi] at hs
  exact (List.pairwise_cons.mp hs).1

/-- Items of equal priority come out in push order: a push appends to the sub-sequence of its
own priority and leaves every other priority's sub-sequence untouched. -/
theorem C05_equal_priority_fifo (q : PQ) (p : Int) (x : Item) (k : Int) (hq : KeysAsc q) :
    (q.push p x).items.filter (fun e => e.1 == k) =
      q.items.filter (fun e => e.1 == k) ++ (if p == k then [(p, x)] else []) := by
  rw [items_push q p x hq]
  exact insertStable_stable q.items p x k (items_sorted q hq)

theorem foldl_insert_props (acc xs : List (Int × Item)) (hs : acc.Pairwise (fun a b => a.1 ≤ b.1)) :
    (xs.foldl (fun acc e => insertStable acc e.1 e.2) acc).Pairwise (fun a b => a.1 ≤ b.1) ∧
    (xs.foldl (fun acc e => insertStable acc e.1 e.2) acc).Perm (acc ++ xs) ∧
    ∀ k, (xs.foldl (fun acc e => insertStable acc e.1 e.2) acc).filter (fun e => e.1 == k) =
         acc.filter (fun e => e.1 == k) ++ xs.filter (fun e => e.1 == k) := by
  induction xs generalizing acc with
  | nil => simp [hs]
  | cons e r ih =>
    obtain ⟨p, x⟩ := e
    have h1 := insertStable_sorted acc p x hs
    obtain ⟨ha, hb, hc⟩ := ih (insertStable acc p x) h1
    refine ⟨ha, ?_, ?_⟩
    · refine hb.trans ?_
      refine ((insertStable_perm acc p x).append_right r).trans ?_
      simp only [List.cons_append]
      exact perm_middle.symm
    · intro k
      rw [List.foldl_cons, hc k, insertStable_stable acc p x k hs, List.filter_cons]
      by_cases hpk : p == k <;> simp [hpk]

/-- A single queue that never overflows is a stable priority sort: pushing `xs` and popping
everything returns a permutation of `xs`, in non-decreasing priority value, equal priorities in
push order.  (The "single pool worker, no more tasks queued than the local capacity" clause.) -/
theorem C05_single_queue_sorted (xs : List (Int × Item)) :
    let out := drainPQ xs.length (pushAll [] xs)
    out.Pairwise (fun a b => a.1 ≤ b.1) ∧ out.Perm xs ∧
    ∀ k, out.filter (fun e => e.1 == k) = xs.filter (fun e => e.1 == k) := by
  have hq := pushAll_spec [] xs (by simp [KeysAsc])
  have hp := foldl_insert_props [] xs (by simp)
  have hitems : (pushAll [] xs).items = xs.foldl (fun acc e => insertStable acc e.1 e.2) [] := by
    simpa [PQ.items] using hq.2
  have hlen : (pushAll [] xs).items.length ≤ xs.length := by
    rw [hitems, hp.2.1.length_eq]; simp
  simp only
  rw [drainPQ_items _ _ hlen, hitems]
  refine ⟨hp.1, by simpa using hp.2.1, ?_⟩
  intro k; simpa using hp.2.2 k

/-- Every queue of every reachable system state keeps its keys ordered, so the three theorems
above apply to the shared queue and to each local queue after any history (overflow and steals
included). -/
theorem C05_reachable_ordered (n cap : Nat) (ops : List Op) (s : Sys) (outs : List Item)
    (h : run (mk n cap) ops = some (s, outs)) : KeysAsc s.shared ∧ ∀ l ∈ s.locals, KeysAsc l.q :=
  sysAsc_run (sysAsc_mk n cap) h

/-- A pop served from the shared queue returns that queue's minimum. -/
theorem C05_shared_pop_min (s : Sys) (hs : KeysAsc s.shared) (x : Item)
    (h : (popShared s).2 = some x) :
    ∃ p, s.shared.items = (p, x) :: (popShared s).1.shared.items ∧ ∀ e ∈ (popShared s).1.shared.items, p ≤ e.1 := by
  by_cases h0 : s.slen = 0
  · simp [popShared, h0] at h
  · cases hq : s.shared.popMin with
    | none => simp [popShared, h0, hq] at h
    | some r =>
      obtain ⟨p, y, q'⟩ := r
      simp only [popShared, h0, if_false, hq, Option.some.injEq] at h ⊢
      subst h
      exact ⟨p, C05_pop_is_min _ hs p y q' hq⟩

/-- A pop served from a local queue returns that queue's minimum. -/
theorem C05_local_pop_min (s : Sys) (i : Nat) (l : Local) (hl : s.locals[i]? = some l) (hq : KeysAsc l.q)
    (x : Item) (h : (popLocalOnly s i).2 = some x) :
    ∃ p q', l.q.popMin = some (p, x, q') ∧ l.q.items = (p, x) :: q'.items ∧ ∀ e ∈ q'.items, p ≤ e.1 := by
  unfold popLocalOnly at h
  simp only [hl] at h
  split at h
  · simp at h
  · rename_i p y q' hpm
    simp only [Option.some.injEq] at h; subst h
    exact ⟨p, q', hpm, C05_pop_is_min _ hq p y q' hpm⟩

/-- i64 extremes are ordinary keys: the order used is `Int`'s order on the priority values. -/
theorem C05_i64_extremes :
    drainPQ 5 (pushAll [] [(9223372036854775807, 0), (0, 1), (-9223372036854775808, 2), (0, 3), (-1, 4)])
      = [(-9223372036854775808, 2), (-1, 4), (0, 1), (0, 3), (9223372036854775807, 0)] := by decide

/-- The documented example `0,3,1,2` (an item pushed later overtakes two that overflowed to the
shared queue) is allowed by "within one queue" — kept so the Spec cannot silently become stronger. -/
theorem C05_doc_example :
    (run (mk 1 2) [.lpush 0 0 0, .lpush 0 1 1, .lpush 0 2 2, .lpush 0 3 3,
                   .lpop 0 0, .lpop 0 0, .lpop 0 0, .lpop 0 0, .lpop 0 0]).map (·.2) = some [0, 3, 1, 2] := by decide

end Oc.Props.C05
