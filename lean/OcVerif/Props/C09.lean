import OcVerif.Proofs.Coroutine
/-!
# C09 — delay and cancel requests affect only the coroutine that made them
-/
namespace Oc.Props.C09
open Oc.Co

/-- The thread's request stacks are empty again after every resume — whatever the body did: plain
suspends, timed delays, cancels, and yields made while inside a system call. So no request can
ever reach a coroutine other than the one that made it. -/
theorem C09_stacks_balanced (th : Th) (c : Co) (p : Nat) (ht : th.ts = []) (hc : th.cn = []) :
    (resume th c p).1.ts = [] ∧ (resume th c p).1.cn = [] := resume_balanced th c p ht hc

/-- Any sequence of resumes of any coroutines on one thread. -/
theorem C09_balanced_all (th : Th) (cs : List (Co × Nat)) (ht : th.ts = []) (hc : th.cn = []) :
    (cs.foldl (fun (t : Th) (cp : Co × Nat) => (resume t cp.1 cp.2).1) th).ts = [] ∧
    (cs.foldl (fun (t : Th) (cp : Co × Nat) => (resume t cp.1 cp.2).1) th).cn = [] := by
  induction cs generalizing th with
  | nil => exact ⟨ht, hc⟩
  | cons cp rest ih =>
    have := resume_balanced th cp.1 cp.2 ht hc
    exact ih _ this.1 this.2

/-- With balanced stacks a plain suspend reports time 0 and "not cancelled" … -/
theorem C09_plain_suspend (th : Th) (c : Co) (p y : Nat) (rest : List Step) (ht : th.ts = []) (hcn : th.cn = [])
    (hs : c.state = .ready) (hp : c.prog = .susp y :: rest) (hd : c.done = false) (hc : c.inCancel = false) :
    (resume th c p).2.2 = .state (.suspend y 0) := by
  simp [resume, hs, Co.toRunning, Co.change, hp, hd, hc, runBody, afterSwitch, Co.toSuspend, ht, hcn]

/-- … a timed one exactly its own time … -/
theorem C09_until_own_time (th : Th) (c : Co) (p y t : Nat) (rest : List Step) (ht : th.ts = []) (hcn : th.cn = [])
    (hs : c.state = .ready) (hp : c.prog = .until_ y t :: rest) (hd : c.done = false) (hc : c.inCancel = false) :
    (resume th c p).2.2 = .state (.suspend y t) := by
  simp [resume, hs, Co.toRunning, Co.change, hp, hd, hc, runBody, afterSwitch, Co.toSuspend, ht, hcn]

/-- … and a yield made in syscall state leaves nothing behind for the next coroutine: the very
history that leaked before the fix (A: syscall state + until(T); then B: plain suspend). -/
theorem C09_syscall_yield_does_not_leak :
    let a : Co := { prog := [.enter, .setSys (.susp 12345), .until_ 0 999999999999999999] }
    let b : Co := { prog := [.susp 7] }
    let r1 := resume { now := 1000 } a 1
    (resume r1.1 b 2).2.2 = .state (.suspend 7 0) := by decide

end Oc.Props.C09
