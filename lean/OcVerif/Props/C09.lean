import OcVerif.Proofs.Coroutine
import OcVerif.Model.Migrate
/-!
# C09 — delay and cancel requests affect only the coroutine that made them
-/
namespace Oc.Props.C09
open Oc.Co

/-- The thread's request stacks are empty again after every resume — whatever the body did: plain
suspends, timed delays, cancels, and yields made while inside a system call. So no request can
ever reach a coroutine other than the one that made it. -/
theorem C09_stacks_balanced (th : Th) (c : Co) (p : Nat) (ht : th.ts = []) (hc : th.cn = []) :
    (resume th c p).1.ts = [] ∧ (resume th c p).1.cn = [] := resume_balanced th c p ht hc

/-- Any sequence of resumes of any coroutines on one thread. -/
theorem C09_balanced_all (th : Th) (cs : List (Co × Nat)) (ht : th.ts = []) (hc : th.cn = []) :
    (cs.foldl (fun (t : Th) (cp : Co × Nat) => (resume t cp.1 cp.2).1) th).ts = [] ∧
    (cs.foldl (fun (t : Th) (cp : Co × Nat) => (resume t cp.1 cp.2).1) th).cn = [] := by
  induction cs generalizing th with
  | nil => exact ⟨ht, hc⟩
  | cons cp rest ih =>
    have := resume_balanced th cp.1 cp.2 ht hc
    exact ih _ this.1 this.2

/-- With balanced stacks a plain suspend reports time 0 and "not cancelled" … -/
theorem C09_plain_suspend (th : Th) (c : Co) (p y : Nat) (rest : List Step) (ht : th.ts = []) (hcn : th.cn = [])
    (hs : c.state = .ready) (hp : c.prog = .susp y :: rest) (hd : c.done = false) (hc : c.inCancel = false) :
    (resume th c p).2.2 = .state (.suspend y 0) := by
  simp [resume, hs, Co.toRunning, Co.change, hp, hd, hc, runBody, afterSwitch, Co.toSuspend, ht, hcn]

/-- … a timed one exactly its own time … -/
theorem C09_until_own_time (th : Th) (c : Co) (p y t : Nat) (rest : List Step) (ht : th.ts = []) (hcn : th.cn = [])
    (hs : c.state = .ready) (hp : c.prog = .until_ y t :: rest) (hd : c.done = false) (hc : c.inCancel = false) :
    (resume th c p).2.2 = .state (.suspend y t) := by
  simp [resume, hs, Co.toRunning, Co.change, hp, hd, hc, runBody, afterSwitch, Co.toSuspend, ht, hcn]

/-- … and a yield made in syscall state leaves nothing behind for the next coroutine: the very
history that leaked before the fix (A: syscall state + until(T); then B: plain suspend). -/
theorem C09_syscall_yield_does_not_leak :
    let a : Co := { prog := [.enter, .setSys (.susp 12345), .until_ 0 999999999999999999] }
    let b : Co := { prog := [.susp 7] }
    let r1 := resume { now := 1000 } a 1
    (resume r1.1 b 2).2.2 = .state (.suspend 7 0) := by decide

/-! ## coroutines that migrate between threads -/
section Migrate
open Oc.Migrate

/-- every thread's "current" stack holds exactly the coroutine that thread is executing -/
def InvMg (s : S) : Prop := s.fresh = true → ∀ t, s.stack t = (s.running t).toList

theorem fresh_step (s : S) (a : Act) : (step s a).fresh = s.fresh := by
  cases a <;> (simp only [step]; split <;> rfl)

theorem invMg_step (s : S) (a : Act) (h : InvMg s) : InvMg (step s a) := by
  intro hf
  have hfs : s.fresh = true := by rw [← fresh_step s a]; exact hf
  have h0 := h hfs
  cases a with
  | resume t c =>
    simp only [step]
    split
    · exact h0
    · rename_i hr
      intro u
      simp only [hfs, if_true, upd]
      by_cases hu : u = t
      · subst hu; simp [h0 u, hr]
      · simp [hu, h0 u]
  | suspend t =>
    simp only [step]
    split
    · exact h0
    · rename_i c hr
      intro u
      simp only [upd]
      by_cases hu : u = t
      · subst hu; simp [h0 u, hr]
      · simp [hu, h0 u]

/-- **The current pointers follow the coroutine.** For every sequence of suspensions and resumptions
on any threads — a coroutine may be resumed by another thread than the one it was suspended on —
each thread's stack of current entries holds exactly the coroutine that thread is executing: a request
(delay, cancel) or a lookup made through it concerns that coroutine and no other. -/
theorem C09_current_follows_migration (as : List Act) (t : Nat) :
    (run {} as).stack t = ((run {} as).running t).toList := by
  have gen : ∀ (l : List Act) (s : S), InvMg s → InvMg (l.foldl step s) := by
    intro l
    induction l with
    | nil => intro s h; exact h
    | cons a rest ih => intro s h; exact ih _ (invMg_step s a h)
  have hfr : ∀ (l : List Act) (s : S), (l.foldl step s).fresh = s.fresh := by
    intro l
    induction l with
    | nil => intro s; rfl
    | cons a rest ih => intro s; simp only [List.foldl_cons]; rw [ih, fresh_step]
  have hinv := gen as {} (fun _ _ => rfl)
  exact hinv (by rw [hfr]) t

/-- With the address computed before the switch (the inlined accessors before the repair): coroutine 7
starts on thread 0, suspends, is resumed by thread 1 — its entry lands on thread 0's stack, thread 1
executes it without any current entry, and whoever runs next on thread 0 finds 7's entry. -/
theorem C09_old_cached_address_counterexample :
    (run { fresh := false } [.resume 0 7, .suspend 0, .resume 1 7]).stack 0 = [7] ∧
    (run { fresh := false } [.resume 0 7, .suspend 0, .resume 1 7]).stack 1 = [] ∧
    (run { fresh := false } [.resume 0 7, .suspend 0, .resume 1 7]).running 1 = some 7 := by decide

end Migrate

end Oc.Props.C09
