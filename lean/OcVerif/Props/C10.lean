import OcVerif.Model.Scheduler
import OcVerif.Proofs.Coroutine
/-!
# C10 — scheduler completes each coroutine once and honours delays and cancels

Statements about `check_ready` and one iteration of the `do_schedule` loop (`Sched.iter`), which hold
from every scheduler state, hence for every set of programs, priorities, pass times and cancel
times. A pass is `iter` repeated until the ready queue is empty.
-/
namespace Oc.Props.C10
open Oc.Co Oc.Sched Oc.Queue

theorem minDue_due (l : List (Nat × Nat)) (now : Nat) (e : Nat × Nat) (h : minDue l now = some e) :
    e.1 ≤ now ∧ e ∈ l := by
  unfold minDue at h
  have key : ∀ (xs : List (Nat × Nat)) (acc : Option (Nat × Nat)),
      (∀ a, acc = some a → a.1 ≤ now ∧ a ∈ l) → (∀ x ∈ xs, x.1 ≤ now ∧ x ∈ l) →
      ∀ r, xs.foldl (fun acc e => match acc with
        | none => some e
        | some a => if e.1 < a.1 then some e else some a) acc = some r → r.1 ≤ now ∧ r ∈ l := by
    intro xs
    induction xs with
    | nil => intro acc ha _ r hr; exact ha r hr
    | cons x rest ih =>
      intro acc ha hx r hr
      simp only [List.foldl_cons] at hr
      apply ih _ _ (fun y hy => hx y (by simp [hy])) r hr
      intro a haa
      cases acc with
      | none => simp only [Option.some.injEq] at haa; subst haa; exact hx x (by simp)
      | some a0 =>
        simp only at haa
        split at haa
        · simp only [Option.some.injEq] at haa; subst haa; exact hx x (by simp)
        · simp only [Option.some.injEq] at haa; subst haa; exact ha a0 rfl
  apply key _ none (by intro a h; simp at h) _ e h
  intro x hx
  simp only [List.mem_filter, decide_eq_true_eq] at hx
  exact ⟨hx.2, hx.1⟩

theorem minDue_none (l : List (Nat × Nat)) (now : Nat) (h : minDue l now = none) : ∀ e ∈ l, ¬ e.1 ≤ now := by
  unfold minDue at h
  have key : ∀ (xs : List (Nat × Nat)) (acc : Option (Nat × Nat)),
      xs.foldl (fun acc e => match acc with
        | none => some e
        | some a => if e.1 < a.1 then some e else some a) acc = none → acc = none ∧ xs = [] := by
    intro xs
    induction xs with
    | nil => intro acc h; exact ⟨h, rfl⟩
    | cons x rest ih =>
      intro acc h
      simp only [List.foldl_cons] at h
      have := (ih _ h).1
      cases acc with
      | none => simp at this
      | some a => simp only at this; split at this <;> simp at this
  have := (key _ none h).2
  intro e he hle
  have : e ∈ l.filter (fun e => decide (e.1 ≤ now)) := by simp [List.mem_filter, he, hle]
  rw [(key _ none h).2] at this
  simp at this

/-- A delayed coroutine is never made ready before its wake-up time: `check_ready` only wakes
entries whose time has come (every entry it takes from the suspend heap is due). -/
theorem C10_not_early (fuel : Nat) (s : Sch) (i : Nat) (ts : Nat) (hin : (ts, i) ∈ s.suspend) (hlate : s.th.now < ts)
    (hnow : ∀ s' : Sch, True) : (ts, i) ∈ (wakeSuspended fuel s).suspend := by
  induction fuel generalizing s with
  | zero => exact hin
  | succ f ih =>
    unfold wakeSuspended
    cases hm : minDue s.suspend s.th.now with
    | none => exact hin
    | some e =>
      obtain ⟨ets, ei⟩ := e
      have hdue := (minDue_due _ _ _ hm).1
      have hne : (ts, i) ≠ (ets, ei) := by
        intro h; simp only [Prod.mk.injEq] at h; simp only at hdue; omega
      have hin' : (ts, i) ∈ s.suspend.filter (fun e => e != (ets, ei)) := by
        simp [List.mem_filter, hin, hne]
      simp only
      split
      · exact ih _ hin' hlate
      · split
        · exact ih _ hin' hlate
        · exact ih _ (by simpa [setCo] using hin') (by simpa [setCo] using hlate)

/-- …and the first pass at or after its wake-up time takes it out of the suspend heap: after
`check_ready` no due entry is left waiting. -/
theorem C10_due_are_woken (fuel : Nat) (s : Sch) (hf : s.suspend.length < fuel) :
    ∀ e ∈ (wakeSuspended fuel s).suspend, ¬ e.1 ≤ (wakeSuspended fuel s).th.now := by
  induction fuel generalizing s with
  | zero => omega
  | succ f ih =>
    unfold wakeSuspended
    cases hm : minDue s.suspend s.th.now with
    | none => exact minDue_none _ _ hm
    | some e =>
      obtain ⟨ets, ei⟩ := e
      have hmem := (minDue_due _ _ _ hm).2
      have hlen : (s.suspend.filter (fun e => e != (ets, ei))).length < f := by
        have : (s.suspend.filter (fun e => e != (ets, ei))).length < s.suspend.length := by
          apply List.length_filter_lt_length_iff_exists.mpr
          exact ⟨(ets, ei), hmem, by simp⟩
        omega
      simp only
      split
      · exact ih _ hlen
      · split
        · exact ih _ hlen
        · exact ih _ (by simpa [setCo] using hlen)

/-- A coroutine whose cancel was requested before its next resumption is not resumed again: the
iteration that pops it drops it, no coroutine state changes, nothing is reported. -/
theorem C10_cancelled_not_resumed (s : Sch) (o : PassOut) (p : Int) (i : Nat) (q' : PQ)
    (hpop : (checkReady s).ready.popMin = some (p, i, q')) (hc : i ∈ (checkReady s).cancel) :
    (iter s o).2.2 = .dropped i ∧ (iter s o).1.cos = (checkReady s).cos ∧ (iter s o).2.1.resumed = o.resumed ∧
    (iter s o).2.1.results = o.results := by
  simp [iter, hpop, hc]

/-- No other coroutine is affected: resuming or dropping coroutine `i` leaves every other coroutine
exactly as it was (states, remaining programs, logs). -/
theorem C10_frame (s : Sch) (o : PassOut) (p : Int) (i : Nat) (q' : PQ)
    (hpop : (checkReady s).ready.popMin = some (p, i, q')) (j : Nat) (hj : j ≠ i) :
    (iter s o).1.cos[j]? = (checkReady s).cos[j]? := by
  have hpark : ∀ (s : Sch) o i res, (park s o i res).1.cos = s.cos := by
    intro s o i res
    unfold park
    split <;> try rfl
    split <;> rfl
  unfold iter
  simp only [hpop]
  split
  · rfl
  · split
    · rfl
    · rw [hpark]; simp [absorb, List.getElem?_set, Ne.symm hj]

/-- A result is reported exactly when the coroutine finishes, it is the coroutine's own outcome, and
a finished coroutine is put into no queue again (so it can never be reported a second time). -/
theorem C10_result_when_finished (s : Sch) (o : PassOut) (i : Nat) (r : Nat) :
    (park s o i (.state (.complete r))).2.1.results = o.results ++ [(i, .ok r)] ∧
    (park s o i (.state (.complete r))).1 = s := by
  simp [park]

theorem C10_error_when_failed (s : Sch) (o : PassOut) (i : Nat) (m : String) :
    (park s o i (.state (.error m))).2.1.results = o.results ++ [(i, .err m)] ∧
    (park s o i (.state (.error m))).1 = s := by
  simp [park]

/-- A coroutine that asked for a later wake-up goes to the suspend heap with exactly that time, one
that yields without delay goes back to the ready queue; nothing is reported for either. -/
theorem C10_park_delayed (s : Sch) (o : PassOut) (i y ts : Nat) :
    (ts > s.th.now → (park s o i (.state (.suspend y ts))).1.suspend = (ts, i) :: s.suspend ∧
                     (park s o i (.state (.suspend y ts))).1.ready = s.ready) ∧
    (¬ ts > s.th.now → (park s o i (.state (.suspend y ts))).1.ready = s.ready.push (prioOf s i) i) ∧
    (park s o i (.state (.suspend y ts))).2.1.results = o.results := by
  by_cases h : ts > s.th.now <;> simp [park, h]

example : ((pass (submit (submit { th := { now := 1000 } } [.until_ 0 5000, .ret 7] 0) [.ret 9] 3)).2.results) = [(1, .ok 9)] := by decide

theorem park_cancel (s : Sch) (o : PassOut) (i : Nat) (res : Res) (hres : res ≠ .state .cancelled) :
    (park s o i res).1.cancel = s.cancel := by
  unfold park
  split <;> try rfl
  · split <;> rfl
  · exact absurd rfl hres

theorem park_cancel_sub (s : Sch) (o : PassOut) (i j : Nat) (res : Res) (hj : j ∈ s.cancel) (hne : j ≠ i) :
    j ∈ (park s o i res).1.cancel := by
  unfold park
  split <;> try exact hj
  · split <;> exact hj
  · simp only [List.mem_filter]; exact ⟨hj, by simpa using hne⟩

/-- **A cancel request persists until it is honoured.** One iteration of the scheduling loop removes
from the cancel set only the coroutine it popped and dropped, or the coroutine it resumed and that
ended as Cancelled (its request is served): every other pending request — whether made between
passes or by a coroutine body during its own slice — is still pending afterwards. (In particular
resuming a coroutine that goes on living never clears a request, not even one for itself.) -/
theorem C10_cancel_persists (s : Sch) (o : PassOut) (j : Nat) (hj : j ∈ (checkReady s).cancel)
    (hnd : (iter s o).2.2 ≠ .dropped j) (hnc : (iter s o).2.2 ≠ .resumed j (.state .cancelled)) :
    j ∈ (iter s o).1.cancel := by
  unfold iter at hnd hnc ⊢
  split
  · exact hj
  · rename_i p i q' hpop
    simp only [hpop] at hnd hnc
    split
    · rename_i hc
      simp only [hc, if_true] at hnd
      have hne : j ≠ i := by intro h; subst h; exact hnd rfl
      simp only [List.mem_filter]
      exact ⟨hj, by simpa using hne⟩
    · rename_i hc
      simp only [hc, if_false] at hnc
      split
      · exact hj
      · rename_i c hco
        simp only [hco] at hnc
        by_cases hji : j = i
        · subst hji
          -- the coroutine that was resumed is `j` itself: it did not end as Cancelled
          have hres : (resume (checkReady s).th c 0).2.2 ≠ .state .cancelled := by
            intro h
            apply hnc
            simp [park, h]
          rw [park_cancel _ _ _ _ hres]; simp only [absorb]; exact List.mem_append_left _ hj
        · exact park_cancel_sub _ _ _ _ _ (by simp only [absorb]; exact List.mem_append_left _ hj) hji

/-- A request made by a body during its slice (`Scheduler::try_cancel_coroutine` called from inside
a coroutine, for itself or another one) is in the cancel set when the slice is over — unless it was
for the coroutine itself and that coroutine ended as Cancelled in this very slice. -/
theorem C10_inslice_request_recorded (s : Sch) (o : PassOut) (p : Int) (i : Nat) (q' : PQ) (c : Co)
    (hpop : (checkReady s).ready.popMin = some (p, i, q')) (hnc : i ∉ (checkReady s).cancel)
    (hc : (checkReady s).cos[i]? = some c) (j : Nat) (hjl : j < (checkReady s).cos.length)
    (hj : j ∈ (resume (checkReady s).th c 0).1.req)
    (hlive : j ≠ i ∨ (resume (checkReady s).th c 0).2.2 ≠ .state .cancelled) : j ∈ (iter s o).1.cancel := by
  unfold iter
  simp only [hpop, hnc, if_false, hc]
  have hin : j ∈ (absorb { checkReady s with ready := q', cos := (checkReady s).cos.set i (resume (checkReady s).th c 0).2.1, th := (resume (checkReady s).th c 0).1 }).cancel := by
    simp only [absorb, List.mem_append, List.mem_filter, List.length_set]
    exact Or.inr ⟨hj, by simpa using hjl⟩
  cases hlive with
  | inl hne => exact park_cancel_sub _ _ _ _ _ hin hne
  | inr hres => rw [park_cancel _ _ _ _ hres]; exact hin

-- non-vacuity: coroutine 0 requests its own cancellation during its first slice, then suspends:
-- it is dropped at its next turn and never finishes; coroutine 1 is unaffected
example : ((pass (submit (submit { th := { now := 1000 } } [.req 0, .susp 0, .ret 7] 0) [.ret 9] 0)).2.results,
           (pass (submit (submit { th := { now := 1000 } } [.req 0, .susp 0, .ret 7] 0) [.ret 9] 0)).1.dropped) = ([(1, .ok 9)], [0]) := by decide

end Oc.Props.C10
