import OcVerif.Spec.C28
/-!
# C28 — time and slicing helpers never overflow or loop

Quantifier: every `Nat` duration / clock value / timeval field (a superset of all `u64`, `u128`).
-/
namespace Oc.Props.C28
open Oc.Time Oc.Spec.C28

/-- Deadlines computed from any duration saturate at the maximum time instead of wrapping. -/
theorem C28_deadline_sat (d now : Nat) : deadlineOk d now (deadline d now) = true := by
  unfold deadlineOk deadline
  split <;> simp <;> omega

/-- A deadline never exceeds the maximum time and is never before `now` (for an in-range clock). -/
theorem C28_deadline_bounds (d now : Nat) (hn : now ≤ U64MAX) :
    now ≤ deadline d now ∧ deadline d now ≤ U64MAX := by
  unfold deadline
  split <;> omega

theorem slicesLoop_sum (fuel left s : Nat) (hf : left ≤ fuel) (hs : 0 < s) :
    (slicesLoop fuel left s).sum = left := by
  induction fuel generalizing left with
  | zero => simp [slicesLoop]
  | succ f ih =>
    unfold slicesLoop
    split
    · rw [List.sum_cons, ih (left - s) (by omega)]; omega
    · simp

theorem slicesLoop_fit (fuel left s : Nat) (hf : left ≤ fuel) (hs : 0 < s) (hl : 0 < left) :
    ∀ p ∈ slicesLoop fuel left s, 0 < p ∧ p ≤ s := by
  induction fuel generalizing left with
  | zero => omega
  | succ f ih =>
    unfold slicesLoop
    split
    · intro p hp
      rcases List.mem_cons.mp hp with rfl | hp
      · omega
      · exact ih (left - s) (by omega) (by omega) p hp
    · intro p hp
      have : p = left := by simpa using hp
      omega

theorem slicesLoop_len (fuel left s : Nat) (hf : left ≤ fuel) (hs : 0 < s) (hl : 0 < left) :
    (slicesLoop fuel left s).length = (left + s - 1) / s := by
  induction fuel generalizing left with
  | zero => omega
  | succ f ih =>
    unfold slicesLoop
    split
    · rename_i h
      rw [List.length_cons, ih (left - s) (by omega) (by omega)]
      have : left + s - 1 = (left - s + s - 1) + s := by omega
      rw [this, Nat.add_div_right _ hs]
    · rename_i h
      have h1 : left + s - 1 < 2 * s := by omega
      have h2 : s ≤ left + s - 1 := by omega
      have : (left + s - 1) / s = 1 := by
        apply Nat.div_eq_of_lt_le <;> omega
      simp [this]

/-- Splitting by a non-zero slice terminates (the model's only divergence is `slice = 0 < total`). -/
theorem C28_slices_terminates (t s : Nat) (hs : 0 < s) : (slices t s).isSome = true := by
  unfold slices; split <;> simp; omega

/-- Pieces each fit in the slice, none is empty, and they sum exactly to the total. -/
theorem C28_slices_ok (t s : Nat) (hs : 0 < s) :
    ∃ l, slices t s = some l ∧ slicesOk t s l = true := by
  unfold slices
  by_cases ht : t = 0
  · subst ht; exact ⟨[], by simp, by simp [slicesOk]⟩
  · refine ⟨slicesLoop t t s, by simp [ht]; omega, ?_⟩
    unfold slicesOk
    have hfit := slicesLoop_fit t t s (Nat.le_refl _) hs (by omega)
    have hsum := slicesLoop_sum t t s (Nat.le_refl _) hs
    simp only [Bool.and_eq_true, List.all_eq_true, decide_eq_true_eq, beq_iff_eq]
    exact ⟨fun p hp => (hfit p hp).2, hsum⟩

/-- (model only, beyond the statement) no piece is empty. -/
theorem C28_slices_nonempty (t s : Nat) (hs : 0 < s) :
    ∀ l, slices t s = some l → ∀ p ∈ l, 0 < p := by
  intro l hl p hp
  unfold slices at hl
  by_cases ht : t = 0
  · simp [ht] at hl; subst hl; simp at hp
  · have : s ≠ 0 := by omega
    simp [ht, this] at hl; subst hl
    exact (slicesLoop_fit t t s (Nat.le_refl _) hs (by omega) p hp).1

/-- The number of pieces is `⌈total / slice⌉`. -/
theorem C28_slices_len (t s : Nat) (hs : 0 < s) :
    ∃ l, slices t s = some l ∧ l.length = (t + s - 1) / s := by
  unfold slices
  by_cases ht : t = 0
  · subst ht
    refine ⟨[], by simp, ?_⟩
    have : (s - 1) / s = 0 := Nat.div_eq_of_lt (by omega)
    simp [this]
  · exact ⟨slicesLoop t t s, by simp [ht]; omega, slicesLoop_len t t s (Nat.le_refl _) hs (by omega)⟩

/-- A zero socket time limit means unlimited; any other non-negative timeval is its saturated
nanosecond value and never `0`. -/
theorem C28_limit_ok (sec usec : Nat) :
    ∃ v, timeLimit (Int.ofNat sec) (Int.ofNat usec) = some v ∧ limitOk sec usec v = true := by
  unfold timeLimit limitOk
  simp only [Int.ofNat_eq_natCast, Int.toNat_natCast]
  have h1 : ¬ ((sec : Int) < 0 ∨ (usec : Int) < 0) := by omega
  simp only [h1, if_false]
  refine ⟨_, rfl, ?_⟩
  by_cases hz : sec = 0 ∧ usec = 0
  · obtain ⟨rfl, rfl⟩ := hz; simp
  · simp only [hz, if_false]
    have hU : U64MAX = 18446744073709551615 := by decide
    split
    · rename_i h0; omega
    · simp only [beq_iff_eq]; omega

/-- Negative fields are the only rejected timevals (the Rust `expect("overflow")` panic). -/
theorem C28_limit_rejects_iff (sec usec : Int) :
    timeLimit sec usec = none ↔ (sec < 0 ∨ usec < 0) := by
  unfold timeLimit; split <;> simp_all

-- non-vacuity: hypotheses are satisfiable by non-trivial values and the functions compute
example : slices 25 10 = some [10, 10, 5] := by decide
example : slices 20 10 = some [10, 10] := by decide
example : slices 7 0 = none := by decide
example : deadline U64MAX 5 = U64MAX := by decide
example : timeLimit 0 0 = some U64MAX := by decide
example : timeLimit 1 1 = some 1000001000 := by decide

end Oc.Props.C28
