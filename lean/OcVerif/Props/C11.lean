import OcVerif.Proofs.Pool
/-!
# C11 — pool worker count is exact and bounded

(min_size = 0, keep_alive_time = 0, one scheduling thread.)
-/
namespace Oc.Props.C11
open Oc.Pool

/-- The reported running size equals the number of worker coroutines that have not returned from
their loop — initially and after every pool operation, for every history of submissions, passes,
clock advances, cancels, waits, `set_max_size` and stops.  (Partial with respect to the property:
a worker dropped by a cancel while parked never returns, so it is counted forever — the recorded
known finding; with no such drop this is the number of live workers.) -/
theorem C11_exact_partial (p : Pool) (h : Inv11 p) :
    (∀ p', pass p = some p' → Inv11 p') ∧ Inv11 (stop p).1 ∧
    (∀ prog prio, Inv11 (submit p prog prio).1) ∧ (∀ t, Inv11 (cancelTask p t)) ∧ (∀ t, Inv11 (wait p t).1) ∧
    (∀ d, Inv11 { p with now := d }) ∧ (∀ m, Inv11 { p with maxSize := m }) := by
  refine ⟨fun p' hp => inv_pass h hp, inv_stop h, ?_, ?_, ?_, fun _ => h, fun _ => h⟩
  · intro prog prio; unfold submit; split <;> exact h
  · intro t; unfold cancelTask; split <;> exact h
  · intro t; unfold wait; split
    · exact h
    · split <;> exact h

theorem C11_initial (m : Nat) : Inv11 { maxSize := m } := rfl

/-- The pool never grows beyond its maximum size: a worker is only created while the running size
is below it. -/
theorem C11_bounded (p : Pool) (h : p.running ≤ p.maxSize) : (tryGrow p).running ≤ p.maxSize ∧ (tryGrow p).maxSize = p.maxSize := by
  unfold tryGrow
  split
  · exact ⟨h, rfl⟩
  · split
    · exact ⟨h, rfl⟩
    · rename_i h1 h2; exact ⟨by simp only; omega, rfl⟩

/-- An idle worker that finds no queued task leaves its loop at once and the count goes down by
one — so when all work is done or cancelled the running size returns to zero within one pass, and a
stop has nothing to wait for. -/
theorem C11_idle_worker_exits (f : Nat) (p : Pool) (w : Nat) (x : Worker) (hx : p.workers[w]? = some x)
    (hal : x.alive = true) (hpl : x.plain = false) (hidle : x.task = none) (hq : p.tasks.popMin = none) :
    (resumeWorker (f + 1) p w).running = p.running - 1 ∧
    (resumeWorker (f + 1) p w).workers[w]? = some { x with alive := false } := by
  have hlt : w < p.workers.length := (List.getElem?_eq_some_iff.mp hx).1
  have hstep : resumeWorker (f + 1) p w = setWorker { p with running := p.running - 1 } w { x with alive := false } := by
    unfold resumeWorker
    simp only [hx, hal, hpl, hidle, hq, Bool.not_true, Bool.false_eq_true, if_false]
  rw [hstep]
  exact ⟨rfl, by simp [setWorker, hlt]⟩

/-- Stop on a pool whose work is all done returns success immediately (no timeout wait). -/
theorem C11_stop_prompt (p : Pool) (hs : p.state ≠ .stopped) (hr : p.running = 0) (hq : p.tasks.vals = []) :
    (stop p).2 = true ∧ (stop p).1.state = .stopped := by
  have hg : tryGrow { p with state := .stopping } = { p with state := .stopping } := by simp [tryGrow, hq]
  unfold stop
  simp only [hs, if_false]
  unfold stopLive
  rw [hg]
  simp [hr, hq, doClean_state]

/-- A task whose coroutine is cancelled while it runs (what the cancel signal does to a running
task) gives its slot back at once: the count goes down by one before anything else happens, the
worker is never resumed again, and the listener may start a replacement for the remaining work. -/
theorem C11_cancelled_worker_slot (f : Nat) (p : Pool) (w : Nat) (x : Worker) (t : Nat) (r : List TStep)
    (hx : p.workers[w]? = some x) (hal : x.alive = true) (hpl : x.plain = false)
    (ht : x.task = some t) (hr : x.rest = .cancelSelf :: r) :
    resumeWorker (f + 1) p w =
      tryGrow (setWorker { p with running := p.running - 1, droppedTasks := t :: p.droppedTasks } w { x with alive := false }) := by
  unfold resumeWorker
  simp only [hx, hal, hpl, ht, hr, Bool.not_true, Bool.false_eq_true, if_false]

/-- A user coroutine submitted with `submit_co` occupies a slot exactly while it is alive. -/
theorem C11_submit_co_counts (p : Pool) (h : Inv11 p) : Inv11 (submitCo p).1 ∧
    ((submitCo p).2 = false → (submitCo p).1 = p ∧ (p.state ≠ .running ∨ p.maxSize ≤ p.running)) := by
  unfold submitCo
  split
  · rename_i hst; exact ⟨h, fun _ => ⟨rfl, Or.inl hst⟩⟩
  · split
    · rename_i hfull; exact ⟨h, fun _ => ⟨rfl, Or.inr hfull⟩⟩
    · refine ⟨?_, fun hf => by simp at hf⟩
      unfold Inv11 countAlive at *; simp [List.countP_append, h]

-- non-vacuity: two tasks, max 1: one worker runs both and leaves; the count returns to 0
example : ((pass (submit (submit { maxSize := 1 } [.ret 5] 0).1 [.panic] 0).1).map (fun p => (p.running, p.started))) = some (0, [0, 1]) := by decide

-- the last queued task cancels its own coroutine: the count still returns to 0 (seeded change C11)
example : ((pass (submit (submit { maxSize := 2 } [.ret 5] 0).1 [.cancelSelf] 0).1).map (fun p => (p.running, p.started))) = some (0, [0, 1]) := by decide

end Oc.Props.C11
