import OcVerif.Proofs.Pool
import OcVerif.Model.MultiPool
/-!
# C11 — pool worker count is exact and bounded

(min_size = 0, keep_alive_time = 0, one scheduling thread.)
-/
namespace Oc.Props.C11
open Oc.Pool

/-- The reported running size equals the number of live worker coroutines — initially and after
every pool operation, for every history of submissions, passes, clock advances, cancels, waits,
`set_max_size` and stops.  A worker leaves the count when it returns from its loop, when its task
cancels its coroutine, and when the scheduler drops it on a cancel request while it is parked (the
listener is told, `dropParked`). -/
theorem C11_exact (p : Pool) (h : Inv11 p) :
    (∀ p', pass p = some p' → Inv11 p') ∧ Inv11 (stop p).1 ∧
    (∀ prog prio, Inv11 (submit p prog prio).1) ∧ (∀ t, Inv11 (cancelTask p t)) ∧ (∀ t, Inv11 (wait p t).1) ∧
    (∀ d, Inv11 { p with now := d }) ∧ (∀ m, Inv11 { p with maxSize := m }) := by
  refine ⟨fun p' hp => inv_pass h hp, inv_stop h, ?_, ?_, ?_, fun _ => h, fun _ => h⟩
  · intro prog prio; unfold submit; split <;> exact h
  · intro t; unfold cancelTask; split <;> exact h
  · intro t; unfold wait; split
    · exact h
    · split <;> exact h

theorem C11_initial (m : Nat) : Inv11 { maxSize := m } := rfl

/-- The pool never grows beyond its maximum size: a worker is only created while the running size
is below it. -/
theorem C11_bounded (p : Pool) (h : p.running ≤ p.maxSize) : (tryGrow p).running ≤ p.maxSize ∧ (tryGrow p).maxSize = p.maxSize := by
  unfold tryGrow
  split
  · exact ⟨h, rfl⟩
  · split
    · exact ⟨h, rfl⟩
    · rename_i h1 h2; exact ⟨by simp only; omega, rfl⟩

/-- An idle worker that finds no queued task leaves its loop at once and the count goes down by
one — so when all work is done or cancelled the running size returns to zero within one pass, and a
stop has nothing to wait for. -/
theorem C11_idle_worker_exits (f : Nat) (p : Pool) (w : Nat) (x : Worker) (hx : p.workers[w]? = some x)
    (hal : x.alive = true) (hpl : x.plain = false) (hidle : x.task = none) (hq : p.tasks.popMin = none) :
    (resumeWorker (f + 1) p w).running = p.running - 1 ∧
    (resumeWorker (f + 1) p w).workers[w]? = some { x with alive := false } := by
  have hlt : w < p.workers.length := (List.getElem?_eq_some_iff.mp hx).1
  have hstep : resumeWorker (f + 1) p w = setWorker { p with running := p.running - 1 } w { x with alive := false } := by
    unfold resumeWorker
    simp only [hx, hal, hpl, hidle, hq, Bool.not_true, Bool.false_eq_true, if_false]
  rw [hstep]
  exact ⟨rfl, by simp [setWorker, hlt]⟩

/-- Stop on a pool whose work is all done returns success immediately (no timeout wait). -/
theorem C11_stop_prompt (p : Pool) (hs : p.state ≠ .stopped) (hr : p.running = 0) (hq : p.tasks.vals = []) :
    (stop p).2 = true ∧ (stop p).1.state = .stopped := by
  have hg : tryGrow { p with state := .stopping } = { p with state := .stopping } := by simp [tryGrow, hq]
  unfold stop
  simp only [hs, if_false]
  unfold stopLive
  rw [hg]
  simp [hr, hq, doClean_state]

/-- A task whose coroutine is cancelled while it runs (what the cancel signal does to a running
task) gives its slot back at once: the count goes down by one before anything else happens, the
worker is never resumed again, and the listener may start a replacement for the remaining work. -/
theorem C11_cancelled_worker_slot (f : Nat) (p : Pool) (w : Nat) (x : Worker) (t : Nat) (r : List TStep)
    (hx : p.workers[w]? = some x) (hal : x.alive = true) (hpl : x.plain = false)
    (ht : x.task = some t) (hr : x.rest = .cancelSelf :: r) :
    resumeWorker (f + 1) p w =
      tryGrow (setWorker { p with running := p.running - 1, droppedTasks := t :: p.droppedTasks } w { x with alive := false }) := by
  unfold resumeWorker
  simp only [hx, hal, hpl, ht, hr, Bool.not_true, Bool.false_eq_true, if_false]

/-- A worker dropped by a cancel request while parked gives its slot back: the count goes down by
one and that worker is never counted (or scheduled) again. -/
theorem C11_parked_cancel_slot (p : Pool) (w : Nat) (x : Worker) (hx : p.workers[w]? = some x) (hal : x.alive = true)
    (hidle : x.task = none) (hq : p.tasks.vals = []) :
    (dropParked p w).running = p.running - 1 ∧ (dropParked p w).workers[w]? = some { x with alive := false, task := none, rest := [] } := by
  have hlt : w < p.workers.length := (List.getElem?_eq_some_iff.mp hx).1
  unfold dropParked
  simp only [hx, hal, hidle, Bool.not_true, Bool.false_eq_true, if_false]
  have hg : ∀ q : Pool, q.tasks.vals = [] → tryGrow q = q := by intro q h; simp [tryGrow, h]
  rw [hg _ (by simpa [setWorker] using hq)]
  exact ⟨rfl, by simp [setWorker, hlt]⟩

/-- A user coroutine submitted with `submit_co` occupies a slot exactly while it is alive. -/
theorem C11_submit_co_counts (p : Pool) (h : Inv11 p) : Inv11 (submitCo p).1 ∧
    ((submitCo p).2 = false → (submitCo p).1 = p ∧ (p.state ≠ .running ∨ p.maxSize ≤ p.running)) := by
  unfold submitCo
  split
  · rename_i hst; exact ⟨h, fun _ => ⟨rfl, Or.inl hst⟩⟩
  · split
    · rename_i hfull; exact ⟨h, fun _ => ⟨rfl, Or.inr hfull⟩⟩
    · refine ⟨?_, fun hf => by simp at hf⟩
      unfold Inv11 countAlive at *; simp [List.countP_append, h]

-- non-vacuity: two tasks, max 1: one worker runs both and leaves; the count returns to 0
example : ((pass (submit (submit { maxSize := 1 } [.ret 5] 0).1 [.panic] 0).1).map (fun p => (p.running, p.started))) = some (0, [0, 1]) := by decide

-- the last queued task cancels its own coroutine: the count still returns to 0 (seeded change C11)
example : ((pass (submit (submit { maxSize := 2 } [.ret 5] 0).1 [.cancelSelf] 0).1).map (fun p => (p.running, p.started))) = some (0, [0, 1]) := by decide

/-! ## several pools of one process: a worker may finish under another pool than its creator -/
section MultiPool
open Oc.MPool

theorem live_append_new (ws : List W) (p q : Nat) :
    live (ws ++ [{ home := p }]) q = live ws q + (if q = p then 1 else 0) := by
  unfold live
  rw [List.countP_append]
  by_cases h : q = p
  · subst h; simp
  · have : (p == q) = false := by simp; exact fun e => h e.symm
    simp [List.countP_cons, this, h]

theorem live_set_dead (ws : List W) (w : Nat) (x : W) (hx : ws[w]? = some x) (ha : x.alive = true) (q : Nat) :
    live (ws.set w { x with alive := false }) q = live ws q - (if q = x.home then 1 else 0) := by
  unfold live
  induction ws generalizing w with
  | nil => simp at hx
  | cons y ys ih =>
    cases w with
    | zero =>
      simp at hx; subst hx
      by_cases h : q = y.home
      · subst h; simp [List.countP_cons, ha]
      · have : (y.home == q) = false := by simp; exact fun e => h e.symm
        simp [List.countP_cons, this, h]
    | succ w =>
      simp at hx
      have := ih w hx
      simp only [List.set_cons_succ, List.countP_cons]
      rw [this]
      by_cases h : q = x.home
      · simp only [h, if_true]
        have hpos : 0 < List.countP (fun z => z.alive && z.home == x.home) ys := by
          apply List.countP_pos_iff.mpr
          exact ⟨x, List.mem_of_getElem? hx, by simp [ha]⟩
        subst h
        split <;> omega
      · simp [h]

/-- the invariant: every pool's reported running size is the number of live workers it created -/
def InvM (s : St) : Prop := ∀ p, s.running p = live s.ws p

theorem invM_step (s : St) (e : Ev) (h : InvM s) : InvM (step s e) := by
  intro q
  cases e with
  | create p =>
    simp only [step, bump]
    rw [live_append_new, h q]
    by_cases hq : q = p <;> simp [hq]
  | finish w on =>
    simp only [step]
    split
    · rename_i x hx
      split
      · rename_i ha
        simp only [drop]
        rw [live_set_dead s.ws w x hx ha q, h q]
        by_cases hq : q = x.home <;> simp [hq]
      · exact h q
    · exact h q

/-- For every history of worker creations and exits, wherever each worker happens to run when it
exits, every pool's running size equals the number of its own live workers. -/
theorem C11_multi_pool_exact (evs : List Ev) : InvM (run evs) := by
  unfold run
  have : ∀ (s : St), InvM s → InvM (evs.foldl step s) := by
    induction evs with
    | nil => intro s h; exact h
    | cons e es ih => intro s h; exact ih _ (invM_step s e h)
  exact this {} (fun p => by simp [live])

/-- …so once every worker has left, every pool reports zero (and a stop has nothing to wait for). -/
theorem C11_multi_pool_quiescent (evs : List Ev) (hall : ∀ x ∈ (run evs).ws, x.alive = false) (p : Nat) :
    (run evs).running p = 0 := by
  rw [C11_multi_pool_exact evs p]
  unfold live
  apply List.countP_eq_zero.mpr
  intro x hx
  simp [hall x hx]

/-- The code before the repair decremented the counter of the pool the worker happened to finish
under: pool 0 creates a worker, pool 1 steals and finishes it — pool 0 reports one worker for ever
although none is alive (and an idle worker that later runs under pool 1, which reports 0 with a
live worker, never leaves its loop). -/
theorem C11_old_foreign_exit_counterexample :
    (runOld [.create 0, .finish 0 1]).running 0 = 1 ∧ live (runOld [.create 0, .finish 0 1]).ws 0 = 0 ∧
    (run [.create 0, .finish 0 1]).running 0 = 0 := by decide

/-- the idle worker's exit test in the worker loop (`try_grow`'s closure): leave when the keep-alive
time is over and the pool counts more workers than its minimum, or when the pool may be recycled -/
def idleExit (running minSize : Nat) (expired recycle : Bool) : Bool :=
  (expired && decide (running > minSize)) || recycle

/-- After the repair the test reads the counter of the pool that created the worker, and that
counter counts the worker itself: with no core workers and the keep-alive time over, an idle worker
leaves its loop wherever it happens to run — it cannot spin. -/
theorem C11_multi_idle_worker_leaves (evs : List Ev) (w : Nat) (x : W)
    (hx : (run evs).ws[w]? = some x) (hal : x.alive = true) :
    idleExit ((run evs).running x.home) 0 true false = true := by
  have hinv := C11_multi_pool_exact evs x.home
  have hpos : 0 < live (run evs).ws x.home := by
    unfold live
    apply List.countP_pos_iff.mpr
    exact ⟨x, List.mem_of_getElem? hx, by simp [hal]⟩
  unfold idleExit
  simp [hinv, hpos]

/-- Before the repair the test read the counter of the pool the worker was running under: a worker
created by pool 0 and resumed by pool 1 (which has none of its own) sees 0 and never leaves. -/
theorem C11_old_idle_worker_spins :
    idleExit ((runOld [.create 0]).running 1) 0 true false = false ∧
    idleExit ((run [.create 0]).running 0) 0 true false = true := by decide


end MultiPool

end Oc.Props.C11
