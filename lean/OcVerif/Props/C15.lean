import OcVerif.Proofs.Pool
/-!
# C15 — a coroutine blocked in a hooked call does not stall its event loop

A hooked sleep (or a hooked socket wait) inside a task is, for the pool and its scheduler, a yield
with a wake-up time (`SyscallState::Suspend(t)` + `suspender.until(t)`; the model's `.delay d`
step). Theorems on the pool model (`Model/Pool.lean`, the one the `pool` component compares with
the real `CoroutinePool` on every run):

* the general mechanism — a blocking worker hands over before control returns to the loop, a parked
  worker is in no run queue, every worker whose time has come is woken in that same pass;
* the statement itself — `N` tasks that each sleep for `d`, on a pool with room for `N` workers,
  are all started in the first pass and all finished by the pass at `t₀ + d`, for every `N`.
-/
namespace Oc.Props.C15
open Oc.Pool Oc.Queue List

theorem minDue_none_of_late (l : List (Nat × Nat)) (now : Nat) (h : ∀ e ∈ l, now < e.1) : minDue l now = none := by
  unfold minDue
  have : l.filter (fun e => decide (e.1 ≤ now)) = [] := by
    rw [List.filter_eq_nil_iff]
    intro e he
    have := h e he
    simp; omega
  rw [this]; rfl

theorem wake_nothing_due (f : Nat) (p : Pool) (h : ∀ e ∈ p.suspend, p.now < e.1) : wake f p = p := by
  cases f with
  | zero => rfl
  | succ f => simp [wake, minDue_none_of_late _ _ h]

theorem minDue_due (l : List (Nat × Nat)) (now : Nat) (e : Nat × Nat) (h : minDue l now = some e) :
    e.1 ≤ now ∧ e ∈ l := by
  unfold minDue at h
  have key : ∀ (xs : List (Nat × Nat)) (acc : Option (Nat × Nat)),
      (∀ a, acc = some a → a.1 ≤ now ∧ a ∈ l) → (∀ x ∈ xs, x.1 ≤ now ∧ x ∈ l) →
      ∀ r, xs.foldl (fun acc e => match acc with
        | none => some e
        | some a => if e.1 < a.1 then some e else some a) acc = some r → r.1 ≤ now ∧ r ∈ l := by
    intro xs
    induction xs with
    | nil => intro acc ha _ r hr; exact ha r hr
    | cons x rest ih =>
      intro acc ha hx r hr
      simp only [List.foldl_cons] at hr
      apply ih _ _ (fun y hy => hx y (by simp [hy])) r hr
      intro a haa
      cases acc with
      | none => simp only [Option.some.injEq] at haa; subst haa; exact hx x (by simp)
      | some a0 =>
        simp only at haa
        split at haa
        · simp only [Option.some.injEq] at haa; subst haa; exact hx x (by simp)
        · simp only [Option.some.injEq] at haa; subst haa; exact ha a0 rfl
  apply key _ none (by intro a h; simp at h) _ e h
  intro x hx
  simp only [List.mem_filter, decide_eq_true_eq] at hx
  exact ⟨hx.2, hx.1⟩

theorem minDue_none (l : List (Nat × Nat)) (now : Nat) (h : minDue l now = none) : ∀ e ∈ l, ¬ e.1 ≤ now := by
  unfold minDue at h
  have key : ∀ (xs : List (Nat × Nat)) (acc : Option (Nat × Nat)),
      xs.foldl (fun acc e => match acc with
        | none => some e
        | some a => if e.1 < a.1 then some e else some a) acc = none → acc = none ∧ xs = [] := by
    intro xs
    induction xs with
    | nil => intro acc h; exact ⟨h, rfl⟩
    | cons x rest ih =>
      intro acc h
      simp only [List.foldl_cons] at h
      have := (ih _ h).1
      cases acc with
      | none => simp at this
      | some a => simp only at this; split at this <;> simp at this
  have := (key _ none h).2
  intro e he hle
  have : e ∈ l.filter (fun e => decide (e.1 ≤ now)) := by simp [List.mem_filter, he, hle]
  rw [(key _ none h).2] at this
  simp at this


/-- **Everybody whose time has come is woken in that same pass.** After the wake step of an
iteration (with the fuel `pass` gives it) no due entry is left in the suspend heap, and every due
worker is in the run queue. -/
theorem C15_due_all_woken (fuel : Nat) (p : Pool) (hf : p.suspend.length < fuel) :
    (∀ e ∈ (wake fuel p).suspend, ¬ e.1 ≤ p.now) ∧
    (∀ e ∈ p.suspend, e.1 ≤ p.now → e.2 ∈ (wake fuel p).ready) ∧ (wake fuel p).now = p.now := by
  induction fuel generalizing p with
  | zero => omega
  | succ f ih =>
    unfold wake
    cases hm : minDue p.suspend p.now with
    | none => exact ⟨minDue_none _ _ hm, fun e he hd => absurd hd (minDue_none _ _ hm e he), rfl⟩
    | some e =>
      obtain ⟨ets, ei⟩ := e
      have hdue := minDue_due _ _ _ hm
      have hlen : (p.suspend.filter (fun e => e != (ets, ei))).length < f := by
        have : (p.suspend.filter (fun e => e != (ets, ei))).length < p.suspend.length := by
          apply List.length_filter_lt_length_iff_exists.mpr
          exact ⟨(ets, ei), hdue.2, by simp⟩
        omega
      simp only
      obtain ⟨a, b, c⟩ := ih { p with suspend := p.suspend.filter (fun e => e != (ets, ei)), ready := p.ready ++ [ei] } hlen
      refine ⟨a, ?_, c⟩
      intro e he hd
      by_cases heq : e = (ets, ei)
      · subst heq
        have hmono : ∀ (g : Nat) (q : Pool) (x : Nat), x ∈ q.ready → x ∈ (wake g q).ready := by
          intro g
          induction g with
          | zero => intro q x hx; exact hx
          | succ g ihg =>
            intro q x hx
            unfold wake
            split
            · exact hx
            · exact ihg _ x (List.mem_append_left _ hx)
        exact hmono f _ ei (by simp)
      · exact b e (by simp [List.mem_filter, he, heq]) hd

/-- **A blocking worker hands over.** When the task a worker is running blocks for `d` (a hooked
sleep), then — before control returns to the scheduling loop — the growth hook has run: if tasks are
queued and the pool has room, a fresh worker is in the run queue. The blocked worker itself is parked
with its own wake-up time and is in no run queue. -/
theorem C15_blocked_worker_hands_over (f : Nat) (p : Pool) (w t : Nat) (x : Worker) (d : Nat) (r : List TStep)
    (hx : p.workers[w]? = some x) (hal : x.alive = true) (hpl : x.plain = false)
    (ht : x.task = some t) (hr : x.rest = .delay d :: r) (hd : p.now < min U64MAX (d + p.now)) :
    resumeWorker (f + 1) p w =
      { tryGrow (setWorker p w { x with rest := r }) with
        suspend := (min U64MAX (d + p.now), w) :: (tryGrow (setWorker p w { x with rest := r })).suspend } := by
  have hnow : ∀ y, (tryGrow (setWorker p w y)).now = p.now := by
    intro y
    unfold tryGrow setWorker; split <;> try rfl
    split <;> rfl
  unfold resumeWorker
  simp only [hx, hal, hpl, ht, hr, Bool.not_true, Bool.false_eq_true, if_false]
  rw [hnow]
  simp only [gt_iff_lt, hd, if_true]

/-- the state after a fresh worker `w` has taken the sleeper `t` from the head of the queue, started
it, and the task has gone to sleep -/
def afterStart (p : Pool) (w t : Nat) (ts : List Nat) (d v : Nat) : Pool :=
  { tryGrow (setWorker { p with ready := [], tasks := [(0, ts)], runningTasks := (t, w) :: p.runningTasks, started := p.started ++ [t] } w { task := some t, rest := [.ret v] }) with
    suspend := (min U64MAX (d + p.now), w) ::
      (tryGrow (setWorker { p with ready := [], tasks := [(0, ts)], runningTasks := (t, w) :: p.runningTasks, started := p.started ++ [t] } w { task := some t, rest := [.ret v] })).suspend }

theorem stepFuel_ge (p : Pool) : ∃ g, stepFuel p = g + 2 := ⟨stepFuel p - 2, by unfold stepFuel; omega⟩

/-- **A parked worker does not hold the loop.** One iteration: nothing is due, the only ready worker
is fresh, a sleeper heads the queue → it is started, goes to sleep, and the loop goes on with
whatever the growth hook put into the run queue. -/
theorem iter_start (f : Nat) (p : Pool) (w t : Nat) (ts : List Nat) (d v : Nat)
    (hready : p.ready = [w]) (hw : p.workers[w]? = some {})
    (htasks : p.tasks = [(0, t :: ts)]) (hprog : p.progs.getD t [] = [.delay d, .ret v])
    (hct : p.cancelTasks.contains t = false) (hcc : p.cancelCos.contains w = false)
    (hlate : ∀ e ∈ p.suspend, p.now < e.1) (hd : p.now < min U64MAX (d + p.now)) :
    schedLoop (f + 1) p = schedLoop f (afterStart p w t ts d v) := by
  have hwl : w < p.workers.length := (List.getElem?_eq_some_iff.mp hw).1
  have key : schedLoop (f + 1) p =
      schedLoop f (resumeWorker (stepFuel { p with ready := [] }) { p with ready := [] } w) := by
    conv => lhs; unfold schedLoop
    simp only [wake_nothing_due _ _ hlate, hready, hcc, Bool.false_eq_true, if_false]
  rw [key]
  obtain ⟨g, hg⟩ := stepFuel_ge { p with ready := [] }
  rw [hg]
  -- first step: the fresh worker takes and starts `t`
  have h1 : resumeWorker (g + 1 + 1) { p with ready := [] } w =
      resumeWorker (g + 1) (setWorker { p with ready := [], tasks := [(0, ts)], runningTasks := (t, w) :: p.runningTasks, started := p.started ++ [t] } w
        { task := some t, rest := [.delay d, .ret v] }) w := by
    have hct' : t ∉ p.cancelTasks := by simpa using hct
    have hprog' : p.progs[t]?.getD [] = [.delay d, .ret v] := by simpa [List.getD] using hprog
    conv => lhs; unfold resumeWorker
    simp [hw, htasks, PQ.popMin, hct', hprog']
  rw [h1]
  -- second step: it blocks
  rw [C15_blocked_worker_hands_over g _ w t { task := some t, rest := [.delay d, .ret v] } d [.ret v]
        (by simp [setWorker, hwl]) rfl rfl rfl rfl (by simpa [setWorker] using hd)]
  unfold afterStart
  simp [setWorker, List.set_set]

theorem set_last {α : Type} (l : List α) (w : Nat) (x : α) (h : w + 1 = l.length) : l.set w x = l.take w ++ [x] := by
  rw [List.set_eq_take_append_cons_drop]
  have h2 : l.drop (w + 1) = [] := by rw [List.drop_eq_nil_iff]; omega
  simp [h2]; omega

theorem range_rev_shift (T w : Nat) (n : Nat) :
    (List.range (n + 1)).reverse.map (fun i => (T, w + i)) =
      (List.range n).reverse.map (fun i => (T, w + 1 + i)) ++ [(T, w)] := by
  induction n with
  | zero => simp
  | succ n ih =>
    rw [List.range_succ (n := n + 1), List.reverse_append, List.reverse_cons, List.reverse_nil, List.nil_append,
        List.singleton_append, List.map_cons, ih]
    rw [List.range_succ (n := n), List.reverse_append]
    simp only [List.reverse_cons, List.reverse_nil, List.nil_append, List.singleton_append, List.map_cons, List.cons_append]
    congr 2; omega

/-- the pool after a sleeper was started on worker `w` and a fresh worker appended -/
def next (p : Pool) (w t t' : Nat) (ts : List Nat) (d v : Nat) : Pool :=
  { p with ready := [p.workers.length], tasks := [(0, t' :: ts)], runningTasks := (t, w) :: p.runningTasks, started := p.started ++ [t], workers := p.workers.set w { task := some t, rest := [.ret v] } ++ [{}], running := p.running + 1, suspend := (min U64MAX (d + p.now), w) :: p.suspend }

/-- what `afterStart` is when more sleepers are queued and the pool has room: a fresh worker is
appended and is the next to run -/
theorem afterStart_more (p : Pool) (w t t' : Nat) (ts : List Nat) (d v : Nat) (hroom : p.running < p.maxSize) :
    afterStart p w t (t' :: ts) d v = next p w t t' ts d v := by
  have hn : ¬ p.running ≥ p.maxSize := by omega
  simp [afterStart, next, tryGrow, setWorker, PQ.vals, hn]

/-- … and when `t` was the last queued task: nobody is ready, the pass ends -/
theorem afterStart_last (p : Pool) (w t : Nat) (d v : Nat) :
    afterStart p w t [] d v =
      { p with ready := [], tasks := [(0, [])], runningTasks := (t, w) :: p.runningTasks,
               started := p.started ++ [t], workers := p.workers.set w { task := some t, rest := [.ret v] },
               suspend := (min U64MAX (d + p.now), w) :: p.suspend } := by
  simp [afterStart, tryGrow, setWorker, PQ.vals]

theorem schedLoop_idle (f : Nat) (p : Pool) (hready : p.ready = []) (hlate : ∀ e ∈ p.suspend, p.now < e.1) :
    schedLoop f p = p := by
  cases f with
  | zero => rfl
  | succ f => conv => lhs; unfold schedLoop
              simp [wake_nothing_due _ _ hlate, hready]

/-- the situation at the start of an iteration of the first pass: worker `w` (the last one) is fresh
and alone in the run queue, the sleepers `t :: ts` are queued, nothing is due, nothing is cancelled,
and the pool has room for one more worker per remaining sleeper -/
structure Starting (p : Pool) (w t : Nat) (ts : List Nat) (d : Nat) (v : Nat → Nat) : Prop where
  ready : p.ready = [w]
  last : w + 1 = p.workers.length
  fresh : p.workers[w]? = some {}
  tasks : p.tasks = [(0, t :: ts)]
  progs : ∀ u ∈ t :: ts, p.progs.getD u [] = [.delay d, .ret (v u)]
  noCancelT : p.cancelTasks = []
  noCancelC : p.cancelCos = []
  late : ∀ e ∈ p.suspend, p.now < e.1
  sleeps : p.now < min U64MAX (d + p.now)
  room : p.running + ts.length ≤ p.maxSize

/-- **The sleeps overlap.** In the pass that finds `N` queued sleepers and room for `N` workers,
every one of them is started — each on its own worker, in queue order — and goes to sleep with the
wake-up time `now + d`; nobody waits for another task's sleep to end. When the pass is over no task
is queued, nobody is runnable, and the clock has not moved. For every `N`. -/
theorem C15_sleeps_overlap (d : Nat) (v : Nat → Nat) (ts : List Nat) :
    ∀ (p : Pool) (w t f : Nat), Starting p w t ts d v → ts.length + 1 < f →
      (schedLoop f p).started = p.started ++ (t :: ts) ∧
      (schedLoop f p).suspend = ((List.range (ts.length + 1)).reverse.map (fun i => (min U64MAX (d + p.now), w + i))) ++ p.suspend ∧
      (schedLoop f p).workers = p.workers.take w ++ (t :: ts).map (fun u => { task := some u, rest := [.ret (v u)] }) ∧
      (schedLoop f p).tasks = [(0, [])] ∧ (schedLoop f p).ready = [] ∧ (schedLoop f p).now = p.now ∧
      (schedLoop f p).running = p.running + ts.length ∧ (schedLoop f p).results = p.results ∧
      (schedLoop f p).cancelCos = p.cancelCos ∧ (schedLoop f p).noWaits = p.noWaits := by
  induction ts with
  | nil =>
    intro p w t f h hf
    obtain ⟨g, rfl⟩ : ∃ g, f = g + 1 := ⟨f - 1, by omega⟩
    have hw := h.fresh
    rw [iter_start g p w t [] d (v t) h.ready hw h.tasks (h.progs t (by simp)) (by simp [h.noCancelT]) (by simp [h.noCancelC]) h.late h.sleeps]
    rw [afterStart_last]
    rw [schedLoop_idle _ _ rfl (by
      intro e he
      simp only [List.mem_cons] at he
      rcases he with rfl | he
      · exact h.sleeps
      · exact h.late e he)]
    refine ⟨rfl, by simp, ?_, rfl, rfl, rfl, by simp, rfl, rfl, rfl⟩
    simp only [List.map_cons, List.map_nil]
    exact set_last _ _ _ h.last
  | cons t' ts ih =>
    intro p w t f h hf
    obtain ⟨g, rfl⟩ : ∃ g, f = g + 1 := ⟨f - 1, by omega⟩
    have hroom : p.running < p.maxSize := by have := h.room; simp at this; omega
    rw [iter_start g p w t (t' :: ts) d (v t) h.ready h.fresh h.tasks (h.progs t (by simp)) (by simp [h.noCancelT]) (by simp [h.noCancelC]) h.late h.sleeps]
    rw [afterStart_more _ _ _ _ _ _ _ hroom]
    have hwl : w < p.workers.length := by have := h.last; omega
    have hnext : Starting (next p w t t' ts d (v t)) (w + 1) t' ts d v := by
      unfold next
      refine ⟨by simp [h.last], by simp [h.last], ?_, rfl, ?_, h.noCancelT, h.noCancelC, ?_, h.sleeps, ?_⟩
      · simp only
        rw [List.getElem?_append_right (by simp [h.last])]
        simp [h.last]
      · intro u hu; exact h.progs u (List.mem_cons_of_mem _ hu)
      · intro e he
        simp only [List.mem_cons] at he
        rcases he with rfl | he
        · exact h.sleeps
        · exact h.late e he
      · have := h.room; simp at this ⊢; omega
    obtain ⟨i1, i2, i3, i4, i5, i6, i7, i8, i9, i10⟩ := ih _ (w + 1) t' g hnext (by simp at hf; omega)
    have n1 : (next p w t t' ts d (v t)).started = p.started ++ [t] := rfl
    have n2 : (next p w t t' ts d (v t)).suspend = (min U64MAX (d + p.now), w) :: p.suspend := rfl
    have n3 : (next p w t t' ts d (v t)).workers = p.workers.set w { task := some t, rest := [.ret (v t)] } ++ [({} : Worker)] := rfl
    have n4 : (next p w t t' ts d (v t)).now = p.now := rfl
    have n5 : (next p w t t' ts d (v t)).running = p.running + 1 := rfl
    have n6 : (next p w t t' ts d (v t)).results = p.results := rfl
    have n7 : (next p w t t' ts d (v t)).cancelCos = p.cancelCos := rfl
    have n8 : (next p w t t' ts d (v t)).noWaits = p.noWaits := rfl
    refine ⟨by rw [i1, n1]; simp, ?_, ?_, i4, i5, by rw [i6, n4], by rw [i7, n5]; simp; omega, by rw [i8, n6], by rw [i9, n7], by rw [i10, n8]⟩
    · rw [i2, n2, n4]
      simp only [List.length_cons]
      rw [range_rev_shift _ w (ts.length + 1)]
      simp only [List.append_assoc, List.singleton_append]
    · rw [i3, n3]
      have hlen : (p.workers.set w { task := some t, rest := [.ret (v t)] }).length = w + 1 := by simp [h.last]
      rw [List.take_append_of_le_length (by omega), List.take_of_length_le (by omega), set_last _ _ _ h.last]
      simp

/-- the scenario: sleepers returning `vs`, submitted at the default priority to a fresh pool -/
def submitSleepers (p : Pool) (vs : List Nat) (d : Nat) : Pool :=
  vs.foldl (fun p v => (submit p [.delay d, .ret v] 0).1) p

theorem submitSleepers_spec (vs : List Nat) (d : Nat) :
    ∀ (p : Pool) (ts : List Nat), p.state = .running → p.tasks = (if ts = [] then [] else [(0, ts)]) →
      (submitSleepers p vs d).tasks = (if ts ++ (List.range' p.progs.length vs.length) = [] then [] else [(0, ts ++ List.range' p.progs.length vs.length)]) ∧
      (submitSleepers p vs d).progs = p.progs ++ vs.map (fun v => [.delay d, .ret v]) ∧
      (submitSleepers p vs d).workers = p.workers ∧ (submitSleepers p vs d).ready = p.ready ∧
      (submitSleepers p vs d).suspend = p.suspend ∧ (submitSleepers p vs d).running = p.running ∧
      (submitSleepers p vs d).maxSize = p.maxSize ∧ (submitSleepers p vs d).now = p.now ∧
      (submitSleepers p vs d).cancelTasks = p.cancelTasks ∧ (submitSleepers p vs d).cancelCos = p.cancelCos ∧
      (submitSleepers p vs d).started = p.started ∧ (submitSleepers p vs d).results = p.results ∧
      (submitSleepers p vs d).state = .running := by
  induction vs with
  | nil => intro p ts hs ht; simp [submitSleepers, ht, hs]
  | cons v vs ih =>
    intro p ts hs ht
    have hstep : (submit p [.delay d, .ret v] 0).1 = { p with tasks := p.tasks.push 0 p.progs.length, progs := p.progs ++ [[.delay d, .ret v]] } := by
      simp [submit, hs]
    have htask : ({ p with tasks := p.tasks.push 0 p.progs.length, progs := p.progs ++ [[.delay d, .ret v]] } : Pool).tasks =
        (if ts ++ [p.progs.length] = [] then [] else [(0, ts ++ [p.progs.length])]) := by
      simp only [ht]
      by_cases hts : ts = []
      · simp [hts, PQ.push]
      · simp [hts, PQ.push]
    have := ih { p with tasks := p.tasks.push 0 p.progs.length, progs := p.progs ++ [[.delay d, .ret v]] } (ts ++ [p.progs.length]) hs htask
    unfold submitSleepers at this ⊢
    rw [List.foldl_cons, hstep]
    obtain ⟨a1, a2, a3, a4, a5, a6, a7, a8, a9, a10, a11, a12, a13⟩ := this
    refine ⟨?_, ?_, a3, a4, a5, a6, a7, a8, a9, a10, a11, a12, a13⟩
    · rw [a1]; simp [List.range'_succ, List.append_assoc]
    · rw [a2]; simp [List.append_assoc]

/-- **N sleepers, one d.** `N ≥ 1` tasks that each sleep for `d` are submitted to a fresh pool that
has room for `N` workers. The first scheduling pass (at time `t₀`) starts all of them, in order,
and ends with every one of them asleep until exactly `t₀ + d`, nothing queued and the clock
unmoved — the sleeps overlap completely; the total is `d`, not `N · d`. For every `N`, `d`, `t₀`. -/
theorem C15_n_sleepers_one_d (m t0 d : Nat) (vs : List Nat) (hN : vs ≠ []) (hm : vs.length ≤ m)
    (hd : 0 < d) (hov : t0 + d ≤ U64MAX) :
    ∃ q, pass (submitSleepers { maxSize := m, now := t0 } vs d) = some q ∧
      q.started = List.range vs.length ∧ q.suspend.length = vs.length ∧ (∀ e ∈ q.suspend, e.1 = t0 + d) ∧
      q.tasks.vals = [] ∧ q.ready = [] ∧ q.now = t0 ∧ q.running = vs.length ∧ q.results = [] := by
  obtain ⟨s1, s2, s3, s4, s5, s6, s7, s8, s9, s10, s11, s12, s13⟩ :=
    submitSleepers_spec vs d { maxSize := m, now := t0 } [] rfl rfl
  obtain ⟨v0, vs', rfl⟩ := List.exists_cons_of_ne_nil hN
  dsimp only at s2 s3 s4 s5 s6 s7 s8 s9 s10 s11 s12
  simp only [List.nil_append, List.length_nil, List.length_cons, List.range'_succ] at s1
  generalize hp : submitSleepers { maxSize := m, now := t0 } (v0 :: vs') d = p at *
  have htasks : p.tasks = [(0, 0 :: List.range' 1 vs'.length)] := by simpa using s1
  have hT : min U64MAX (d + t0) = t0 + d := by unfold U64MAX at *; omega
  refine ⟨schedLoop (stepFuel p + p.tasks.len + 4) (tryGrow p), by simp [pass, s13], ?_⟩
  -- the growth hook at the start of the pass creates the first worker
  have hg : tryGrow p = { p with workers := [{}], ready := [0], running := 1 } := by
    unfold tryGrow
    have h1 : ¬ p.tasks.vals = [] := by simp [htasks, PQ.vals]
    have h2 : p.maxSize ≠ 0 := by rw [s7]; simp at hm; omega
    simp [h1, h2, s3, s4, s6]
  rw [hg]
  have hst : Starting { p with workers := [{}], ready := [0], running := 1 } 0 0 (List.range' 1 vs'.length) d
      (fun u => (v0 :: vs').getD u 0) := by
    refine ⟨rfl, rfl, rfl, htasks, ?_, s9, s10, by simp [s5], by simp only [s8]; rw [hT]; omega, by simp [s7]; simp at hm; omega⟩
    intro u hu
    have hu' : u < (v0 :: vs').length := by
      simp only [List.mem_cons, List.mem_range'_1] at hu
      simp; omega
    simp only [s2, List.nil_append]
    rw [List.getD_eq_getElem?_getD, List.getElem?_map]
    simp [List.getElem?_eq_getElem hu', List.getD_eq_getElem?_getD]
  have hfuel : (List.range' 1 vs'.length).length + 1 < stepFuel p + p.tasks.len + 4 := by
    simp [htasks, PQ.len]; omega
  obtain ⟨r1, r2, r3, r4, r5, r6, r7, r8, _, _⟩ := C15_sleeps_overlap d _ _ _ 0 0 _ hst hfuel
  refine ⟨?_, ?_, ?_, by rw [r4]; rfl, r5, by rw [r6]; exact s8, by rw [r7]; simp; omega, by rw [r8]; exact s12⟩
  · rw [r1]; simp [s11, List.range_eq_range', List.range'_succ]
  · rw [r2]; simp [s5]
  · intro e he
    rw [r2] at he
    simp only [s5, List.append_nil, List.mem_map] at he
    obtain ⟨i, _, rfl⟩ := he
    simp only [s8]; rw [hT]

/-! ### the second half: everybody wakes at `t₀ + d` and finishes in that pass -/

theorem minDue_head (T w : Nat) (l : List (Nat × Nat)) (now : Nat) (hT : T ≤ now) (hall : ∀ e ∈ l, e.1 = T) :
    minDue ((T, w) :: l) now = some (T, w) := by
  unfold minDue
  have hf : ((T, w) :: l).filter (fun e => decide (e.1 ≤ now)) = (T, w) :: l := by
    rw [List.filter_eq_self]
    intro e he
    rcases List.mem_cons.mp he with rfl | he
    · simpa using hT
    · simp [hall e he, hT]
  rw [hf]
  simp only [List.foldl_cons]
  have key : ∀ (xs : List (Nat × Nat)), (∀ e ∈ xs, e.1 = T) →
      xs.foldl (fun acc e => match acc with
        | none => some e
        | some a => if e.1 < a.1 then some e else some a) (some (T, w)) = some (T, w) := by
    intro xs
    induction xs with
    | nil => intro _; rfl
    | cons x xs ih =>
      intro h
      simp only [List.foldl_cons]
      have hx : x.1 = T := h x List.mem_cons_self
      simp only [hx, Nat.lt_irrefl, if_false]
      exact ih (fun e he => h e (List.mem_cons_of_mem _ he))
  exact key l hall

/-- the wake step moves every due entry — here: a suspend heap whose entries all carry the same,
due, time and distinct workers — into the run queue, in heap-list order -/
theorem wake_all_equal (T : Nat) (ws : List Nat) (hnd : ws.Nodup) :
    ∀ (q : Pool) (f : Nat), q.suspend = ws.map (fun w => (T, w)) → T ≤ q.now → ws.length < f →
      wake f q = { q with suspend := [], ready := q.ready ++ ws } := by
  induction ws with
  | nil =>
    intro q f hs hT hf
    cases f with
    | zero => omega
    | succ f =>
      unfold wake
      simp only [List.map_nil] at hs
      simp only [hs, minDue, List.filter_nil, List.foldl_nil, List.append_nil]
      cases q; simp_all
  | cons w ws ih =>
    intro q f hs hT hf
    cases f with
    | zero => omega
    | succ f =>
      unfold wake
      simp only [List.map_cons] at hs
      rw [hs, minDue_head T w _ q.now hT (by intro e he; simp only [List.mem_map] at he; obtain ⟨x, _, rfl⟩ := he; rfl)]
      simp only
      have hnd' := List.nodup_cons.mp hnd
      have hfil : ((T, w) :: ws.map (fun w => (T, w))).filter (fun e => e != (T, w)) = ws.map (fun w => (T, w)) := by
        simp only [List.filter_cons, bne_self_eq_false, Bool.false_eq_true, if_false]
        rw [List.filter_eq_self]
        intro e he
        simp only [List.mem_map] at he
        obtain ⟨x, hx, rfl⟩ := he
        have : x ≠ w := by intro h; subst h; exact hnd'.1 hx
        simp [this]
      rw [hfil]
      rw [ih hnd'.2 { q with suspend := ws.map (fun w => (T, w)), ready := q.ready ++ [w] } f rfl hT (by simp at hf; omega)]
      simp [List.append_assoc]

/-- the state after worker `i`, woken with only `ret v` left of task `u`, has published the result
and — the queue being empty — left its loop -/
def afterFinish (q : Pool) (i u v : Nat) (rest : List Nat) : Pool :=
  setWorker { (setResult { q with ready := rest, runningTasks := q.runningTasks.filter (fun e => e.1 != u) } u (.ok v)) with running := q.running - 1 } i { task := none, rest := [], alive := false }

theorem iter_finish (f : Nat) (q : Pool) (i u v : Nat) (rest : List Nat)
    (hready : q.ready = i :: rest) (hnosusp : q.suspend = [])
    (hw : q.workers[i]? = some { task := some u, rest := [.ret v] })
    (hcc : q.cancelCos.contains i = false) (hnw : q.noWaits.contains u = false)
    (htasks : q.tasks.popMin = none) :
    schedLoop (f + 1) q = schedLoop f (afterFinish q i u v rest) := by
  have hwl : i < q.workers.length := (List.getElem?_eq_some_iff.mp hw).1
  have key : schedLoop (f + 1) q =
      schedLoop f (resumeWorker (stepFuel { q with ready := rest }) { q with ready := rest } i) := by
    have hwk : wake (q.suspend.length + 1) q = q := wake_nothing_due _ q (by intro e he; rw [hnosusp] at he; simp at he)
    conv => lhs; unfold schedLoop
    simp only [hwk, hready, hcc, Bool.false_eq_true, if_false]
  rw [key]
  obtain ⟨g, hg⟩ := stepFuel_ge { q with ready := rest }
  rw [hg]
  congr 1
  -- first step: `ret v` finishes the task; second step: nothing queued, the worker leaves
  conv => lhs; unfold resumeWorker
  simp only [hw, Bool.not_true, Bool.false_eq_true, if_false]
  unfold finish
  simp only [hnw, Bool.false_eq_true, if_false]
  conv => lhs; unfold resumeWorker
  simp [setWorker, setResult, hwl, htasks, afterFinish, List.set_set]


theorem nodup_rev (l : List Nat) (h : l.Nodup) : l.reverse.Nodup := (List.reverse_perm l).nodup_iff.mpr h

/-- woken sleepers `(worker, task, value)`, in run-queue order, each with only its `ret` left -/
structure Finishing (q : Pool) (ws : List (Nat × Nat × Nat)) : Prop where
  ready : q.ready = ws.map (·.1)
  nosusp : q.suspend = []
  workers : ∀ e ∈ ws, q.workers[e.1]? = some { task := some e.2.1, rest := [.ret e.2.2] }
  nodupW : (ws.map (·.1)).Nodup
  nodupT : (ws.map (·.2.1)).Nodup
  noCancel : q.cancelCos = []
  noNoWaits : q.noWaits = []
  tasks : q.tasks.popMin = none

theorem finish_all (ws : List (Nat × Nat × Nat)) :
    ∀ (q : Pool) (f : Nat), Finishing q ws → ws.length < f →
      (schedLoop f q).running = q.running - ws.length ∧ (schedLoop f q).ready = [] ∧
      (∀ e ∈ ws, (e.2.1, Outcome.ok e.2.2) ∈ (schedLoop f q).results) ∧
      (∀ x ∈ q.results, x.1 ∉ ws.map (·.2.1) → x ∈ (schedLoop f q).results) := by
  induction ws with
  | nil =>
    intro q f h _
    rw [schedLoop_idle f q (by simpa using h.ready) (by intro e he; rw [h.nosusp] at he; simp at he)]
    exact ⟨by simp, by simpa using h.ready, by intro e he; simp at he, fun x hx _ => hx⟩
  | cons e es ih =>
    intro q f h hf
    obtain ⟨i, u, v⟩ := e
    obtain ⟨g, rfl⟩ : ∃ g, f = g + 1 := ⟨f - 1, by simp at hf; omega⟩
    have hw := h.workers (i, u, v) List.mem_cons_self
    rw [iter_finish g q i u v (es.map (·.1)) (by simpa using h.ready) h.nosusp hw (by simp [h.noCancel]) (by simp [h.noNoWaits]) h.tasks]
    have hndW := List.nodup_cons.mp (by simpa using h.nodupW : (i :: es.map (·.1)).Nodup)
    have hndT := List.nodup_cons.mp (by simpa using h.nodupT : (u :: es.map (·.2.1)).Nodup)
    have hnext : Finishing (afterFinish q i u v (es.map (·.1))) es := by
      refine ⟨rfl, h.nosusp, ?_, hndW.2, hndT.2, h.noCancel, h.noNoWaits, h.tasks⟩
      intro e' he'
      have hne : e'.1 ≠ i := by
        intro heq; apply hndW.1; rw [← heq]; exact List.mem_map_of_mem he'
      have := h.workers e' (List.mem_cons_of_mem _ he')
      simp only [afterFinish, setWorker, setResult]
      rw [List.getElem?_set_ne (Ne.symm hne)]
      exact this
    obtain ⟨a, b, c, d⟩ := ih _ g hnext (by simp at hf; omega)
    have hres : (afterFinish q i u v (es.map (·.1))).results = (u, Outcome.ok v) :: q.results.filter (fun x => x.1 != u) := rfl
    have hrun : (afterFinish q i u v (es.map (·.1))).running = q.running - 1 := rfl
    refine ⟨by rw [a, hrun]; simp; omega, b, ?_, ?_⟩
    · intro e' he'
      rcases List.mem_cons.mp he' with rfl | he'
      · exact d (u, Outcome.ok v) (by rw [hres]; exact List.mem_cons_self) hndT.1
      · exact c e' he'
    · intro x hx hnot
      simp only [List.map_cons, List.mem_cons, not_or] at hnot
      exact d x (by rw [hres]; exact List.mem_cons_of_mem _ (by simp [List.mem_filter, hx, hnot.1])) hnot.2

theorem schedLoop_after_wake (f : Nat) (q q' : Pool) (hw : wake (q.suspend.length + 1) q = q') (hq' : q'.suspend = []) :
    schedLoop (f + 1) q = schedLoop (f + 1) q' := by
  have h2 : wake (q'.suspend.length + 1) q' = q' := wake_nothing_due _ q' (by intro e he; rw [hq'] at he; simp at he)
  conv => lhs; unfold schedLoop
  conv => rhs; unfold schedLoop
  simp only [hw, h2]

theorem pass_running (q : Pool) (h : q.state = .running) :
    pass q = some (schedLoop (stepFuel q + q.tasks.len + 4) (tryGrow q)) := by
  unfold pass; split
  · rename_i hs; rw [h] at hs; simp at hs
  · rfl

/-- **N sleepers are all done after d.** The scenario of `C15_n_sleepers_one_d`, carried through the
pass at `t₀ + d`: every one of the `N` tasks has then published its own value and no worker is left —
the whole batch takes `d`, for every `N`, `d`, `t₀`. -/
theorem C15_n_sleepers_done (m t0 d : Nat) (vs : List Nat) (hN : vs ≠ []) (hm : vs.length ≤ m)
    (hd : 0 < d) (hov : t0 + d ≤ U64MAX) :
    ∃ q1 q2, pass (submitSleepers { maxSize := m, now := t0 } vs d) = some q1 ∧
      pass { q1 with now := t0 + d } = some q2 ∧
      (∀ i, (hi : i < vs.length) → (i, Outcome.ok vs[i]) ∈ q2.results) ∧ q2.running = 0 ∧ q2.ready = [] := by
  obtain ⟨s1, s2, s3, s4, s5, s6, s7, s8, s9, s10, s11, s12, s13⟩ :=
    submitSleepers_spec vs d { maxSize := m, now := t0 } [] rfl rfl
  obtain ⟨v0, vs', rfl⟩ := List.exists_cons_of_ne_nil hN
  dsimp only at s2 s3 s4 s5 s6 s7 s8 s9 s10 s11 s12
  simp only [List.nil_append, List.length_nil, List.length_cons, List.range'_succ] at s1
  generalize hp : submitSleepers { maxSize := m, now := t0 } (v0 :: vs') d = p at *
  have htasks : p.tasks = [(0, 0 :: List.range' 1 vs'.length)] := by simpa using s1
  have hT : min U64MAX (d + t0) = t0 + d := by unfold U64MAX at *; omega
  have hg : tryGrow p = { p with workers := [{}], ready := [0], running := 1 } := by
    unfold tryGrow
    have h1 : ¬ p.tasks.vals = [] := by simp [htasks, PQ.vals]
    have h2 : p.maxSize ≠ 0 := by rw [s7]; simp at hm; omega
    simp [h1, h2, s3, s4, s6]
  let vf : Nat → Nat := fun u => (v0 :: vs').getD u 0
  have hst : Starting { p with workers := [{}], ready := [0], running := 1 } 0 0 (List.range' 1 vs'.length) d vf := by
    refine ⟨rfl, rfl, rfl, htasks, ?_, s9, s10, by simp [s5], by simp only [s8]; rw [hT]; omega, by simp [s7]; simp at hm; omega⟩
    intro u hu
    have hu' : u < (v0 :: vs').length := by
      simp only [List.mem_cons, List.mem_range'_1] at hu
      simp; omega
    simp only [s2, List.nil_append]
    rw [List.getD_eq_getElem?_getD, List.getElem?_map]
    simp [vf, List.getElem?_eq_getElem hu', List.getD_eq_getElem?_getD]
  have hfuel : (List.range' 1 vs'.length).length + 1 < stepFuel p + p.tasks.len + 4 := by
    simp [htasks, PQ.len]; omega
  obtain ⟨r1, r2, r3, r4, r5, r6, r7, r8, r9, r10⟩ := C15_sleeps_overlap d vf _ _ 0 0 _ hst hfuel
  generalize hq1 : schedLoop (stepFuel p + p.tasks.len + 4) { p with workers := [{}], ready := [0], running := 1 } = q1 at *
  have hstate : q1.state = .running := by rw [← hq1, schedLoop_state]; exact s13
  have hng : tryGrow { q1 with now := t0 + d } = { q1 with now := t0 + d } := by simp [tryGrow, r4, PQ.vals]
  obtain ⟨N, hNdef⟩ : ∃ N, N = vs'.length + 1 := ⟨_, rfl⟩
  have hrange : (0 :: List.range' 1 vs'.length) = List.range N := by
    rw [hNdef]; simp [List.range_eq_range', List.range'_succ]
  have hsusp : ({ q1 with now := t0 + d } : Pool).suspend = (List.range N).reverse.map (fun w => (t0 + d, w)) := by
    show q1.suspend = _
    rw [r2]; simp only [s5, List.append_nil, s8, hT, Nat.zero_add, List.length_range', hNdef]
  have hwake := wake_all_equal (t0 + d) (List.range N).reverse (nodup_rev _ List.nodup_range) { q1 with now := t0 + d }
    (({ q1 with now := t0 + d } : Pool).suspend.length + 1) hsusp (Nat.le_refl _) (by rw [hsusp]; simp)
  have hfin : Finishing { ({ q1 with now := t0 + d } : Pool) with suspend := [], ready := ({ q1 with now := t0 + d } : Pool).ready ++ (List.range N).reverse }
      ((List.range N).reverse.map (fun i => (i, i, vf i))) := by
    refine ⟨?_, rfl, ?_, ?_, ?_, ?_, ?_, ?_⟩
    · simp [r5, List.map_map, Function.comp_def]
    · intro e he
      simp only [List.mem_map, List.mem_reverse, List.mem_range] at he
      obtain ⟨i, hi, rfl⟩ := he
      simp only [r3, List.take_zero, List.nil_append, hrange]
      rw [List.getElem?_map, List.getElem?_range hi]
      rfl
    · simp only [List.map_map, Function.comp_def, List.map_id']; exact nodup_rev _ List.nodup_range
    · simp only [List.map_map, Function.comp_def, List.map_id']; exact nodup_rev _ List.nodup_range
    · show q1.cancelCos = []; rw [r9]; exact s10
    · show q1.noWaits = []
      rw [r10]
      -- submitting tasks never touches the set of unwanted results
      have : ∀ (vs : List Nat) (p0 : Pool), (submitSleepers p0 vs d).noWaits = p0.noWaits := by
        intro vs
        induction vs with
        | nil => intro p0; rfl
        | cons v vs ih =>
          intro p0
          unfold submitSleepers at ih ⊢
          rw [List.foldl_cons, ih]
          unfold submit; split <;> rfl
      rw [← hp, this]
    · show q1.tasks.popMin = none
      rw [r4]; rfl
  obtain ⟨F, hF⟩ : ∃ F, stepFuel ({ q1 with now := t0 + d } : Pool) + ({ q1 with now := t0 + d } : Pool).tasks.len + 4 = F + 1 := ⟨_, rfl⟩
  obtain ⟨a, b, c, _⟩ := finish_all _ _ (F + 1) hfin (by
    simp only [List.length_map, List.length_reverse, List.length_range]
    have hwl : ({ q1 with now := t0 + d } : Pool).workers.length = N := by
      show q1.workers.length = N
      rw [r3]; simp [hNdef]
    have : stepFuel ({ q1 with now := t0 + d } : Pool) ≥ 2 * N + 8 := by
      unfold stepFuel; rw [hwl]; omega
    omega)
  refine ⟨q1, schedLoop (F + 1) { ({ q1 with now := t0 + d } : Pool) with suspend := [], ready := ({ q1 with now := t0 + d } : Pool).ready ++ (List.range N).reverse },
    ?_, ?_, ?_, ?_, b⟩
  · rw [pass_running p s13, hg, hq1]
  · rw [pass_running _ (show ({ q1 with now := t0 + d } : Pool).state = .running from hstate), hng, hF,
        schedLoop_after_wake F _ _ hwake rfl]
  · intro i hi
    have hiN : i < N := by rw [hNdef]; simpa using hi
    have := c (i, i, vf i) (by simp only [List.mem_map, List.mem_reverse, List.mem_range]; exact ⟨i, hiN, rfl⟩)
    simp only [vf, List.getD_eq_getElem?_getD, List.getElem?_eq_getElem hi, Option.getD_some] at this
    exact this
  · rw [a]
    show q1.running - _ = 0
    rw [r7]; simp [hNdef]; omega

-- the whole story on concrete instances (evaluation, not the general claim): three sleepers of 500 ns
-- on a pool of 3 are all done after the pass at t₀ + 500; on a pool of 1 they take three rounds
example : ((pass (submitSleepers { maxSize := 3, now := 1000 } [7, 8, 9] 500)).bind
    (fun q => pass { q with now := 1500 })).map (fun q => (q.results.length, q.running)) = some (3, 0) := by decide
example : ((pass (submitSleepers { maxSize := 1, now := 1000 } [7, 8, 9] 500)).bind
    (fun q => pass { q with now := 1500 })).map (fun q => q.results.length) = some 1 := by decide

end Oc.Props.C15
