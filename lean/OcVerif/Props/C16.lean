import OcVerif.Proofs.Nio
/-!
# C16 — hooked socket I/O reports exactly the bytes it transferred

For every kernel script (unbounded), every buffer / iovec shape, both blocking modes, every time
limit and wait script: the executable specification `Spec.Nio.c16` — the same predicate that is
evaluated on the implementation's observed behaviour — has no violated clause on the model.
-/
namespace Oc.Props.C16
open Oc.Nio Oc.Spec.Nio

/-- Return value = bytes moved; −1 only if nothing moved, with the failing call's errno. -/
theorem C16_return_is_total (k : Kind) (shape : Shape) (blocking : Bool) (limit start : Nat)
    (calls : List CResp) (waits : List WResp) :
    let o := call k shape blocking limit start calls waits
    (o.ret = Int.ofNat o.moved ∧ o.errno = 0) ∨
    (o.ret = -1 ∧ o.moved = 0 ∧ o.errno = o.lastErr.getD 0) ∨
    (o.ret = 0 ∧ o.moved = 0) := by
  have h := loop_final k shape blocking start limit calls _ (init_running start limit waits)
  simp only [call, final]
  cases h with
  | success h1 h2 => exact Or.inl ⟨h1, h2⟩
  | failed h1 h2 h3 => exact Or.inr (Or.inl ⟨h1, h2, h3⟩)
  | waitFailed h1 h2 => exact Or.inr (Or.inr ⟨h1, h2⟩)

/-- A zero-length request that the kernel answers returns 0 (time limits are never 0, see C28). -/
theorem C16_zero_length (k : Kind) (shape : Shape) (blocking : Bool) (limit start : Nat) (hl : 0 < limit)
    (n : Nat) (rest : List CResp) (waits : List WResp) (hz : shape.total = 0) :
    (call k shape blocking limit start (.moved n :: rest) waits).ret = 0 := by
  have hne : ¬ limit = 0 := by omega
  simp only [call, final, loop, hne, if_false, onMoved, addReq, requested, hz]
  cases k <;> simp [Kind.isVec]

/-- The executable C16 specification holds of the model for every script. -/
theorem C16_spec_holds (k : Kind) (shape : Shape) (blocking : Bool) (limit start : Nat) (hl : 0 < limit)
    (calls : List CResp) (waits : List WResp) :
    c16 (ofModel k shape blocking calls (call k shape blocking limit start calls waits)) = [] := by
  have h := C16_return_is_total k shape blocking limit start calls waits
  have hz : shape.total = 0 → firstIsMoved calls = true →
      (call k shape blocking limit start calls waits).ret = 0 := by
    intro hz hf
    cases calls with
    | nil => simp [firstIsMoved] at hf
    | cons c rest =>
      cases c with
      | moved n => exact C16_zero_length k shape blocking limit start hl n rest waits hz
      | _ => simp [firstIsMoved] at hf
  simp only at h
  generalize call k shape blocking limit start calls waits = o at h hz
  simp only [Int.ofNat_eq_natCast] at h
  have n1 : ¬ (o.moved > 0 ∧ o.ret ≠ Int.ofNat o.moved) := by
    simp only [Int.ofNat_eq_natCast]
    rintro ⟨hm, hr⟩; rcases h with ⟨h1, _⟩ | ⟨h1, h2, _⟩ | ⟨h1, h2⟩
    · exact hr h1
    · omega
    · omega
  have n2 : ¬ (o.ret = -1 ∧ o.moved > 0) := by
    rintro ⟨hr, hm⟩; rcases h with ⟨h1, _⟩ | ⟨h1, h2, _⟩ | ⟨h1, h2⟩ <;> omega
  have n3 : ¬ (o.ret = -1 ∧ o.moved = 0 ∧ o.lastErr.getD 0 ≠ 0 ∧ o.errno ≠ o.lastErr.getD 0) := by
    rintro ⟨hr, hm, hl, he⟩; rcases h with ⟨h1, h2⟩ | ⟨h1, h2, h3⟩ | ⟨h1, h2⟩
    · omega
    · exact he h3
    · omega
  have n4 : ¬ (o.ret ≥ 0 ∧ o.ret ≠ Int.ofNat o.moved) := by
    simp only [Int.ofNat_eq_natCast]
    rintro ⟨hr, hn⟩; rcases h with ⟨h1, _⟩ | ⟨h1, h2, _⟩ | ⟨h1, h2⟩
    · exact hn h1
    · omega
    · rw [h2] at hn; exact hn h1
  have n5 : ¬ (o.ret < -1) := by
    intro hr; rcases h with ⟨h1, _⟩ | ⟨h1, h2, _⟩ | ⟨h1, h2⟩ <;> omega
  have n7 : ¬ (shape.total = 0 ∧ firstIsMoved calls = true ∧ o.ret ≠ 0) := by
    rintro ⟨h1, h2, h3⟩; exact h3 (hz h1 h2)
  unfold c16 ofModel
  simp only [if_neg n1, if_neg n2, if_neg n3, if_neg n4, if_neg n5, if_neg n7, List.append_nil]
  simp

-- non-vacuity: a readv over [4,4] answered EAGAIN, EINTR, then 6 bytes returns 6
example : (call .readVec [4, 4] true U64MAX 0 [.again, .intr, .moved 6] [.ev 5]).ret = 6 := by decide
example : (call .readBuf [8] true 25000000 0 [.again, .again, .again, .again] [.full, .full, .full]).waits = [10000000, 10000000, 5000000, 0] := by decide

end Oc.Props.C16
