import OcVerif.Model.Conc.Beans
/-!
# C26 — process-wide named singletons are unique under concurrent first use

Invariant over every interleaving of any number of threads and lookups: every instance any thread
has received for a name is the instance registered for that name, and a registered instance is
never replaced.
-/
namespace Oc.Props.C26
open Oc.Conc.Beans

/-- every answer handed out is the registered instance; at most one registration per name -/
def Inv (c : Cfg) : Prop :=
  (∀ t ∈ c.ths, ∀ p ∈ t.got, find c.map p.1 = some p.2)

theorem find_cons_other (m : List (Name × Inst)) (n n' : Name) (i : Inst) (h : n' ≠ n) :
    find ((n, i) :: m) n' = find m n' := by
  simp [find, List.find?_cons, Ne.symm h]

theorem find_cons_same (m : List (Name × Inst)) (n : Name) (i : Inst) : find ((n, i) :: m) n = some i := by
  simp [find, List.find?_cons]

/-- registering a *new* name keeps every earlier answer valid -/
theorem find_mono (m : List (Name × Inst)) (n : Name) (i : Inst) (hn : find m n = none) (n' : Name) (j : Inst)
    (h : find m n' = some j) : find ((n, i) :: m) n' = some j := by
  by_cases he : n' = n
  · subst he; rw [hn] at h; simp at h
  · rw [find_cons_other _ _ _ _ he]; exact h

theorem step_inv {c c' : Cfg} (hi : Inv c) (hs : Step c c') : Inv c' := by
  cases hs with
  | mk k h m' nx' t' hs =>
    intro t ht p hp
    generalize htk : c.ths[k] = tk at hs
    have htk_mem : tk ∈ c.ths := by rw [← htk]; exact List.getElem_mem h
    unfold stepTh at hs
    -- which thread is `t`?
    rcases List.mem_or_eq_of_mem_set ht with hold | hnew
    · -- an unchanged thread: its answers stay valid because the map only grows by a new name
      have hval := hi t hold p hp
      split at hs
      · simp at hs
      · split at hs
        · simp only [Option.some.injEq, Prod.mk.injEq] at hs; obtain ⟨rfl, _, _⟩ := hs; exact hval
        · simp only [Option.some.injEq, Prod.mk.injEq] at hs; obtain ⟨rfl, _, _⟩ := hs; exact hval
      · split at hs
        · simp only [Option.some.injEq, Prod.mk.injEq] at hs; obtain ⟨rfl, _, _⟩ := hs; exact hval
        · rename_i hnone
          simp only [Option.some.injEq, Prod.mk.injEq] at hs; obtain ⟨rfl, _, _⟩ := hs
          exact find_mono _ _ _ hnone _ _ hval
      · simp at hs
    · subst hnew
      split at hs
      · simp at hs
      · split at hs
        · rename_i i hf
          simp only [Option.some.injEq, Prod.mk.injEq] at hs; obtain ⟨rfl, _, rfl⟩ := hs
          simp only [List.mem_cons] at hp
          rcases hp with rfl | hp
          · exact hf
          · exact hi tk htk_mem p hp
        · simp only [Option.some.injEq, Prod.mk.injEq] at hs; obtain ⟨rfl, _, rfl⟩ := hs
          exact hi tk htk_mem p hp
      · split at hs
        · rename_i i hf
          simp only [Option.some.injEq, Prod.mk.injEq] at hs; obtain ⟨rfl, _, rfl⟩ := hs
          simp only [List.mem_cons] at hp
          rcases hp with rfl | hp
          · exact hf
          · exact hi tk htk_mem p hp
        · rename_i hnone
          simp only [Option.some.injEq, Prod.mk.injEq] at hs; obtain ⟨rfl, _, rfl⟩ := hs
          simp only [List.mem_cons] at hp
          rcases hp with rfl | hp
          · exact find_cons_same _ _ _
          · exact find_mono _ _ _ hnone _ _ (hi tk htk_mem p hp)
      · simp at hs

theorem reach_inv {c0 c : Cfg} (h0 : Inv c0) (hr : Reach c0 c) : Inv c := by
  induction hr with
  | refl => exact h0
  | step _ hs ih => exact step_inv ih hs

/-- All threads that ask for the same name receive the same instance, under every interleaving of
any number of threads (initially nobody has received anything). -/
theorem C26_unique (ths : List Th) (hfresh : ∀ t ∈ ths, t.got = []) (c : Cfg)
    (hr : Reach { ths := ths } c) (t t' : Th) (ht : t ∈ c.ths) (ht' : t' ∈ c.ths)
    (n : Name) (i i' : Inst) (hi : (n, i) ∈ t.got) (hi' : (n, i') ∈ t'.got) : i = i' := by
  have h0 : Inv { ths := ths } := by
    intro t ht p hp; rw [hfresh t ht] at hp; simp at hp
  have hinv := reach_inv h0 hr
  have h1 := hinv t ht (n, i) hi
  have h2 := hinv t' ht' (n, i') hi'
  simp only at h1 h2
  rw [h1] at h2; exact Option.some.inj h2

/-- …and that instance stays the one later lookups return: whatever happens afterwards, every
answer ever given is still the registered instance. -/
theorem C26_stable (c c' : Cfg) (hi : Inv c) (hr : Reach c c') (t : Th) (ht : t ∈ c'.ths) (n : Name) (i : Inst)
    (hg : (n, i) ∈ t.got) : find c'.map n = some i := (reach_inv hi hr) t ht (n, i) hg

/-- The pre-fix protocol (get, then unconditional insert) hands two threads two different
instances on the schedule get‖get, insert, insert. -/
theorem C26_old_counterexample :
    (runOld ([], 1, [{ todo := [7] }, { todo := [7] }]) [0, 1, 0, 1]).map (fun c => c.2.2.map (·.got))
      = some [[(7, 1)], [(7, 2)]] := by decide

end Oc.Props.C26
