import OcVerif.Proofs.Nio
/-!
# C18 — non-blocking sockets keep non-blocking semantics under the hook
-/
namespace Oc.Props.C18
open Oc.Nio Oc.Spec.Nio

/-- Every hooked call leaves the blocking mode exactly as the caller set it, whatever the outcome. -/
theorem C18_flag_restored (k : Kind) (shape : Shape) (blocking : Bool) (limit start : Nat)
    (calls : List CResp) (waits : List WResp) :
    (call k shape blocking limit start calls waits).blockingAfter = blocking := by
  cases blocking <;> rfl

/-- On a descriptor the caller made non-blocking no readiness wait is ever issued. -/
theorem C18_nonblocking_never_waits (k : Kind) (shape : Shape) (limit start : Nat)
    (calls : List CResp) (waits : List WResp) :
    (call k shape false limit start calls waits).waits = [] := by
  simp only [call, final]
  exact loop_nowait_nonblocking k shape start limit calls _

/-- …and a call that would block returns −1/EAGAIN immediately. -/
theorem C18_nonblocking_immediate (k : Kind) (shape : Shape) (limit start : Nat) (hl : 0 < limit)
    (rest : List CResp) (waits : List WResp) :
    let o := call k shape false limit start (.again :: rest) waits
    o.ret = -1 ∧ o.errno = EAGAIN ∧ o.waits = [] ∧ o.elapsed = 0 := by
  have hne : ¬ limit = 0 := by omega
  simp [call, final, loop, hne, failWith, addReq]

/-- The executable C18 specification holds of the model for every script. -/
theorem C18_spec_holds (k : Kind) (shape : Shape) (blocking : Bool) (limit start : Nat) (hl : 0 < limit)
    (calls : List CResp) (waits : List WResp) :
    c18 (ofModel k shape blocking calls (call k shape blocking limit start calls waits)) = [] := by
  unfold c18 ofModel
  simp only [C18_flag_restored, ne_eq, not_true_eq_false, if_false, List.nil_append, List.append_eq_nil_iff]
  cases blocking with
  | true => simp
  | false =>
    have hw := C18_nonblocking_never_waits k shape limit start calls waits
    constructor
    · split
      · rename_i hc
        exfalso
        cases calls with
        | nil => simp [firstIsAgain] at hc
        | cons c rest =>
          cases c with
          | again =>
            have := C18_nonblocking_immediate k shape limit start hl rest waits
            simp only at this
            exact hc.2.2 ⟨this.1, this.2.1, this.2.2.1⟩
          | _ => simp [firstIsAgain] at hc
      · rfl
    · simp [hw]

example : (call .readBuf [8] false 1000000000 0 [.again, .moved 8] [.full]).ret = -1 := by decide
example : (call .readBuf [8] true 1000000000 0 [.again, .moved 8] [.full]).ret = 8 := by decide

end Oc.Props.C18
