import OcVerif.Proofs.Nio
/-!
# C18 — non-blocking sockets keep non-blocking semantics under the hook
-/
namespace Oc.Props.C18
open Oc.Nio Oc.Spec.Nio

/-- Every hooked call leaves the blocking mode exactly as the caller set it, whatever the outcome. -/
theorem C18_flag_restored (k : Kind) (shape : Shape) (blocking : Bool) (limit start : Nat)
    (calls : List CResp) (waits : List WResp) :
    (call k shape blocking limit start calls waits).blockingAfter = blocking := by
  cases blocking <;> rfl

/-- On a descriptor the caller made non-blocking no readiness wait is ever issued. -/
theorem C18_nonblocking_never_waits (k : Kind) (shape : Shape) (limit start : Nat)
    (calls : List CResp) (waits : List WResp) :
    (call k shape false limit start calls waits).waits = [] := by
  simp only [call, final]
  exact loop_nowait_nonblocking k shape start limit calls _

/-- …and a call that would block returns −1/EAGAIN immediately. -/
theorem C18_nonblocking_immediate (k : Kind) (shape : Shape) (limit start : Nat) (hl : 0 < limit)
    (rest : List CResp) (waits : List WResp) :
    let o := call k shape false limit start (.again :: rest) waits
    o.ret = -1 ∧ o.errno = EAGAIN ∧ o.waits = [] ∧ o.elapsed = 0 := by
  have hne : ¬ limit = 0 := by omega
  simp [call, final, loop, hne, failWith, addReq]

/-- The executable C18 specification holds of the model for every script. -/
theorem C18_spec_holds (k : Kind) (shape : Shape) (blocking : Bool) (limit start : Nat) (hl : 0 < limit)
    (calls : List CResp) (waits : List WResp) :
    c18 (ofModel k shape blocking calls (call k shape blocking limit start calls waits)) = [] := by
  unfold c18 ofModel
  simp only [C18_flag_restored, ne_eq, not_true_eq_false, if_false, List.nil_append, List.append_eq_nil_iff]
  cases blocking with
  | true => simp
  | false =>
    have hw := C18_nonblocking_never_waits k shape limit start calls waits
    constructor
    · split
      · rename_i hc
        exfalso
        cases calls with
        | nil => simp [firstIsAgain] at hc
        | cons c rest =>
          cases c with
          | again =>
            have := C18_nonblocking_immediate k shape limit start hl rest waits
            simp only at this
            exact hc.2.2 ⟨this.1, this.2.1, this.2.2.1⟩
          | _ => simp [firstIsAgain] at hc
      · rfl
    · simp [hw]

example : (call .readBuf [8] false 1000000000 0 [.again, .moved 8] [.full]).ret = -1 := by decide
example : (call .readBuf [8] true 1000000000 0 [.again, .moved 8] [.full]).ret = 8 := by decide

theorem remap_frame (o : Out) : (remapTimeout o).waits = o.waits ∧ (remapTimeout o).elapsed = o.elapsed ∧
    (remapTimeout o).blockingAfter = o.blockingAfter ∧ (remapTimeout o).ret = o.ret := by
  unfold remapTimeout; split <;> exact ⟨rfl, rfl, rfl, rfl⟩

/-- `connect` on a descriptor the caller made non-blocking never waits: it returns the kernel's
answer (0, or −1 with EINPROGRESS / EINTR / the error) after the one inner call. -/
theorem C18_connect_nonblocking_never_waits (limit start : Nat) (first : CResp) (waits : List WResp) :
    (connectCall false limit start first waits).waits = [] ∧ (connectCall false limit start first waits).elapsed = 0 := by
  unfold connectCall
  rw [(remap_frame _).1, (remap_frame _).2.1]
  unfold connectCore
  cases first <;> simp

/-- `connect` leaves the descriptor's blocking mode as the caller set it, whatever the outcome. -/
theorem C18_connect_flag_restored (blocking : Bool) (limit start : Nat) (first : CResp) (waits : List WResp) :
    (connectCall blocking limit start first waits).blockingAfter = blocking := by
  unfold connectCall
  rw [(remap_frame _).2.2.1]
  unfold connectCore
  cases first <;> simp only <;> (try rfl) <;> (split <;> (try rfl) <;> (split <;> (try rfl) <;> (split <;> rfl)))

theorem afterWait_blocking (o : Out) (pending : Option Nat) : (afterWait o pending).blockingAfter = o.blockingAfter := by
  unfold afterWait; split <;> rfl

/-- …also when the connection fails asynchronously (the wait ends and the socket reports an error
such as ECONNREFUSED): the mode is restored and the caller gets −1 with that error. -/
theorem C18_connect_flag_restored_async_failure (blocking : Bool) (limit start : Nat) (first : CResp) (waits : List WResp) (pending : Option Nat) :
    (connectCall blocking limit start first waits pending).blockingAfter = blocking := by
  unfold connectCall
  rw [(remap_frame _).2.2.1]
  unfold connectCore
  cases first <;> simp only <;> (try rfl) <;>
    (split <;> (try rfl) <;> (split <;> (try rfl) <;> (split <;> (first | rfl | (rw [afterWait_blocking])))))

example : (connectCall true U64MAX 1000 .again [.full] (some 111)).ret = -1 ∧ (connectCall true U64MAX 1000 .again [.full] (some 111)).errno = 111 ∧
    (connectCall true U64MAX 1000 .again [.full] (some 111)).blockingAfter = true := by decide

/-- A blocking `connect` waits at most once, for at most a slice and never longer than the send time
limit allows — in particular an interrupted attempt (EINTR) is awaited, it does not spin. -/
theorem C18_connect_waits_bounded (blocking : Bool) (limit start : Nat) (first : CResp) (waits : List WResp) :
    (connectCall blocking limit start first waits).waits.length ≤ 1 ∧
    ∀ w ∈ (connectCall blocking limit start first waits).waits, w ≤ SLICE ∧ w ≤ limit := by
  have hw : waitTime start limit start ≤ SLICE ∧ waitTime start limit start ≤ limit := by
    unfold waitTime leftTime; constructor
    · exact Nat.min_le_right _ _
    · have : min U64MAX (start + limit) - start ≤ limit := by
        have := Nat.min_le_right U64MAX (start + limit); omega
      exact Nat.le_trans (Nat.min_le_left _ _) this
  unfold connectCall
  rw [(remap_frame _).1]
  have key : ∀ (r : CResp), (∀ n, r ≠ .moved n) →
      (connectCore blocking limit start r waits).waits.length ≤ 1 ∧
      ∀ w ∈ (connectCore blocking limit start r waits).waits, w ≤ SLICE ∧ w ≤ limit := by
    intro r hr
    have hcc : connectCore blocking limit start r waits =
        (if !blocking then ({ ret := -1, errno := errnoOf r, reqs := [⟨[], 1⟩], waits := [], blockingAfter := blocking, elapsed := 0, moved := 0, lastErr := some (errnoOf r) } : Out)
         else if !underWay (errnoOf r) then { ret := -1, errno := errnoOf r, reqs := [⟨[], 1⟩], waits := [], blockingAfter := blocking, elapsed := 0, moved := 0, lastErr := some (errnoOf r) }
         else match waits with
           | .fail :: _ => { ret := -1, errno := errnoOf r, reqs := [⟨[], 1⟩], waits := [waitTime start limit start], blockingAfter := blocking, elapsed := 0, moved := 0, lastErr := some (errnoOf r) }
           | .full :: _ => { ret := 0, errno := 0, reqs := [⟨[], 1⟩], waits := [waitTime start limit start], blockingAfter := blocking, elapsed := waitTime start limit start, moved := 0, lastErr := some (errnoOf r) }
           | .ev ns :: _ => { ret := 0, errno := 0, reqs := [⟨[], 1⟩], waits := [waitTime start limit start], blockingAfter := blocking, elapsed := min ns (waitTime start limit start), moved := 0, lastErr := some (errnoOf r) }
           | [] => { ret := -1, errno := errnoOf r, reqs := [⟨[], 1⟩], waits := [waitTime start limit start], blockingAfter := blocking, elapsed := 0, moved := 0, lastErr := some (errnoOf r) }) := by
      cases r with
      | moved n => exact absurd rfl (hr n)
      | again => rfl
      | intr => rfl
      | err e => rfl
    rw [hcc]
    split
    · exact ⟨by simp, by intro w h; simp at h⟩
    · split
      · exact ⟨by simp, by intro w h; simp at h⟩
      · split <;> exact ⟨by simp, by intro w h; simp only [List.mem_singleton] at h; subst h; exact hw⟩
  cases first with
  | moved n => unfold connectCore; exact ⟨by simp, by intro w h; simp at h⟩
  | again => exact key _ (by intro n; simp)
  | intr => exact key _ (by intro n; simp)
  | err e => exact key _ (by intro n; simp)

example : (connectCall true U64MAX 1000 .intr [.ev 5]).ret = 0 ∧ (connectCall false U64MAX 1000 .again [.ev 5]).errno = 115 := by decide

end Oc.Props.C18
