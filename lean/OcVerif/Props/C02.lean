import OcVerif.Model.Conc.WaitNotify
/-!
# C02 — joining a task returns that task's own result once it finishes

Every interleaving of the waiter's check / register / re-check / block / take steps with the
completer's insert / notify steps and with the passing of the waiter's deadline.
-/
namespace Oc.Props.C02
open Oc.Conc.Join

/-- the inductive invariant -/
structure Inv (c : Cfg) : Prop where
  fixedCode : c.recheck = true
  /-- the result entry exists exactly between the completer's insert and the waiter's take -/
  resNone : c.cpc = .start → c.res = none
  resVal : ∀ r, c.res = some r → r = c.outcome
  taken : c.cpc ≠ .start → c.res = none → ∃ r, c.wpc = .returned (some r)
  /-- a waiter that is (about to be) blocked is registered until the completer notifies -/
  reg : (c.wpc = .atRecheck ∨ c.wpc = .blocked) → c.cpc ≠ .done → c.registered = true
  /-- once the completer is done, a blocked waiter has been released -/
  released : c.wpc = .blocked → c.cpc = .done → c.pending = false
  /-- what was returned is the task's own outcome, and a timeout needs an expired deadline -/
  retOwn : ∀ r, c.wpc = .returned (some r) → r = c.outcome
  retTimeout : c.wpc = .returned none → c.expired = true ∧ (c.cpc ≠ .start → c.res = some c.outcome)
  /-- the flag of a registered waiter is only cleared by the completer's notify -/
  pend : (c.wpc = .atRecheck ∨ c.wpc = .blocked) → c.pending = false → c.cpc = .done
  /-- the final take is reached only through a notify or an expired deadline -/
  fin : c.wpc = .atFinalTake → c.expired = true ∨ c.cpc = .done

theorem inv_init (o : Outcome) : Inv { outcome := o } :=
  ⟨rfl, fun _ => rfl, by intro r h; simp at h, by intro h; simp at h, by intro h; simp at h, by intro h; simp at h,
   by intro r h; simp at h, by intro h; simp at h, by intro h; simp at h, by intro h; simp at h⟩

theorem inv_step {c c' : Cfg} (a : Act) (hi : Inv c) (hs : step c a = some c') : Inv c' := by
  obtain ⟨hf, h1, h2, h3, h4, h5, h6, h7, h8, h9⟩ := hi
  cases a with
  | expire =>
    simp only [step, Option.some.injEq] at hs; subst hs
    exact ⟨hf, h1, h2, h3, h4, h5, h6, fun h => ⟨rfl, (h7 h).2⟩, h8, fun _ => Or.inl rfl⟩
  | completer =>
    unfold step at hs
    simp only at hs
    split at hs
    · rename_i hc
      simp only [Option.some.injEq] at hs; subst hs
      refine ⟨hf, by intro h; simp at h, by intro r h; simp at h; exact h.symm, by intro _ h; simp at h, ?_, by intro _ h; simp at h, h6, ?_, ?_, ?_⟩
      · intro hw _; exact h4 hw (by rw [hc]; simp)
      · intro h; exact ⟨(h7 h).1, fun _ => rfl⟩
      · intro hw hp; have := h8 hw hp; rw [hc] at this; simp at this
      · intro hw; rcases h9 hw with h | h
        · exact Or.inl h
        · rw [hc] at h; simp at h
    · rename_i hc
      simp only [Option.some.injEq] at hs; subst hs
      refine ⟨hf, by intro h; simp at h, h2, ?_, by intro _ h; simp at h, ?_, h6, ?_, fun _ _ => rfl, fun _ => Or.inr rfl⟩
      · intro _ hr; exact h3 (by rw [hc]; simp) hr
      · intro hw _
        have := h4 (Or.inr hw) (by rw [hc]; simp)
        simp [this]
      · intro h; exact ⟨(h7 h).1, fun _ => (h7 h).2 (by rw [hc]; simp)⟩
    · simp at hs
  | waiter =>
    have noRet : ∀ (w : WPc), c.wpc = w → (∀ r, w ≠ .returned r) → c.cpc ≠ .start → c.res = none → False := by
      intro w hw hne hcne hrn
      obtain ⟨r, hr'⟩ := h3 hcne hrn
      rw [hw] at hr'; exact hne _ hr'
    unfold step at hs
    simp only at hs
    split at hs
    · -- start
      rename_i hw
      split at hs
      · rename_i r hr
        simp only [Option.some.injEq] at hs; subst hs
        refine ⟨hf, fun _ => rfl, by intro r' h; simp at h, fun _ _ => ⟨r, rfl⟩, by intro h; simp at h, by intro h; simp at h, ?_, by intro h; simp at h, by intro h; simp at h, by intro h; simp at h⟩
        intro r' h; simp only [WPc.returned.injEq, Option.some.injEq] at h; subst h; exact h2 r hr
      · rename_i hr
        simp only [Option.some.injEq] at hs; subst hs
        refine ⟨hf, h1, h2, ?_, by intro h; simp at h, by intro h; simp at h, by intro r h; simp at h, by intro h; simp at h, by intro h; simp at h, by intro h; simp at h⟩
        intro hcne hrn; exact (noRet _ hw (by intro r; simp) hcne hrn).elim
    · -- atRegister
      rename_i hw
      split at hs
      · simp only [Option.some.injEq] at hs; subst hs
        refine ⟨hf, h1, h2, ?_, fun _ _ => rfl, by intro h; simp at h, by intro r h; simp at h, by intro h; simp at h, by intro _ h; simp at h, by intro h; simp at h⟩
        intro hcne hrn; exact (noRet _ hw (by intro r; simp) hcne hrn).elim
      · rename_i hnf; exact absurd hf hnf
    · -- atRecheck
      rename_i hw
      split at hs
      · rename_i r hr
        simp only [Option.some.injEq] at hs; subst hs
        refine ⟨hf, fun _ => rfl, by intro r' h; simp at h, fun _ _ => ⟨r, rfl⟩, by intro h; simp at h, by intro h; simp at h, ?_, by intro h; simp at h, by intro h; simp at h, by intro h; simp at h⟩
        intro r' h; simp only [WPc.returned.injEq, Option.some.injEq] at h; subst h; exact h2 r hr
      · rename_i hr
        simp only [Option.some.injEq] at hs; subst hs
        refine ⟨hf, h1, h2, ?_, ?_, ?_, by intro r h; simp at h, by intro h; simp at h, ?_, by intro h; simp at h⟩
        · intro hcne hrn; exact (noRet _ hw (by intro r; simp) hcne hrn).elim
        · intro _ hcd; exact h4 (Or.inl hw) hcd
        · intro _ hcd
          exact (noRet _ hw (by intro r; simp) (by rw [hcd]; simp) hr).elim
        · intro _ hp; exact h8 (Or.inl hw) hp
    · -- blocked
      rename_i hw
      split at hs
      · simp at hs
      · rename_i hcond
        simp only [Option.some.injEq] at hs; subst hs
        refine ⟨hf, h1, h2, ?_, by intro h; simp at h, by intro h; simp at h, by intro r h; simp at h, by intro h; simp at h, by intro h; simp at h, ?_⟩
        · intro hcne hrn; exact (noRet _ hw (by intro r; simp) hcne hrn).elim
        · intro _
          by_cases he : c.expired = true
          · exact Or.inl he
          · right
            apply h8 (Or.inr hw)
            cases hp : c.pending with
            | false => rfl
            | true => simp [hp, he] at hcond
    · -- atFinalTake
      rename_i hw
      split at hs
      · rename_i r hr
        simp only [Option.some.injEq] at hs; subst hs
        refine ⟨hf, fun _ => rfl, by intro r' h; simp at h, fun _ _ => ⟨r, rfl⟩, by intro h; simp at h, by intro h; simp at h, ?_, by intro h; simp at h, by intro h; simp at h, by intro h; simp at h⟩
        intro r' h; simp only [WPc.returned.injEq, Option.some.injEq] at h; subst h; exact h2 r hr
      · rename_i hr
        simp only [Option.some.injEq] at hs; subst hs
        refine ⟨hf, h1, h2, ?_, by intro h; simp at h, by intro h; simp at h, by intro r h; simp at h, ?_, by intro h; simp at h, by intro h; simp at h⟩
        · intro hcne hrn; exact (noRet _ hw (by intro r; simp) hcne hrn).elim
        · intro _
          -- the final take found nothing: the completer has not inserted yet, so we got here
          -- through an expired deadline
          refine ⟨?_, fun hcne => (noRet _ hw (by intro r; simp) hcne hr).elim⟩
          rcases h9 hw with he | hd
          · exact he
          · exact (noRet _ hw (by intro r; simp) (by rw [hd]; simp) hr).elim
    · simp at hs

theorem reach_inv {c0 c : Cfg} (h0 : Inv c0) (hr : Reach c0 c) : Inv c := by
  induction hr with
  | refl => exact h0
  | step a _ hs ih => exact inv_step a ih hs

theorem step_outcome {c c' : Cfg} (a : Act) (hs : step c a = some c') : c'.outcome = c.outcome := by
  cases a with
  | expire => simp only [step, Option.some.injEq] at hs; subst hs; rfl
  | completer =>
    unfold step at hs; simp only at hs
    split at hs
    · simp only [Option.some.injEq] at hs; subst hs; rfl
    · simp only [Option.some.injEq] at hs; subst hs; rfl
    · simp at hs
  | waiter =>
    unfold step at hs; simp only at hs
    split at hs
    · split at hs <;> (simp only [Option.some.injEq] at hs; subst hs; rfl)
    · split at hs <;> (simp only [Option.some.injEq] at hs; subst hs; rfl)
    · split at hs <;> (simp only [Option.some.injEq] at hs; subst hs; rfl)
    · split at hs
      · simp at hs
      · simp only [Option.some.injEq] at hs; subst hs; rfl
    · split at hs <;> (simp only [Option.some.injEq] at hs; subst hs; rfl)
    · simp at hs

theorem reach_outcome {c0 c : Cfg} (hr : Reach c0 c) : c.outcome = c0.outcome := by
  induction hr with
  | refl => rfl
  | step a _ hs ih => rw [step_outcome a hs, ih]

/-- A wait that returns a value returns the task's own outcome — its return value or its panic
message — under every interleaving. -/
theorem C02_own_result (o : Outcome) (c : Cfg) (hr : Reach { outcome := o } c) (r : Outcome)
    (h : c.wpc = .returned (some r)) : r = o := by
  have hi := reach_inv (inv_init o) hr
  have := hi.retOwn r h
  rw [reach_outcome hr] at this; exact this

/-- No lost wake-up: once the task has finished (its completer is done), a waiter is never left
blocked — its flag has been cleared, so it is runnable and will take the result. -/
theorem C02_no_lost_wakeup (o : Outcome) (c : Cfg) (hr : Reach { outcome := o } c)
    (hb : c.wpc = .blocked) (hd : c.cpc = .done) : c.pending = false ∧ (step c .waiter).isSome = true := by
  have hi := reach_inv (inv_init o) hr
  have hp := hi.released hb hd
  exact ⟨hp, by simp [step, hb, hp]⟩

/-- The wait times out only if the task had not finished by the deadline: a timeout needs the
deadline to have passed, and if the task produced its result at all, it did so after the waiter had
given up (the result is still there, untaken). -/
theorem C02_timeout_only_if_unfinished (o : Outcome) (c : Cfg) (hr : Reach { outcome := o } c)
    (h : c.wpc = .returned none) : c.expired = true ∧ (c.cpc ≠ .start → c.res = some o) := by
  have hi := reach_inv (inv_init o) hr
  have := hi.retTimeout h
  refine ⟨this.1, fun hne => ?_⟩
  have hres := this.2 hne
  rw [reach_outcome hr] at hres; exact hres

/-- The code before the fix (no re-check after registration) loses the wake-up on the schedule
first-take, insert, notify, register, block: the waiter is blocked although the task is finished. -/
theorem C02_old_lost_wakeup :
    let c := run { outcome := .value 7, recheck := false } [.waiter, .completer, .completer, .waiter]
    c.wpc = .blocked ∧ c.cpc = .done ∧ c.pending = true ∧ step c .waiter = none := by decide

end Oc.Props.C02
