import OcVerif.Model.Selector
import OcVerif.Model.LoopTurn
/-!
# C20 — readiness wakes exactly the waiting coroutine, promptly

Two layers: the token that is handed to the OS and comes back in the event is the coroutine's
64-bit id itself (identity, hence injective — the pre-fix 32-bit fold is refuted), and the
selector registers the *current* waiter's token for a descriptor, so a readiness event of that
descriptor reports exactly that token.
-/
namespace Oc.Props.C20
open Oc.Sel

/-- what `do_register` puts into `mio::Token` and `get_token` reads back -/
def encode (t : BitVec 64) : BitVec 64 := t
def decode (t : BitVec 64) : BitVec 64 := t
/-- the pre-fix encoding: `(t >> 32) ^ t` truncated to 32 bits -/
def encodeOld (t : BitVec 64) : BitVec 64 := ((t >>> 32) ^^^ t) &&& 0xFFFFFFFF#64

theorem C20_roundtrip (t : BitVec 64) : decode (encode t) = t := rfl
theorem C20_injective (a b : BitVec 64) (h : encode a = encode b) : a = b := h
/-- pre-fix: the event does not carry the id (so the lookup always missed) and distinct ids collide -/
theorem C20_old_fold_counterexample :
    encodeOld 0x100000000#64 ≠ 0x100000000#64 ∧ encodeOld 0x100000000#64 = encodeOld 1#64 := by decide

theorem aget_aset_same {α : Type} (l : List (Nat × α)) (k : Nat) (v : α) : aget (aset l k v) k = some v := by
  simp [aget, aset, List.find?_cons]

theorem reregister_tok {s s' : St} {fd : Fd} {tok : Tok} {r w : Bool} (h : reregister s fd tok r w = some s') :
    aget s'.K fd = some ⟨r, w, tok⟩ := by
  unfold reregister at h; split at h
  · simp at h
  · simp only [Option.some.injEq] at h; subst h; exact aget_aset_same _ _ _

theorem register_tok {s s' : St} {fd : Fd} {tok : Tok} {r w : Bool} (h : register s fd tok r w = some s') :
    aget s'.K fd = some ⟨r, w, tok⟩ := by
  unfold register at h; split at h
  · simp at h
  · simp only [Option.some.injEq] at h; subst h; exact aget_aset_same _ _ _

/-- A wait for read readiness leaves the descriptor registered with the waiter's own token — whether
the descriptor was unknown, known for writing, or already known for reading by another waiter. -/
theorem C20_waiter_token_registered (s : St) (fd : Fd) (tok : Tok) (h : (addRead s fd tok).2 = true)
    (hcons : has s.R fd = true → aget s.RT fd = some tok → (aget s.K fd).map (·.tok) = some tok) :
    (aget (addRead s fd tok).1.K fd).map (·.tok) = some tok := by
  unfold addRead at h ⊢
  by_cases hR : has s.R fd = true
  · simp only [hR, if_true] at h ⊢
    by_cases hrt : aget s.RT fd = some tok
    · simp only [hrt, if_true]; exact hcons hR hrt
    · simp only [hrt, if_false] at h ⊢
      generalize has s.W fd = wb at h ⊢
      cases hr : reregister s fd tok true wb with
      | none => simp [hr] at h
      | some s1 => simp [reregister_tok hr]
  · simp only [hR, Bool.false_eq_true, if_false] at h ⊢
    by_cases hW : has s.W fd = true
    · simp only [hW, if_true] at h ⊢
      cases hr : reregister s fd tok true true with
      | some s1 => simp [reregister_tok hr]
      | none =>
        simp only [hr, Option.orElse_none] at h ⊢
        cases hg : register s fd tok true true with
        | none => simp [hg] at h
        | some s1 => simp [register_tok hg]
    · simp only [hW, Bool.false_eq_true, if_false] at h ⊢
      cases hg : register s fd tok true false with
      | none => simp [hg] at h
      | some s1 => simp [register_tok hg]

/-- …and the readiness event of that descriptor then reports exactly that token (nothing else was
re-armed in between). -/
theorem C20_event_reports_registered_token (s : St) (fd : Fd) (e : KEnt) (hk : aget s.K fd = some e) (hr : e.r = true)
    (ha : s.armed = []) : (readyRead s fd).2 = [e.tok] := by
  simp [readyRead, pollOrder, evStep, ha, hk, hr, has, onEvent]

/-- Readiness of one descriptor reports nothing for a descriptor that is not registered for reading. -/
theorem C20_no_cross (s : St) (fd : Fd) (ha : s.armed = []) (hk : (aget s.K fd).all (fun e => !e.r) = true) :
    (readyRead s fd).2 = [] := by
  cases hkk : aget s.K fd with
  | none => simp [readyRead, pollOrder, evStep, ha, hkk, has]
  | some e =>
    rw [hkk] at hk; simp at hk
    simp [readyRead, pollOrder, evStep, ha, hkk, hk, has]

-- the history that failed before the fix: a second waiter on an already registered descriptor
example : (readyRead (addRead (readyRead (addRead {} 5 111).1 5).1 5 222).1 5).2 = [222] := by decide

/-- An armed entry with write interest gets a writable event, carrying its registered token, at the
next poll — whichever descriptor's readability triggered that poll. -/
theorem C20_armed_write_reported (s : St) (f fd : Fd) (e : KEnt) (ha : has s.armed f = true)
    (hk : aget s.K f = some e) (hw : e.w = true) : e.tok ∈ writableToks s fd := by
  have hmem : ∀ (l : List Nat), has l f = true → f ∈ l := by
    intro l
    induction l with
    | nil => intro h; simp [has] at h
    | cons y ys ih =>
      intro h
      unfold has at h
      by_cases hy : f = y
      · subst hy; exact List.mem_cons_self
      · simp only [hy, if_false] at h; exact List.mem_cons_of_mem _ (ih h)
  unfold writableToks
  rw [List.mem_filterMap]
  refine ⟨f, ?_, by simp [hk, hw, ha]⟩
  unfold pollOrder
  apply List.mem_append_left
  rw [List.mem_filter]
  exact ⟨hmem _ ha, by simp [hk, hw]⟩

-- the history of the seeded change that kept a stale write record after an event carrying both
-- flags: read wait, write wait, readable edge (both flags), write wait again → woken again
example : (writableToks (addWrite (readyRead (addWrite (addRead {} 5 111).1 5 111).1 5).1 5 111).1 5) = [111] := by decide

/-! ## the loop thread's turn: the poll happens on every turn -/
section Turn
open Oc.LoopTurn

/-- Whatever the scheduling part of a turn did — whichever coroutines stayed ready, whichever parked,
whether or not the slice was used up — every coroutine that is parked in a wait on a descriptor the
kernel reports ready is in the ready queue when the turn ends, and exactly those leave the waiters. -/
theorem C20_turn_wakes_ready_waiters (l : Loop) (stay : List Nat) (parks : List (Nat × Nat)) (usedUp : Bool)
    (readyFds : List Nat) (fd co : Nat) (hw : (fd, co) ∈ l.waiting ++ parks) (hr : fd ∈ readyFds) :
    co ∈ (turn l stay parks usedUp readyFds).ready ∧ (fd, co) ∉ (turn l stay parks usedUp readyFds).waiting := by
  unfold turn
  simp only [Bool.false_and, Bool.false_eq_true, if_false]
  unfold poll
  constructor
  · apply List.mem_append_right
    rw [List.mem_map]
    exact ⟨(fd, co), by rw [List.mem_filter]; exact ⟨hw, by simpa using hr⟩, rfl⟩
  · rw [List.mem_filter]
    intro h
    have := h.2
    simp [hr] at this

/-- …and a waiter whose descriptor is not ready stays parked: the poll wakes nobody else. -/
theorem C20_turn_wakes_only_ready (l : Loop) (stay : List Nat) (parks : List (Nat × Nat)) (usedUp : Bool)
    (readyFds : List Nat) (fd co : Nat) (hw : (fd, co) ∈ l.waiting ++ parks) (hr : fd ∉ readyFds) :
    (fd, co) ∈ (turn l stay parks usedUp readyFds).waiting := by
  unfold turn
  simp only [Bool.false_and, Bool.false_eq_true, if_false]
  unfold poll
  rw [List.mem_filter]
  exact ⟨hw, by simpa using hr⟩

/-- A loop that saves the zero-timeout poll whenever the slice was used up leaves the waiter parked
for as long as some other coroutine keeps the ready queue busy (seeded change C20b). -/
theorem C20_turn_skipping_poll_counterexample :
    (turn { waiting := [(7, 1)] } [2] [] true [7] (skipWhenUsedUp := true)).waiting = [(7, 1)] ∧
    (turn { waiting := [(7, 1)] } [2] [] true [7]).ready = [2, 1] := by decide

end Turn

end Oc.Props.C20
