import OcVerif.Model.StackGrow
/-!
# C23 — stack growth runs the callback with room to spare and restores bookkeeping
-/
namespace Oc.Props.C23
open Oc.Stack

/-- After a call returns *or unwinds*, the registered segments are exactly as before the call — for
every nest of calls, red-zone/size pairs, remaining-stack readings and panic/catch placement, in a
coroutine and on a plain thread. -/
theorem C23_restored (isCo : Bool) (usable : Nat → Nat) (depth : Nat) (ls : List Level) (panics : Bool) :
    (run isCo usable depth ls panics).2.2.1 = depth := by
  induction ls generalizing depth with
  | nil => rfl
  | cons l rest ih =>
    simp only [run]
    split
    · rfl
    · split <;> rfl

/-- The callback always starts with at least the requested red zone available: either that much
was left on the current segment, or it runs on a fresh segment (whose usable size covers the red
zone). -/
theorem C23_room (isCo : Bool) (usable : Nat → Nat) (depth : Nat) (ls : List Level) (panics : Bool)
    (hsize : ∀ l ∈ ls, l.red ≤ usable l.size) :
    ∀ e ∈ (run isCo usable depth ls panics).1, e.roomOk = true := by
  induction ls generalizing depth with
  | nil => intro e he; simp [run] at he
  | cons l rest ih =>
    have hl := hsize l (by simp)
    have hrest := ih (if grows isCo depth l then depth + 1 else depth) (fun l' hl' => hsize l' (by simp [hl']))
    have hentry : (if grows isCo depth l = true then decide (l.red ≤ usable l.size) else decide (l.red ≤ l.remaining)) = true := by
      by_cases hg : grows isCo depth l = true
      · simp [hg, hl]
      · simp only [hg, Bool.false_eq_true, if_false, decide_eq_true_eq]
        simp only [grows, Bool.or_eq_true, decide_eq_true_eq, not_or, Nat.not_lt] at hg
        exact hg.2
    intro e he
    simp only [run] at he
    split at he
    · rcases List.mem_cons.mp he with rfl | he
      · exact hentry
      · exact hrest e he
    · split at he
      · rcases List.mem_cons.mp he with rfl | he
        · exact hentry
        · exact hrest e he
      · rcases List.mem_cons.mp he with rfl | he
        · exact hentry
        · exact hrest e he

/-- It returns the callback's value (when nothing panics). -/
theorem C23_value (isCo : Bool) (usable : Nat → Nat) (depth : Nat) (ls : List Level) :
    (run isCo usable depth ls false).2.2.2 = .value 7 := by
  induction ls generalizing depth with
  | nil => rfl
  | cons l rest ih => simp only [run, ih]

/-- Growth decisions after a caught panic are those of a fresh state: the next chain starts at the
same depth, so deep recursion keeps working. -/
theorem C23_recursion_after_panic (isCo : Bool) (usable : Nat → Nat) (ls ls' : List Level) (p : Bool) :
    run isCo usable (run isCo usable 0 ls true).2.2.1 ls' p = run isCo usable 0 ls' p := by
  rw [C23_restored]

/-- The pre-fix thread path leaves a (freed) segment registered after a caught panic. -/
theorem C23_old_thread_counterexample :
    (runOldThread (fun s => s) 0 [⟨65536, 262144, true, 0⟩, ⟨65536, 262144, false, 0⟩] true).1 = 2 := by decide

example : (run false (fun s => s) 0 [⟨65536, 262144, true, 0⟩, ⟨65536, 262144, false, 0⟩] true) =
    ([⟨0, true, 1, true⟩, ⟨1, true, 2, true⟩], [0], 0, .value 99) := by decide

end Oc.Props.C23
