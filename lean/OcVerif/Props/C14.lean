import OcVerif.Model.Timeouts
/-!
# C14 — hooked timed waits honour the requested timeout

Interval arithmetic over the waits each hooked call requests: when nothing becomes ready the
requested waits add up to the requested timeout (never less; `select` rounds up to the next
millisecond), invalid time arguments give EINVAL without waiting, and the event loop's slicing
returns only at or after the deadline and at most one slack per slice later.
All argument values of the C types are covered (`Nat`/`Int`, unbounded).
-/
namespace Oc.Props.C14
open Oc.Timeouts

/-- sleep / usleep / nanosleep request exactly the requested time, once. -/
theorem C14_sleep_family (secs us : Nat) (sec nsec : Int) (hv : 0 ≤ sec ∧ 0 ≤ nsec ∧ nsec ≤ 999999999) :
    (sleepCall secs).waits.sum = secs * 1000000000 ∧ (usleepCall us).waits.sum = us * 1000 ∧
    (nanosleepCall sec nsec).waits.sum = sec.toNat * 1000000000 + nsec.toNat ∧ (nanosleepCall sec nsec).ret = 0 := by
  have h : ¬ (sec < 0 ∨ nsec < 0 ∨ nsec > 999999999) := by omega
  simp [sleepCall, usleepCall, nanosleepCall, h]

/-- Invalid nanosleep arguments are rejected with EINVAL and nothing is waited for. -/
theorem C14_nanosleep_einval (sec nsec : Int) (hi : sec < 0 ∨ nsec < 0 ∨ nsec > 999999999) :
    nanosleepCall sec nsec = { ret := -1, errno := EINVAL } := by
  simp [nanosleepCall, hi]

theorem pollLoop_total (n t x : Nat) (acc : Res) (hx : 0 < x) (ht : t < n) (hfin : t < INTMAX) :
    (pollLoop n t x acc).waits.sum = acc.waits.sum + t * MS ∧ (pollLoop n t x acc).ret = 0 := by
  induction n generalizing t x acc with
  | zero => omega
  | succ n ih =>
    unfold pollLoop
    by_cases h0 : t = 0
    · simp [h0]
    · have hne : t ≠ INTMAX := by omega
      simp only [h0, if_false, hne, ne_eq, not_false_eq_true, if_true]
      have hx' : 0 < (if x < 16 then 2 * x else x) := by split <;> omega
      have hI : INTMAX = 2147483647 := rfl
      have := ih (if t > x then t - x else 0) (if x < 16 then 2 * x else x)
        { acc with probes := acc.probes + 1, waits := acc.waits ++ [min t x * MS] } hx'
        (by split <;> omega) (by split <;> omega)
      rw [this.1, this.2]
      refine ⟨?_, rfl⟩
      simp only [List.sum_append, List.sum_cons, List.sum_nil, Nat.add_zero]
      have hms : MS = 1000000 := rfl
      rw [hms]
      by_cases hgt : t > x
      · simp only [hgt, if_true]; rw [Nat.min_eq_right (by omega)]; omega
      · simp only [hgt, if_false]; rw [Nat.min_eq_left (by omega)]; omega

/-- poll: with nothing ready the waits add up to exactly the requested timeout, and it returns 0. -/
theorem C14_poll_total (t : Nat) (n : Nat) (hn : t < n) (hfin : t < INTMAX) :
    (pollCall (t : Int) n).waits.sum = t * MS ∧ (pollCall (t : Int) n).ret = 0 := by
  have h : ¬ ((t : Int) < 0) := by omega
  have := pollLoop_total n t 1 { ret := 0 } (by omega) hn hfin
  simp only [pollCall, h, if_false, Int.toNat_natCast]
  simpa using this

/-- select converts (sec, usec) to milliseconds rounding *up*: never below the request, less than
one millisecond above it. -/
theorem C14_select_units (sec usec : Nat) (hs : sec * 1000 + (usec + 999) / 1000 ≤ U64MAX) :
    selectMs (sec : Int) (usec : Int) = some (selectMsNat sec usec) ∧
    selectMsNat sec usec = sec * 1000 + (usec + 999) / 1000 ∧
    sec * 1000000000 + usec * 1000 ≤ selectMsNat sec usec * MS ∧
    selectMsNat sec usec * MS < sec * 1000000000 + usec * 1000 + MS := by
  have h : ¬ ((sec : Int) < 0 ∨ (usec : Int) < 0) := by omega
  have he : selectMsNat sec usec = sec * 1000 + (usec + 999) / 1000 := by
    unfold selectMsNat U64MAX at *; omega
  have hd : usec ≤ (usec + 999) / 1000 * 1000 ∧ (usec + 999) / 1000 * 1000 < usec + 1000 := by omega
  generalize (usec + 999) / 1000 = d at he hd
  clear hs
  refine ⟨by simp only [selectMs, h, if_false, Int.toNat_natCast], he, ?_, ?_⟩
  · have hms : MS = 1000000 := rfl
    rw [he, hms]; omega
  · have hms : MS = 1000000 := rfl
    rw [he, hms]; omega

/-- Negative timeval fields are rejected with EINVAL, nothing is waited for. -/
theorem C14_select_einval (sec usec : Int) (n : Nat) (hi : sec < 0 ∨ usec < 0) :
    selectCall (some (sec, usec)) n = { ret := -1, errno := EINVAL } := by
  simp [selectCall, selectMs, hi]

theorem selectLoop_total (n t x : Nat) (acc : Res) (hx : 0 < x) (ht : t < n) (hfin : t < U64MAX) :
    (selectLoop n t x acc).waits.sum = acc.waits.sum + t * MS ∧ (selectLoop n t x acc).ret = 0 := by
  induction n generalizing t x acc with
  | zero => omega
  | succ n ih =>
    unfold selectLoop
    by_cases h0 : t = 0
    · simp [h0]
    · have hne : t ≠ U64MAX := by omega
      simp only [h0, if_false, hne, ne_eq, not_false_eq_true, if_true]
      have hx' : 0 < (if x < 16 then 2 * x else x) := by split <;> omega
      have := ih (t - x) (if x < 16 then 2 * x else x)
        { acc with probes := acc.probes + 1, waits := acc.waits ++ [min t x * MS] } hx' (by omega) (by omega)
      rw [this.1, this.2]
      refine ⟨?_, rfl⟩
      simp only [List.sum_append, List.sum_cons, List.sum_nil, Nat.add_zero]
      have hms : MS = 1000000 := rfl
      rw [hms]
      by_cases hgt : t > x
      · rw [Nat.min_eq_right (by omega)]; omega
      · rw [Nat.min_eq_left (by omega)]; omega

/-- select: with nothing ready the waits add up to the (rounded-up) timeout: at least the request. -/
theorem C14_select_total (sec usec : Nat) (n : Nat) (hs : sec * 1000 + (usec + 999) / 1000 < U64MAX)
    (hn : sec * 1000 + (usec + 999) / 1000 < n) :
    (selectCall (some ((sec : Int), (usec : Int))) n).ret = 0 ∧
    sec * 1000000000 + usec * 1000 ≤ (selectCall (some ((sec : Int), (usec : Int))) n).waits.sum ∧
    (selectCall (some ((sec : Int), (usec : Int))) n).waits.sum < sec * 1000000000 + usec * 1000 + MS := by
  obtain ⟨ht, hte, h1, h2⟩ := C14_select_units sec usec (by omega)
  have := selectLoop_total n (selectMsNat sec usec) 1 { ret := 0 } (by omega) (by omega) (by omega)
  simp only [selectCall, ht]
  simp only [List.sum_nil, Nat.zero_add] at this
  rw [this.1, this.2]
  exact ⟨rfl, h1, h2⟩

theorem condLoop_never (n now abst : Nat) (acc : Res) (hn : abst - now < n) (hb : abst ≤ U64MAX) :
    (condLoop n now abst acc).1.ret = ETIMEDOUT ∧
    (abst ≤ now → (condLoop n now abst acc).2 = now) ∧ (now ≤ abst → (condLoop n now abst acc).2 = abst) ∧
    (condLoop n now abst acc).1.waits.sum = acc.waits.sum + (abst - now) := by
  induction n generalizing now acc with
  | zero => omega
  | succ n ih =>
    unfold condLoop
    by_cases h0 : abst - now = 0
    · simp only [h0, if_true]
      exact ⟨trivial, fun _ => trivial, fun h => by omega, by omega⟩
    · simp only [h0, if_false]
      have hs : 0 < slice10 (abst - now) ∧ slice10 (abst - now) ≤ abst - now := by
        unfold slice10; split <;> omega
      have hmin : min U64MAX (now + slice10 (abst - now)) = now + slice10 (abst - now) := by
        apply Nat.min_eq_right; unfold U64MAX at *; omega
      rw [hmin]
      have := ih (now + slice10 (abst - now))
        { acc with probes := acc.probes + 1, inner := acc.inner ++ [slice10 (abst - now)],
                   waits := acc.waits ++ [slice10 (abst - now)] } (by omega)
      refine ⟨this.1, fun h => by omega, fun _ => this.2.2.1 (by omega), ?_⟩
      rw [this.2.2.2]
      simp only [List.sum_append, List.sum_cons, List.sum_nil]; omega

/-- pthread_cond_timedwait without a signal returns ETIMEDOUT only once the absolute deadline has
been reached, having requested waits that add up to exactly the time that was left. -/
theorem C14_cond_not_early (sec nsec : Nat) (hns : nsec ≤ 999999999) (now n : Nat)
    (hb : sec * 1000000000 + nsec ≤ U64MAX) (hn : sec * 1000000000 + nsec - now < n) :
    (condCall (some ((sec : Int), (nsec : Int))) now n).1.ret = ETIMEDOUT ∧
    (now ≤ sec * 1000000000 + nsec → (condCall (some ((sec : Int), (nsec : Int))) now n).2 = sec * 1000000000 + nsec) ∧
    (condCall (some ((sec : Int), (nsec : Int))) now n).1.waits.sum = sec * 1000000000 + nsec - now := by
  have h : ¬ ((sec : Int) < 0 ∨ (nsec : Int) < 0 ∨ (nsec : Int) > 999999999) := by omega
  have hm : min U64MAX (sec * 1000000000 + nsec) = sec * 1000000000 + nsec := Nat.min_eq_right hb
  have := condLoop_never n now (sec * 1000000000 + nsec) { ret := 0 } hn hb
  simp only [condCall, h, if_false, Int.toNat_natCast, hm]
  exact ⟨this.1, this.2.2.1, by simpa using this.2.2.2⟩

/-- An invalid absolute time is rejected with EINVAL (as return value) without waiting. -/
theorem C14_cond_einval (sec nsec : Int) (now n : Nat) (hi : sec < 0 ∨ nsec < 0 ∨ nsec > 999999999) :
    condCall (some (sec, nsec)) now n = ({ ret := EINVAL }, now) := by
  simp [condCall, hi]

/-- The event loop's sliced wait never returns before the deadline, and returns at most the
accumulated scheduling slack of its slices after it. -/
theorem C14_sliced_wait_bounds (now deadline : Nat) (slack : List Nat) :
    deadline ≤ timedWaitJust now deadline slack ∧ now ≤ timedWaitJust now deadline slack ∧
    timedWaitJust now deadline slack ≤ max now deadline + slack.sum := by
  fun_induction timedWaitJust now deadline slack with
  | case1 now slack h => exact ⟨h, Nat.le_refl _, by omega⟩
  | case2 now slack h ih =>
    obtain ⟨i1, i2, i3⟩ := ih
    refine ⟨i1, by omega, ?_⟩
    have hsum : slack.headD 0 + slack.tail.sum = slack.sum := by
      cases slack <;> simp
    omega

/-- …and the number of slices is bounded: with slack at most `e` per slice the total overshoot
is at most `(T / 10ms + 1) · e` — the slices of a wait of length `T`. -/
theorem C14_sliced_wait_slack (slack : List Nat) (e : Nat) (h : ∀ s ∈ slack, s ≤ e) :
    slack.sum ≤ slack.length * e := by
  induction slack with
  | nil => simp
  | cons a r ih =>
    have := ih (fun s hs => h s (by simp [hs]))
    have ha := h a (by simp)
    simp only [List.sum_cons, List.length_cons, Nat.add_mul, Nat.one_mul]; omega

-- non-vacuity / examples
example : (pollCall 17 100).waits = [1000000, 2000000, 4000000, 8000000, 2000000] := by decide
example : selectMs 0 3000 = some 3 := by decide
example : selectMs 0 500 = some 1 := by decide
example : (condCall (some (0, 25000000)) 0 5).1.waits = [10000000, 10000000, 5000000] := by decide

end Oc.Props.C14
