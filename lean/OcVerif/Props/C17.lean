import OcVerif.Proofs.Nio
/-!
# C17 — hooked vectored I/O only hands the kernel the caller's unfilled buffers
-/
namespace Oc.Props.C17
open Oc.Nio Oc.Spec.Nio

theorem positions_rangesFrom (off : Nat) (shape : Shape) :
    positions ((rangesFrom off shape).map (fun p => (some p.1, p.2))) = some ((List.range shape.total).map (· + off)) := by
  induction shape generalizing off with
  | nil => simp [rangesFrom, positions, Shape.total]
  | cons l r ih =>
    simp only [rangesFrom, List.map_cons, positions, ih (off + l), Option.map_some, Shape.total, List.sum_cons]
    congr 1
    rw [List.range_add, List.map_append, List.map_map]
    congr 1
    apply List.map_congr_left
    intro a _; simp; omega

theorem rangesFrom_length (off : Nat) (shape : Shape) : (rangesFrom off shape).length = shape.length := by
  induction shape generalizing off with
  | nil => rfl
  | cons l r ih => simp [rangesFrom, ih]

theorem movedBefore_lead (k : Kind) (shape : Shape) (calls : List CResp) (idx acc : Nat) (h : idx ≤ lead calls) :
    movedBefore k shape calls idx acc = acc := by
  induction calls generalizing idx with
  | nil => cases idx <;> rfl
  | cons c rest ih =>
    cases idx with
    | zero => rfl
    | succ j =>
      cases c with
      | moved n => simp [lead, isMoved] at h
      | again => simp [lead, isMoved] at h; simp [movedBefore, ih j h]
      | intr => simp [lead, isMoved] at h; simp [movedBefore, ih j h]
      | err e => simp [lead, isMoved] at h; simp [movedBefore, ih j h]

/-- Every request of a vectored call is the caller's whole array (all of it still unfilled: no
byte has been moved before any request that is issued), and its count matches. -/
theorem C17_requests_are_unfilled (k : Kind) (hk : k.isVec = true) (shape : Shape) (blocking : Bool)
    (limit start : Nat) (calls : List CResp) (waits : List WResp) :
    ∃ j, j ≤ lead calls + 1 ∧
      (call k shape blocking limit start calls waits).reqs = List.replicate j (fullReq shape) := by
  obtain ⟨j, hj, he⟩ := loop_reqs_vec k hk shape blocking start limit calls { now := start, left := limit, waits := waits }
  exact ⟨j, hj, by simpa [call, final] using he⟩

/-- The executable C17 specification holds of the model for every script and shape. -/
theorem C17_spec_holds (k : Kind) (shape : Shape) (blocking : Bool) (limit start : Nat)
    (calls : List CResp) (waits : List WResp) :
    c17 (ofModel k shape blocking calls (call k shape blocking limit start calls waits)) = [] := by
  unfold c17
  by_cases hk : k.isVec = true
  · obtain ⟨j, hj, he⟩ := C17_requests_are_unfilled k hk shape blocking limit start calls waits
    simp only [ofModel, hk, Bool.not_true, Bool.false_eq_true, if_false, he, List.map_replicate]
    rw [List.flatMap_eq_nil_iff]
    intro x hx
    obtain ⟨rq, idx⟩ := x
    have hmem := List.mem_zipIdx hx
    simp only [Nat.zero_add, Nat.sub_zero, List.length_replicate] at hmem
    obtain ⟨_, hidx, hrq⟩ := hmem
    simp only [List.getElem_replicate] at hrq
    subst hrq
    have hm := movedBefore_lead k shape calls idx 0 (by omega)
    simp only [hm, fullReq, positions_rangesFrom, Nat.sub_zero, List.length_map]
    simp [rangesFrom_length]
  · simp [ofModel, hk]

example : (call .writeVec [3, 0, 5] true U64MAX 0 [.again, .moved 4] [.full]).reqs =
    [⟨[(0, 3), (3, 0), (3, 5)], 3⟩, ⟨[(0, 3), (3, 0), (3, 5)], 3⟩] := by decide

end Oc.Props.C17
