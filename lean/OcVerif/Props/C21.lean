import OcVerif.Model.Selector
/-!
# C21 — OS readiness interest matches outstanding waits

Invariant `Cons`: for every descriptor the kernel's epoll entry exists exactly when the runtime
records a read or write interest for it, with exactly those interests. It holds initially and is
preserved by every interest operation and by close — so after any history the OS interest is the
union of the outstanding interests, every `epoll_ctl` the runtime issues succeeds, and a closed
descriptor number starts again with no registration. One poller (see DESIGN.md for several).
-/
namespace Oc.Props.C21
open Oc.Sel

theorem aget_aset {α : Type} (l : List (Nat × α)) (k k' : Nat) (v : α) :
    aget (aset l k v) k' = if k' = k then some v else aget l k' := by
  unfold aget aset adel
  by_cases h : k' = k
  · subst h; simp
  · have : (k == k') = false := by simp [Ne.symm h]
    simp only [List.find?_cons, this, h, if_false]
    congr 1
    induction l with
    | nil => rfl
    | cons e r ih =>
      simp only [List.filter_cons]
      by_cases he : e.1 = k
      · have h1 : (e.1 != k) = false := by simp [he]
        have h2 : (e.1 == k') = false := by simp [he, Ne.symm h]
        simp only [h1, Bool.false_eq_true, if_false, List.find?_cons, h2]; exact ih
      · have h1 : (e.1 != k) = true := by simp [he]
        simp only [h1, if_true, List.find?_cons]
        split
        · rfl
        · exact ih

theorem aget_adel {α : Type} (l : List (Nat × α)) (k k' : Nat) :
    aget (adel l k) k' = if k' = k then none else aget l k' := by
  unfold aget adel
  by_cases h : k' = k
  · subst h
    simp only [if_true, Option.map_eq_none_iff, List.find?_eq_none, List.mem_filter, and_imp]
    intro e _ hne; simpa using hne
  · simp only [h, if_false]
    congr 1
    induction l with
    | nil => rfl
    | cons e r ih =>
      simp only [List.filter_cons]
      by_cases he : e.1 = k
      · have h1 : (e.1 != k) = false := by simp [he]
        have h2 : (e.1 == k') = false := by simp [he, Ne.symm h]
        simp only [h1, Bool.false_eq_true, if_false, List.find?_cons, h2]; exact ih
      · have h1 : (e.1 != k) = true := by simp [he]
        simp only [h1, if_true, List.find?_cons]
        split
        · rfl
        · exact ih

theorem has_cons (l : List Nat) (y x : Nat) : has (y :: l) x = (decide (x = y) || has l x) := by
  simp only [has]; by_cases h : x = y <;> simp [h]

theorem contains_filter_ne (l : List Nat) (fd fd' : Nat) :
    has (l.filter (· != fd)) fd' = (has l fd' && (fd' != fd)) := by
  induction l with
  | nil => simp [has]
  | cons x r ih =>
    simp only [List.filter_cons]
    by_cases hx : x = fd
    · subst hx
      simp only [bne_self_eq_false, Bool.false_eq_true, if_false, ih, has]
      by_cases h : fd' = x <;> simp [h]
    · have : (x != fd) = true := by simp [hx]
      simp only [this, if_true, has, ih]
      by_cases h : fd' = x
      · subst h; simp [hx]
      · simp [h]

/-- the interest the runtime records for a descriptor -/
def recorded (s : St) (fd : Fd) : Option (Bool × Bool) :=
  if has s.R fd || has s.W fd then some (has s.R fd, has s.W fd) else none

/-- kernel entry = recorded interest, for every descriptor -/
def Cons (s : St) : Prop := ∀ fd, (aget s.K fd).map (fun e => (e.r, e.w)) = recorded s fd

theorem cons_init : Cons {} := by intro fd; simp [aget, recorded, has]

/-- local form used by the per-operation lemmas -/
theorem cons_present {s : St} (h : Cons s) (fd : Fd) (hin : (has s.R fd || has s.W fd) = true) :
    ∃ e, aget s.K fd = some e ∧ e.r = has s.R fd ∧ e.w = has s.W fd := by
  have := h fd
  simp only [recorded, hin, if_true] at this
  cases hk : aget s.K fd with
  | none => rw [hk] at this; simp at this
  | some e => rw [hk] at this; simp at this; exact ⟨e, rfl, this.1, this.2⟩

theorem cons_absent {s : St} (h : Cons s) (fd : Fd) (hin : (has s.R fd || has s.W fd) = false) :
    aget s.K fd = none := by
  have := h fd
  simp only [recorded, hin, Bool.false_eq_true, if_false, Option.map_eq_none_iff] at this
  exact this

theorem C21_addRead (s : St) (fd : Fd) (tok : Tok) (h : Cons s) :
    Cons (addRead s fd tok).1 ∧ (addRead s fd tok).2 = true := by
  unfold addRead
  by_cases hR : has s.R fd = true
  · simp only [hR, if_true]
    by_cases hrt : aget s.RT fd = some tok
    · simp only [hrt, if_true]; exact ⟨h, trivial⟩
    · simp only [hrt, if_false]
      obtain ⟨e, hk, her, hew⟩ := cons_present h fd (by simp [hR])
      simp only [reregister, hk]
      refine ⟨?_, by first | rfl | trivial⟩
      intro fd'
      have := h fd'
      simp only [recorded] at this ⊢
      simp only [aget_aset]
      by_cases hf : fd' = fd
      · subst hf; simp [hR]
      · simp only [hf, if_false]; exact this
  · have hRf : has s.R fd = false := by simpa using hR
    simp only [hRf, Bool.false_eq_true, if_false]
    by_cases hW : has s.W fd = true
    · obtain ⟨e, hk, her, hew⟩ := cons_present h fd (by simp [hW])
      simp only [hW, if_true, reregister, hk, Option.orElse_some]
      refine ⟨?_, by first | rfl | trivial⟩
      intro fd'
      have := h fd'
      simp only [recorded, has_cons] at this ⊢
      simp only [aget_aset]
      by_cases hf : fd' = fd
      · subst hf; simp [hW]
      · simp only [hf, if_false, decide_false, Bool.false_or]; exact this
    · have hWf : has s.W fd = false := by simpa using hW
      have hk := cons_absent h fd (by simp [hRf, hWf])
      simp only [hWf, Bool.false_eq_true, if_false, register, hk]
      refine ⟨?_, by first | rfl | trivial⟩
      intro fd'
      have := h fd'
      simp only [recorded, has_cons] at this ⊢
      simp only [aget_aset]
      by_cases hf : fd' = fd
      · subst hf; simp [hWf]
      · simp only [hf, if_false, decide_false, Bool.false_or]; exact this

theorem C21_addWrite (s : St) (fd : Fd) (tok : Tok) (h : Cons s) :
    Cons (addWrite s fd tok).1 ∧ (addWrite s fd tok).2 = true := by
  unfold addWrite
  by_cases hW : has s.W fd = true
  · simp only [hW, if_true]
    by_cases hwt : aget s.WT fd = some tok
    · simp only [hwt, if_true]; exact ⟨h, trivial⟩
    · simp only [hwt, if_false]
      obtain ⟨e, hk, her, hew⟩ := cons_present h fd (by simp [hW])
      simp only [reregister, hk]
      refine ⟨?_, by first | rfl | trivial⟩
      intro fd'
      have := h fd'
      simp only [recorded] at this ⊢
      simp only [aget_aset]
      by_cases hf : fd' = fd
      · subst hf; simp [hW]
      · simp only [hf, if_false]; exact this
  · have hWf : has s.W fd = false := by simpa using hW
    simp only [hWf, Bool.false_eq_true, if_false]
    by_cases hR : has s.R fd = true
    · obtain ⟨e, hk, her, hew⟩ := cons_present h fd (by simp [hR])
      simp only [hR, if_true, reregister, hk, Option.orElse_some]
      refine ⟨?_, by first | rfl | trivial⟩
      intro fd'
      have := h fd'
      simp only [recorded, has_cons] at this ⊢
      simp only [aget_aset]
      by_cases hf : fd' = fd
      · subst hf; simp [hR]
      · simp only [hf, if_false, decide_false, Bool.false_or]; exact this
    · have hRf : has s.R fd = false := by simpa using hR
      have hk := cons_absent h fd (by simp [hRf, hWf])
      simp only [hRf, Bool.false_eq_true, if_false, register, hk]
      refine ⟨?_, by first | rfl | trivial⟩
      intro fd'
      have := h fd'
      simp only [recorded, has_cons] at this ⊢
      simp only [aget_aset]
      by_cases hf : fd' = fd
      · subst hf; simp [hRf]
      · simp only [hf, if_false, decide_false, Bool.false_or]; exact this

theorem C21_delEvent (s : St) (fd : Fd) (h : Cons s) :
    Cons (delEvent s fd).1 ∧ (delEvent s fd).2 = true ∧ recorded (delEvent s fd).1 fd = none := by
  unfold delEvent
  by_cases hin : (has s.R fd || has s.W fd) = true
  · obtain ⟨e, hk, _, _⟩ := cons_present h fd hin
    simp only [hin, if_true, deregister, hk]
    refine ⟨?_, by first | rfl | trivial, ?_⟩
    · intro fd'
      have := h fd'
      simp only [recorded, contains_filter_ne, aget_adel] at this ⊢
      by_cases hf : fd' = fd
      · subst hf; simp
      · have hne : (fd' != fd) = true := by simp [hf]
        simp only [hf, if_false, hne, Bool.and_true]; exact this
    · simp [recorded, contains_filter_ne]
  · have hf : (has s.R fd || has s.W fd) = false := by simpa using hin
    simp only [hf, Bool.false_eq_true, if_false]
    exact ⟨h, by first | rfl | trivial, by simp [recorded, hf]⟩

/-- After close the descriptor has no recorded interest and no kernel entry, so a reused number
starts with no stale registration; everything else is untouched. -/
theorem C21_close_clean (s : St) (fd : Fd) (h : Cons s) :
    Cons (closeFd s fd).1 ∧ recorded (closeFd s fd).1 fd = none ∧ aget (closeFd s fd).1.K fd = none := by
  obtain ⟨hc, _, hr⟩ := C21_delEvent s fd h
  unfold closeFd
  refine ⟨?_, hr, by simp [aget_adel]⟩
  intro fd'
  have := hc fd'
  simp only [aget_adel]
  by_cases hf : fd' = fd
  · subst hf
    simp only [if_true, Option.map_none]
    exact hr.symm
  · simp only [hf, if_false]; exact this

theorem C21_delRead (s : St) (fd : Fd) (h : Cons s) : Cons (delRead s fd).1 ∧ (delRead s fd).2 = true := by
  unfold delRead
  by_cases hR : has s.R fd = true
  · simp only [hR, if_true]
    by_cases hW : has s.W fd = true
    · obtain ⟨e, hk, _, _⟩ := cons_present h fd (by simp [hR])
      simp only [hW, if_true, reregister, hk]
      refine ⟨?_, by first | rfl | trivial⟩
      intro fd'
      have := h fd'
      simp only [recorded, contains_filter_ne, aget_aset] at this ⊢
      by_cases hf : fd' = fd
      · subst hf; simp [hW]
      · have hne : (fd' != fd) = true := by simp [hf]
        simp only [hf, if_false, hne, Bool.and_true]; exact this
    · have hWf : has s.W fd = false := by simpa using hW
      simp only [hWf, Bool.false_eq_true, if_false]
      exact ⟨(C21_delEvent s fd h).1, (C21_delEvent s fd h).2.1⟩
  · have hRf : has s.R fd = false := by simpa using hR
    simp only [hRf, Bool.false_eq_true, if_false]; exact ⟨h, by first | rfl | trivial⟩

theorem C21_delWrite (s : St) (fd : Fd) (h : Cons s) : Cons (delWrite s fd).1 ∧ (delWrite s fd).2 = true := by
  unfold delWrite
  by_cases hW : has s.W fd = true
  · simp only [hW, if_true]
    by_cases hR : has s.R fd = true
    · obtain ⟨e, hk, _, _⟩ := cons_present h fd (by simp [hR])
      simp only [hR, if_true, reregister, hk]
      refine ⟨?_, by first | rfl | trivial⟩
      intro fd'
      have := h fd'
      simp only [recorded, contains_filter_ne, aget_aset] at this ⊢
      by_cases hf : fd' = fd
      · subst hf; simp [hR]
      · have hne : (fd' != fd) = true := by simp [hf]
        simp only [hf, if_false, hne, Bool.and_true]; exact this
    · have hRf : has s.R fd = false := by simpa using hR
      simp only [hRf, Bool.false_eq_true, if_false]
      exact ⟨(C21_delEvent s fd h).1, (C21_delEvent s fd h).2.1⟩
  · have hWf : has s.W fd = false := by simpa using hW
    simp only [hWf, Bool.false_eq_true, if_false]; exact ⟨h, by first | rfl | trivial⟩

theorem evStep_frame (armed : List Fd) (fd : Fd) (acc : St × List Tok) (f : Fd) :
    (evStep armed fd acc f).1.K = acc.1.K ∧ (evStep armed fd acc f).1.R = acc.1.R ∧ (evStep armed fd acc f).1.W = acc.1.W := by
  unfold evStep
  split
  · exact ⟨rfl, rfl, rfl⟩
  · split
    · exact ⟨rfl, rfl, rfl⟩
    · exact ⟨rfl, rfl, rfl⟩

theorem evFold_frame (armed : List Fd) (fd : Fd) (fds : List Fd) (acc : St × List Tok) :
    (fds.foldl (evStep armed fd) acc).1.K = acc.1.K ∧ (fds.foldl (evStep armed fd) acc).1.R = acc.1.R ∧
    (fds.foldl (evStep armed fd) acc).1.W = acc.1.W := by
  induction fds generalizing acc with
  | nil => exact ⟨rfl, rfl, rfl⟩
  | cons f rest ih =>
    have h1 := evStep_frame armed fd acc f
    have h2 := ih (evStep armed fd acc f)
    simp only [List.foldl_cons]
    exact ⟨h2.1.trans h1.1, h2.2.1.trans h1.2.1, h2.2.2.trans h1.2.2⟩

/-- delivering events changes neither the recorded interests nor the kernel table -/
theorem C21_event_frame (s : St) (fd : Fd) (h : Cons s) : Cons (readyRead s fd).1 := by
  intro fd'
  have hh := evFold_frame s.armed fd (pollOrder s fd) (s, [])
  have hK : (readyRead s fd).1.K = s.K := hh.1
  have hR : (readyRead s fd).1.R = s.R := hh.2.1
  have hW : (readyRead s fd).1.W = s.W := hh.2.2
  have := h fd'
  simp only [recorded, hK, hR, hW] at this ⊢
  exact this

/-- Whole histories: after any sequence of interest operations, events and closes the OS interest of
every descriptor is exactly the union of its outstanding interests, and every operation succeeded. -/
theorem C21_history (ops : List Op) (s : St) (h : Cons s) :
    Cons (ops.foldl (fun s o => (step s o).1) s) := by
  induction ops generalizing s with
  | nil => exact h
  | cons o os ih =>
    apply ih
    cases o with
    | addRead fd t => exact (C21_addRead s fd t h).1
    | addWrite fd t => exact (C21_addWrite s fd t h).1
    | delRead fd => exact (C21_delRead s fd h).1
    | delWrite fd => exact (C21_delWrite s fd h).1
    | del fd => exact (C21_delEvent s fd h).1
    | close fd => exact (C21_close_clean s fd h).1
    | ev fd => exact C21_event_frame s fd h

example : recorded (addWrite (addRead {} 3 9).1 3 9).1 3 = some (true, true) := by decide
example : (aget (delRead (addWrite (addRead {} 3 9).1 3 9).1 3).1.K 3).map (fun e => (e.r, e.w)) = some (false, true) := by decide

end Oc.Props.C21
