import OcVerif.Proofs.Coroutine
/-!
# C07 — coroutine lifecycle follows the documented state machine

For every coroutine body (any list of steps), every resume sequence, every clock reading and every
content of the thread's request stacks.
-/
namespace Oc.Props.C07
open Oc.Co Oc.Spec.C07

/-- Each guarded transition either refuses (state and log untouched) or reports exactly one change,
from the current state along an edge of the documented graph. -/
theorem C07_transitions_legal (c c' : Co) (now y ts r : Nat) (n m : String) (s : SysSt) :
    (c.toRunning now = some c' → c' = c ∨ (c'.events = c.events ++ [⟨c.state, c'.state, "running"⟩] ∧ legal c.state c'.state = true)) ∧
    (c.toSyscall n s = some c' → c'.events = c.events ++ [⟨c.state, c'.state, "syscall"⟩] ∧ legal c.state c'.state = true) ∧
    (c.toSuspend y ts = some c' → c'.events = c.events ++ [⟨c.state, .suspend y ts, "suspend"⟩] ∧ c.state = .running) ∧
    (c.toCancelled = some c' → c'.events = c.events ++ [⟨c.state, .cancelled, "cancel"⟩] ∧ c.state = .running) ∧
    (c.toComplete r = some c' → c'.state = .complete r ∧ c.state = .running) ∧
    (c.toError m = some c' → c'.state = .error m ∧ c.state = .running) := by
  refine ⟨?_, ?_, ?_, ?_, ?_, ?_⟩
  · intro h
    unfold Co.toRunning at h
    split at h <;> try (simp only [Option.some.injEq] at h; subst h)
    · exact Or.inl rfl
    · rename_i hs; right; simp [Co.change, hs, legal]
    · rename_i hs; right; simp [Co.change, hs, legal]
    · rename_i hs
      split at h
      · simp only [Option.some.injEq] at h; subst h; right; simp [Co.change, hs, legal]
      · simp at h
    · exact Or.inl rfl
    · exact Or.inl rfl
    · simp at h
  · intro h
    unfold Co.toSyscall at h
    split at h
    · rename_i hs; simp only [Option.some.injEq] at h; subst h; simp [Co.change, hs, legal]
    · rename_i hs
      split at h
      · rename_i heq; simp only [Option.some.injEq] at h; subst h; simp [Co.change, hs, legal, heq]
      · simp at h
    · simp at h
  · intro h; unfold Co.toSuspend at h; split at h
    · rename_i hs; simp only [Option.some.injEq] at h; subst h; simp [Co.change, hs]
    · simp at h
  · intro h; unfold Co.toCancelled at h; split at h
    · rename_i hs; simp only [Option.some.injEq] at h; subst h; simp [Co.change, hs]
    · simp at h
  · intro h; unfold Co.toComplete at h; split at h
    · rename_i hs; simp only [Option.some.injEq] at h; subst h; simp [Co.change, hs]
    · simp at h
  · intro h; unfold Co.toError at h; split at h
    · rename_i hs; simp only [Option.some.injEq] at h; subst h; simp [Co.change, hs]
    · simp at h

/-- The states reported to listeners form a path in the documented graph from `Ready` to the
current state: each change reported exactly once with the correct old and new state. Holds for a
fresh coroutine and is preserved by every resume — hence for every body and resume sequence. -/
theorem C07_reported_path (th : Th) (c : Co) (p : Nat) (h : Wf c) : Wf (resume th c p).2.1 := resume_wf th c p h

theorem C07_fresh_wf (prog : List Step) : Wf { prog := prog } := rfl

/-- Whole resume sequences, several coroutines interleaved on one thread. -/
theorem C07_path_all_resumes (th : Th) (c : Co) (ps : List (Nat × Nat)) (h : Wf c) :
    Wf (ps.foldl (fun (acc : Th × Co) (pa : Nat × Nat) =>
      ((resume { acc.1 with now := acc.1.now + pa.2 } acc.2 pa.1).1, (resume { acc.1 with now := acc.1.now + pa.2 } acc.2 pa.1).2.1)) (th, c)).2 := by
  induction ps generalizing th c with
  | nil => exact h
  | cons pa rest ih => exact ih _ _ (resume_wf _ _ _ h)

/-- A finished coroutine never leaves its terminal state, reports nothing more and runs no user
code again (no parameter is delivered, no step executed), whatever is resumed afterwards. -/
theorem C07_terminal_absorbing (th : Th) (c : Co) (p : Nat) (h : isTerminal c.state = true) :
    (resume th c p).2.1 = c ∧ (resume th c p).1 = th := by
  unfold resume
  cases hs : c.state with
  | complete r => simp
  | error m => simp
  | cancelled => simp [Co.toRunning, hs]
  | ready => simp [hs, isTerminal] at h
  | running => simp [hs, isTerminal] at h
  | suspend y t => simp [hs, isTerminal] at h
  | syscall y n s => simp [hs, isTerminal] at h

-- non-vacuity: a body that suspends, enters a syscall, leaves it and returns
example : Wf (resume { now := 0 } (resume { now := 0 } { prog := [.susp 1, .enter, .exit, .ret 5] } 10).2.1 11).2.1 := by unfold Wf; decide
example : (resume { now := 0 } (resume { now := 0 } { prog := [.susp 1, .enter, .exit, .ret 5] } 10).2.1 11).2.2 = .state (.complete 5) := by decide

end Oc.Props.C07
