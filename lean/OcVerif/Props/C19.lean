import OcVerif.Model.TimeLimitCache
/-!
# C19 — socket timeout options are tracked per live socket without crashing

Refinement to the kernel's own option value: after any history of socket creation (any descriptor
number the OS may hand out, including reused ones), setsockopt, hooked I/O and close, the limit a
hooked call applies is the kernel's current value. The model has no abort path: the two
`assert!(…insert(..).is_none())` of the pre-fix code are gone (they are the `ABORT` outcome the
correspondence run watches for).
-/
namespace Oc.Props.C19
open Oc.TLCache

/-- every cached limit is the kernel's current value for a socket that is still open -/
def Inv (s : St) : Prop := ∀ k v, s.cache k = some v → s.kernel k = some v

theorem inv_init : Inv {} := by intro k v h; simp at h

theorem inv_step (s : St) (o : Op) (hi : Inv s) (hw : o.wf s) : Inv (step s o).1 := by
  intro k v hc
  cases o with
  | openFd fd =>
    obtain ⟨h1, h2⟩ := hw
    simp only [step, upd] at hc ⊢
    have := hi k v hc
    split
    · rename_i hk; rw [hk, h2] at this; simp at this
    · split
      · rename_i hk; rw [hk, h1] at this; simp at this
      · exact this
  | setOpt fd w ok kval =>
    cases ok with
    | false => simpa [step] using hi k v (by simpa [step] using hc)
    | true =>
      simp only [step, if_true, upd] at hc ⊢
      by_cases hk : k = (fd, w)
      · simp [hk] at hc
      · simp only [hk, if_false] at hc ⊢; exact hi k v hc
  | io fd w =>
    cases hcv : s.cache (fd, w) with
    | some v' =>
      simp only [step, hcv] at hc ⊢; exact hi k v hc
    | none =>
      cases hkv : s.kernel (fd, w) with
      | none => simp only [step, hcv, hkv] at hc ⊢; exact hi k v hc
      | some v' =>
        simp only [step, hcv, hkv, upd] at hc ⊢
        by_cases hk : k = (fd, w)
        · simp only [hk, if_true, Option.some.injEq] at hc; rw [hk, ← hc]; exact hkv
        · simp only [hk, if_false] at hc; exact hi k v hc
  | close fd =>
    simp only [step, upd] at hc ⊢
    split at hc
    · simp at hc
    · split at hc
      · simp at hc
      · rename_i h1 h2; simp only [h1, h2, if_false]; exact hi k v hc

/-- The limit a hooked call applies equals the socket's current option value. -/
theorem C19_limit_is_current (s : St) (hi : Inv s) (fd : Nat) (w : Bool) (v : Nat)
    (h : (step s (.io fd w)).2 = some v) : s.kernel (fd, w) = some v := by
  simp only [step] at h
  split at h
  · rename_i v' hc; simp only [Option.some.injEq] at h; subst h; exact hi _ _ hc
  · split at h
    · rename_i v' hk; simp only [Option.some.injEq] at h; subst h; exact hk
    · simp at h

/-- …and a live socket always gets an answer. -/
theorem C19_live_socket_answered (s : St) (hi : Inv s) (fd : Nat) (w : Bool) (v : Nat)
    (hk : s.kernel (fd, w) = some v) : (step s (.io fd w)).2 = some v := by
  simp only [step]
  cases hc : s.cache (fd, w) with
  | some v' => have := hi _ _ hc; rw [hk] at this; simp only [Option.some.injEq] at this; simp [this]
  | none => simp [hk]

/-- Whole histories: every hooked I/O of every well-formed history (any descriptor numbers, reuse
after close included, any number of setsockopt calls before or after I/O) sees the kernel's value. -/
theorem C19_history (s : St) (hi : Inv s) (ops : List Op) (hw : WF s ops) :
    ∀ p ∈ run s ops, p.1 = p.2 := by
  induction ops generalizing s with
  | nil => intro p hp; simp [run] at hp
  | cons o os ih =>
    obtain ⟨hw1, hw2⟩ := hw
    have hi' := inv_step s o hi hw1
    intro p hp
    cases o with
    | io fd w =>
      simp only [run] at hp
      rcases List.mem_cons.mp hp with rfl | hp
      · simp only
        cases hk : s.kernel (fd, w) with
        | some v => exact C19_live_socket_answered s hi fd w v hk
        | none =>
          cases hr : (step s (.io fd w)).2 with
          | none => rfl
          | some v => have := C19_limit_is_current s hi fd w v hr; rw [hk] at this; simp at this
      · exact ih _ hi' hw2 p hp
    | openFd fd => simp only [run] at hp; exact ih _ hi' hw2 p hp
    | setOpt fd w ok kval => simp only [run] at hp; exact ih _ hi' hw2 p hp
    | close fd => simp only [run] at hp; exact ih _ hi' hw2 p hp

/-- The pre-fix behaviour (close did not evict) is excluded: after close and reuse of the number
the fresh socket's value (unlimited) is applied, not the old socket's. -/
theorem C19_reuse_witness :
    run {} [.openFd 3, .setOpt 3 true true 1000000000, .io 3 true, .close 3, .openFd 3, .io 3 true]
      = [(some 1000000000, some 1000000000), (some U64MAX, some U64MAX)] := by decide

/-- Setting the option repeatedly, before and after I/O, is just another history. -/
theorem C19_repeated_set_witness :
    run {} [.openFd 5, .setOpt 5 true true 1000, .io 5 true, .setOpt 5 true true 2000, .setOpt 5 true true 3000, .io 5 true]
      = [(some 1000, some 1000), (some 3000, some 3000)] := by decide

end Oc.Props.C19
