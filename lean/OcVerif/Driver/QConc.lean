import OcVerif.Util
/-! Driver for `qconc` (real threads on the real queues, compared at quiescence): the model's
prediction is the content of `C03_len_conc` + `C03_conservation`: counter = items held, nothing
lost, nothing twice. -/
namespace Oc.Driver.QConc
open Oc

def drive (body impl : String) : Verdict :=
  let expect := "lenminusheld=0 dup=0 lost=0 phantom=0"
  let kv := (words impl).map (fun w => w.splitOn "=")
  let get := fun (k : String) => (kv.find? (fun p => p.head? == some k)).bind (fun p => p[1]?)
  let bad : List String :=
    (if get "lenminusheld" == some "0" then [] else [s!"[conc-len] reported length differs from items held at quiescence: {impl}"]) ++
    (if get "dup" == some "0" then [] else [s!"[conc-dup] an item was returned twice: {impl}"]) ++
    (if get "lost" == some "0" then [] else [s!"[conc-lost] items stranded or lost under concurrency: {impl}"]) ++
    (if get "phantom" == some "0" then [] else [s!"[conc-phantom] {impl}"])
  -- the process-wide task queue is an `OrderedWorkStealQueue`: an item lost or returned twice there is a task
  -- that is never executed, or executed twice (C01)
  let bad01 : List String := if (words body).headD "" != "oq" then [] else
    (if get "lost" == some "0" then [] else [s!"[task-stranded-in-queue] with the task queue's type under concurrent pushes and pops an item was pushed and never came out again although the queue was drained: {impl}"]) ++
    (if get "dup" == some "0" then [] else [s!"[task-twice] with the task queue's type an item came out twice: {impl}"])
  { modelOut := expect,
    spec := [("C03", bad.isEmpty, joinWith " ; " bad), ("C01", bad01.isEmpty, joinWith " ; " bad01)],
    blame := some ["C03"],
    labels := (words body).take 1 ++ (words body).drop 4 }

end Oc.Driver.QConc
