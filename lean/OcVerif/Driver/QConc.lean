import OcVerif.Util
/-! Driver for `qconc` (real threads on the real queues, compared at quiescence): the model's
prediction is the content of `C03_len_conc` + `C03_conservation`: counter = items held, nothing
lost, nothing twice. -/
namespace Oc.Driver.QConc
open Oc

def drive (body impl : String) : Verdict :=
  let expect := "lenminusheld=0 dup=0 lost=0 phantom=0"
  let kv := (words impl).map (fun w => w.splitOn "=")
  let get := fun (k : String) => (kv.find? (fun p => p.head? == some k)).bind (fun p => p[1]?)
  let bad : List String :=
    (if get "lenminusheld" == some "0" then [] else [s!"[conc-len] reported length differs from items held at quiescence: {impl}"]) ++
    (if get "dup" == some "0" then [] else [s!"[conc-dup] an item was returned twice: {impl}"]) ++
    (if get "lost" == some "0" then [] else [s!"[conc-lost] items stranded or lost under concurrency: {impl}"]) ++
    (if get "phantom" == some "0" then [] else [s!"[conc-phantom] {impl}"])
  { modelOut := expect,
    spec := [("C03", bad.isEmpty, joinWith " ; " bad)],
    labels := (words body).take 1 ++ (words body).drop 4 }

end Oc.Driver.QConc
