import OcVerif.Util
import OcVerif.Model.Timeouts
/-! Line-protocol driver for `timeouts` (C14). -/
namespace Oc.Driver.Timeouts
open Oc Oc.Timeouts

def T0 : Nat := 1700000000000000000

def render (r : Res) (final : Nat) (showInner : Bool) : String :=
  let inner := if showInner && !r.inner.isEmpty then " inner=" ++ joinWith "," ((r.inner.take 6).map toString) else ""
  s!"ret={r.ret} errno={r.errno} waits={rle r.waits} elapsed={final - T0} probes={r.probes}{inner}"

def kvOf (impl k : String) : Option String :=
  ((words impl).find? (fun w => w.startsWith (k ++ "="))).map (fun w => (w.drop (k.length + 1)).toString)

/-- C14 on the implementation's observed behaviour -/
def specOn (op : String) (impl : String) : List String :=
  let ret := (kvOf impl "ret").bind String.toInt?
  let errno := (kvOf impl "errno").bind String.toNat?
  let waits := ((kvOf impl "waits").bind unrle).getD []
  let total := waits.sum
  let never := 1000000
  let abn := (words impl).any (fun w => w == "HANG" || w == "ABORT")
  if abn then [s!"[abort-or-hang] {op}: {impl}"] else
  let einval := fun (viaErrno : Bool) =>
    (if viaErrno then (if ret == some (-1) ∧ errno == some EINVAL then [] else [s!"[einval] {op}: invalid time argument not rejected with EINVAL ({impl})"])
     else (if ret == some (Int.ofNat EINVAL) then [] else [s!"[einval] {op}: invalid time argument not rejected with EINVAL ({impl})"])) ++
    (if waits.isEmpty then [] else [s!"[einval] {op}: waited although the time argument is invalid"])
  let exact := fun (req : Nat) =>
    if total < req then [s!"[early] {op}: waits add up to {total} ns < requested {req} ns"]
    else if total ≥ req + MS then [s!"[late] {op}: waits add up to {total} ns, requested {req} ns"] else []
  match words op with
  | ["sleep", s] => exact (s.toNat?.getD 0 * 1000000000)
  | ["usleep", us] => exact (us.toNat?.getD 0 * 1000)
  | ["nanosleep", sec, nsec] =>
    let (sec, nsec) := (sec.toInt?.getD 0, nsec.toInt?.getD 0)
    if sec < 0 ∨ nsec < 0 ∨ nsec > 999999999 then einval true else exact (sec.toNat * 1000000000 + nsec.toNat)
  | ["poll", ms, k] =>
    let (ms, k) := (ms.toInt?.getD 0, k.toNat?.getD 0)
    if ms < 0 ∨ k < never then [] else exact (ms.toNat * MS)       -- only "nothing becomes ready" cases
  | ["select", sec, usec, k] =>
    let (sec, usec, k) := (sec.toInt?.getD 0, usec.toInt?.getD 0, k.toNat?.getD 0)
    if sec < 0 ∨ usec < 0 then einval true
    else if k < never ∨ sec.toNat > 1000000 then [] else exact (sec.toNat * 1000000000 + usec.toNat * 1000)
  | ["selectnull", _] => []
  | ["cond", rel, k] =>
    let k := k.toNat?.getD 0
    if rel == "neg" ∨ rel == "badnsec" then einval false
    else if rel == "null" ∨ rel == "past" ∨ k < never then []
    else exact (rel.toNat?.getD 0)
  | _ => [s!"[badop] {op}"]

def drive (body impl : String) : Verdict :=
  let m : Res × Nat × Bool := match words body with
    | ["sleep", s] => let r := sleepCall (s.toNat?.getD 0); (r, clockAfter T0 r.waits, false)
    | ["usleep", us] => let r := usleepCall (us.toNat?.getD 0); (r, clockAfter T0 r.waits, false)
    | ["nanosleep", sec, nsec] => let r := nanosleepCall (sec.toInt?.getD 0) (nsec.toInt?.getD 0); (r, clockAfter T0 r.waits, false)
    | ["poll", ms, k] => let r := pollCall (ms.toInt?.getD 0) (k.toNat?.getD 0); (r, clockAfter T0 r.waits, false)
    | ["select", sec, usec, k] => let r := selectCall (some (sec.toInt?.getD 0, usec.toInt?.getD 0)) (k.toNat?.getD 0); (r, clockAfter T0 r.waits, false)
    | ["selectnull", k] => let r := selectCall none (k.toNat?.getD 0); (r, clockAfter T0 r.waits, false)
    | ["cond", rel, k] =>
      let k := k.toNat?.getD 0
      let abst : Option (Int × Int) :=
        if rel == "null" then none
        else if rel == "neg" then some (-1, 0)
        else if rel == "badnsec" then some (1, 1000000000)
        else if rel == "past" then some (5, 0)
        else let a := T0 + rel.toNat?.getD 0; some (Int.ofNat (a / 1000000000), Int.ofNat (a % 1000000000))
      let r := condCall abst T0 k
      (r.1, r.2, true)
    | _ => ({ ret := -99 }, T0, false)
  let fails := specOn body impl
  { modelOut := render m.1 m.2.1 m.2.2,
    spec := [("C14", fails.isEmpty, joinWith " ; " fails)],
    labels := (words body).take 1 ++ [if m.1.waits.length > 4 then "many-slices" else if m.1.waits.isEmpty then "no-wait" else "few-slices",
              if m.1.errno == EINVAL ∨ m.1.ret == Int.ofNat EINVAL then "einval" else "valid"] }

end Oc.Driver.Timeouts
