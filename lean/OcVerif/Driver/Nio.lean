import OcVerif.Util
import OcVerif.Spec.Nio
/-! Line-protocol driver for `nio` (C16, C17, C18). -/
namespace Oc.Driver.Nio
open Oc Oc.Nio

def kindOf (call : String) : Option Kind :=
  if ["recv", "read", "recvfrom", "pread"].contains call then some .readBuf
  else if ["send", "write", "sendto", "pwrite"].contains call then some .writeBuf
  else if ["readv", "preadv", "recvmsg"].contains call then some .readVec
  else if ["writev", "pwritev", "sendmsg"].contains call then some .writeVec
  else none

def parseCall (t : String) : Option CResp :=
  if t == "again" then some .again
  else if t == "intr" then some .intr
  else if t.startsWith "m" then (t.drop 1).toString.toNat?.map .moved
  else if t.startsWith "e" then (t.drop 1).toString.toNat?.map .err
  else none

def parseWait (t : String) : Option WResp :=
  if t == "full" then some .full
  else if t == "fail" then some .fail
  else if t.startsWith "ev" then (t.drop 2).toString.toNat?.map .ev
  else none

def csv (s : String) : List String := (s.splitOn ",").map (·.trimAscii.toString) |>.filter (· ≠ "")

def renderReq (r : Req) : String :=
  joinWith "+" (r.ranges.map fun (o, l) => s!"{o}:{l}") ++ s!"#{r.count}"

def render (limit : Nat) (o : Out) (isWrite : Bool) : String :=
  let w := if isWrite then "w" else "r"
  s!"limit={limit} ret={o.ret} errno={o.errno} reqs={joinWith "," (o.reqs.map renderReq)} waits={joinWith "," (o.waits.map fun n => s!"{w}{n}")} flag={boolStr o.blockingAfter} elapsed={o.elapsed} moved={o.moved} lasterr={o.lastErr.getD 0} placed=ok"

def kv (impl : String) (k : String) : String :=
  match (words impl).find? (fun w => w.startsWith (k ++ "=")) with
  | some w => (w.drop (k.length + 1)).toString
  | none => ""

def parseReq (s : String) : List (Option Nat × Nat) × Nat :=
  match s.splitOn "#" with
  | [rs, c] =>
    ((rs.splitOn "+").filterMap fun r => match r.splitOn ":" with
      | [o, l] => some (o.toNat?, l.toNat?.getD 0)
      | _ => none, c.toNat?.getD 0)
  | _ => ([], 0)

def driveConnect (blk sockS callsS waitsS impl : String) : Verdict :=
  let blocking := blk == "1"
  -- socket kind 2: the attempt has already been refused, the error (ECONNREFUSED = 111) is what the socket says after the wait
  let pending : Option Nat := if sockS == "2" then some 111 else none
  let calls := (csv ((callsS.splitOn "calls:").getLastD "")).filterMap parseCall
  let waits := (csv ((waitsS.splitOn "waits:").getLastD "")).filterMap parseWait
  let limit := (kv impl "limit").toNat?.getD U64MAX
  let first := calls.headD (.err ECONNRESET)
  let out := connectCall blocking limit 1000000000 first waits pending
  let mo := s!"limit={limit} ret={out.ret} errno={out.errno} reqs=c#1 waits={joinWith "," (out.waits.map fun n => s!"w{n}")} flag={boolStr out.blockingAfter} elapsed={out.elapsed} moved=0 lasterr={out.lastErr.getD 0} placed=ok"
  let abn := (words impl).any (fun w => w == "HANG" || w == "ABORT")
  let iwaits := (csv (kv impl "waits")).length
  let f18 : List String :=
    (if abn then [s!"[abort-or-hang] connect: {impl}"] else []) ++
    (if !abn ∧ !blocking ∧ iwaits > 0 then [s!"[nonblocking-waited] connect on a non-blocking descriptor waited {iwaits} time(s) instead of returning the kernel's answer"] else []) ++
    (if !abn ∧ (kv impl "flag" == "1") != blocking then [s!"[flag-changed] connect left the descriptor {if blocking then "non-blocking" else "blocking"}"] else [])
  { modelOut := mo, blame := if mo == impl then none else some ["C18"],
    spec := [("C16", true, ""), ("C17", true, ""), ("C18", f18.isEmpty, joinWith " ; " f18)],
    labels := ["connect", if blocking then "blocking" else "nonblocking", if pending.isSome then "connect.refused-socket" else "connect.connected-socket",
               if out.ret ≥ 0 then "success" else if out.waits.isEmpty then "fail-nowait" else "fail-after-wait"] }

def driveOne (body impl : String) : Verdict :=
  match splitTrim body ";" with
  | [head, callsS, waitsS] =>
    match words head with
    | [callF, blk, _limitUs, shapeS] =>
      -- `recv:w` / `recvmsg:w` = the same call with MSG_WAITALL: the hooked layers pass flags through
      let call := (callF.splitOn ":").headD callF
      if call == "connect" then driveConnect blk shapeS callsS waitsS impl else
      match kindOf call with
      | none => { modelOut := "BADCALL" }
      | some k =>
        let shape : Shape := (shapeS.splitOn "+").map (fun x => x.toNat?.getD 0)
        let blocking := blk == "1"
        let calls := (csv ((callsS.splitOn "calls:").getLastD "")).filterMap parseCall
        let waits := (csv ((waitsS.splitOn "waits:").getLastD "")).filterMap parseWait
        let limit := (kv impl "limit").toNat?.getD U64MAX
        let out := Oc.Nio.call k shape blocking limit 1000000000 calls waits
        let isWrite := k == .writeBuf || k == .writeVec
        -- the observation of the implementation
        let obs : Spec.Nio.Obs :=
          { kind := k, shape := shape, blockingBefore := blocking, calls := calls,
            ret := (kv impl "ret").toInt?.getD (-99), errno := (kv impl "errno").toNat?.getD 9999,
            reqs := (csv (kv impl "reqs")).map parseReq,
            waits := (csv (kv impl "waits")).map (fun w => ((w.drop 1).toString.toNat?).getD 0),
            blockingAfter := kv impl "flag" == "1", moved := (kv impl "moved").toNat?.getD 0,
            lastErr := (kv impl "lasterr").toNat?.getD 0, placedOk := kv impl "placed" == "ok" }
        let abn := impl.startsWith "HANG" || impl.startsWith "ABORT" || (words impl).any (fun w => w == "HANG" || w == "ABORT")
        let f16 := if abn then [s!"[abort-or-hang] {impl}"] else Spec.Nio.c16 obs
        let f17 := if abn then [s!"[abort-or-hang] {impl}"] else Spec.Nio.c17 obs
        let f18 := if abn then [s!"[abort-or-hang] {impl}"] else Spec.Nio.c18 obs
        -- which property's correspondence a difference breaks
        let mo := render limit out isWrite
        let diff := fun (k : String) => kv mo k != kv impl k
        let blame : List String :=
          (if diff "ret" || diff "errno" || diff "moved" || diff "lasterr" || diff "placed" || diff "elapsed" then ["C16"] else []) ++
          (if diff "reqs" then (if k.isVec then ["C17"] else ["C16"]) else []) ++
          (if diff "flag" then ["C18"] else []) ++
          (if diff "waits" then (if blocking then ["C16"] else ["C18"]) else [])
        { modelOut := mo,
          blame := if mo == impl then none else some (if blame.isEmpty then ["C16", "C17", "C18"] else blame.eraseDups),
          spec := [("C16", f16.isEmpty, joinWith " ; " f16), ("C17", f17.isEmpty, joinWith " ; " f17), ("C18", f18.isEmpty, joinWith " ; " f18)],
          labels := [call, if blocking then "blocking" else "nonblocking",
                     if out.ret ≥ 0 then "success" else if out.waits.isEmpty then "fail-nowait" else "fail-after-wait",
                     if shape.total = 0 then "zero-length" else "nonzero",
                     if out.waits.length ≥ 2 then "multi-wait" else "le1-wait"] }
    | _ => { modelOut := "BADCASE" }
  | _ => { modelOut := "BADCASE" }

/-- several calls on one descriptor in one process: the model is the same function for each call
(that behaviour depends only on the current mode and script is part of what is checked) -/
def drive (body impl : String) : Verdict :=
  let segs := splitTrim body "||"
  let outs := splitTrim impl "||"
  let outs := outs ++ List.replicate (segs.length - outs.length) ""
  let vs := (segs.zip outs).map (fun so => driveOne so.1 so.2)
  let props := ["C16", "C17", "C18"]
  let blames := vs.filterMap (·.blame)
  { modelOut := joinWith " || " (vs.map (·.modelOut)),
    spec := props.map (fun p =>
      let fs := vs.flatMap (fun v => (v.spec.filter (fun x => x.1 == p ∧ !x.2.1)).map (·.2.2))
      (p, fs.isEmpty, joinWith " ; " fs)),
    labels := (vs.flatMap (·.labels) ++ [if segs.length > 1 then "multi-call" else "single-call"]).eraseDups,
    blame := if blames.isEmpty then none else some (blames.flatten.eraseDups) }

end Oc.Driver.Nio
