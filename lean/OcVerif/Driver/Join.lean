import OcVerif.Util
import OcVerif.Model.Conc.WaitNotify
/-! Line-protocol driver for `join` (C02): the forced schedule of gates is replayed on the
interleaving model `Oc.Conc.Join` (the one `Props/C02.lean` proves its theorems about). -/
namespace Oc.Driver.Join
open Oc Oc.Conc.Join

def actOf : String → Option Act
  | "s" | "a" | "b" | "c" => some .waiter
  | "x" | "y" => some .completer
  | _ => none

def showRes : Option Outcome → String
  | some (.value v) => s!"Ok({v})"
  | some (.panicked m) => s!"Err({m.replace " " "_"})"
  | none => "timeout"

/-- let the waiter run on to its return; `true` = it needed its deadline to pass -/
def finish (c : Cfg) : Cfg × Bool :=
  let c1 := run c [.waiter, .waiter, .waiter, .waiter, .waiter]
  match c1.wpc with
  | .returned _ => (c1, false)
  | _ => (run c1 [.expire, .waiter, .waiter, .waiter], true)

def drive (body impl : String) : Verdict :=
  let (o, sched) := match body.splitOn " ; " with
    | [a, b] => (a.trimAscii.toString, b.trimAscii.toString)
    | _ => ("", "")
  let outcome : Outcome := if o == "P" then .panicked "boom" else .value ((o.drop 1).toString.toNat?.getD 0)
  let c0 : Cfg := { outcome := outcome }
  let late := sched == "late"
  let kv := (words impl).map (fun w => w.splitOn "=")
  let get := fun (k : String) => ((kv.find? (fun p => p.head? == some k)).bind (fun p => p[1]?)).getD ""
  let own := showRes (some outcome)
  if sched == "steal" then
    -- a second pool of the process runs the task (which pool runs it is the environment's choice); results are
    -- process-wide, so the join on the submitting pool gets it
    let mo := s!"res={own} prompt=1 ran=1 stolen={get "stolen"} other=none"
    let bad : List String :=
      if get "ran" == "1" && get "res" != own then
        (if get "other" == own then [s!"[result-in-other-pool] the task finished ({own}) in another pool of the process, its result was stored there and the join on the submitting pool returned {get "res"}"]
         else [s!"[wrong-result] the task finished {own} but the join returned {get "res"}"])
      else if get "ran" != "1" then [s!"[early-timeout] the task never ran although both pools made a scheduling pass"] else []
    { modelOut := mo, spec := [("C02", bad.isEmpty, joinWith " ; " bad)], labels := ["steal", if get "stolen" == "1" then "stolen" else "not-stolen"] }
  else if sched.startsWith "handle" then
    -- the public JoinHandle on a real loop: either the task has long finished when the join starts (the first
    -- look finds the result, however little patience the caller has), or it is still running (the join gives up,
    -- a later join gets the result)
    let n := (words sched).filterMap String.toNat?
    let (busy, wait) := (n.getD 0 0, n.getD 1 0)
    let finishedFirst := busy + 100 ≤ wait
    let c1 := if finishedFirst then run c0 [.completer, .completer, .waiter, .waiter]
              else run c0 [.waiter, .waiter, .waiter, .expire, .waiter, .waiter]
    let c2 := run c1 [.completer, .completer]
    let mo := match c1.wpc with
      | .returned r => if finishedFirst then s!"res={showRes r} later=-" else s!"res={showRes r} later={showRes c2.res}"
      | _ => "res=? later=?"
    let bad : List String :=
      if finishedFirst then
        (if get "res" == own then [] else [s!"[finished-task-not-returned] the task had finished {own} long before the join ({sched}), the join returned {get "res"}"])
      else
        (if get "res" == "timeout" then [] else [s!"[wrong-result] the task was still running when the join gave up, yet it returned {get "res"}"]) ++
        (if get "later" == own then [] else [s!"[result-lost] the later join should return {own}, got {get "later"}"])
    { modelOut := mo, spec := [("C02", bad.isEmpty, joinWith " ; " bad)], labels := [if finishedFirst then "handle.finished-before-join" else "handle.running-at-join", s!"patience{n.getD 2 0}"] }
  else if late then
    -- the waiter runs alone up to its deadline, the completion comes afterwards
    let c1 := run c0 [.waiter, .waiter, .waiter, .expire, .waiter, .waiter]
    let c2 := run c1 [.completer, .completer]
    let mo := match c1.wpc with
      | .returned r => s!"res={showRes r} prompt=1 later={showRes c2.res}"
      | _ => "res=? prompt=1"
    let bad : List String :=
      (if get "res" == "timeout" then [] else [s!"[wrong-result] the task had not run when the wait gave up, yet the wait returned {get "res"}"]) ++
      (if get "later" == own then [] else [s!"[result-lost] after a wait that timed out the task's result should still be retrievable as {own}, found {get "later"}"])
    { modelOut := mo, spec := [("C02", bad.isEmpty, joinWith " ; " bad)], labels := ["late"] }
  else
    let acts := (words sched).filterMap actOf
    let c1 := run c0 acts
    let (c2, needed) := finish c1
    let mo := match c2.wpc with
      | .returned r => s!"res={showRes r} prompt={if needed then 0 else 1}"
      | _ => "res=? prompt=?"
    let r := get "res"
    let bad : List String :=
      (if r == own then [] else if r == "timeout" then [s!"[early-timeout] the task finished {own} well inside the wait's budget but the wait timed out (schedule {sched})"]
        else [s!"[wrong-result] the wait returned {r}, the task produced {own} (schedule {sched})"]) ++
      (if get "prompt" == "1" then [] else [s!"[lost-wakeup] the task finished but the waiter stayed blocked until its own deadline (schedule {sched})"])
    let lab := if (words sched).take 3 == ["s", "x", "y"] then "complete-between-take-and-register"
      else if (words sched).headD "" == "x" && (words sched).take 2 == ["x", "y"] then "complete-before-wait"
      else if (words sched).drop 4 == ["x", "y"] then "complete-after-block" else "complete-overlapping"
    { modelOut := mo, spec := [("C02", bad.isEmpty, joinWith " ; " bad)],
      labels := [lab, if o == "P" then "panic" else "value"] }
end Oc.Driver.Join
