import OcVerif.Util
/-! Driver for `rtstop` (C12 on a started runtime): `EventLoops::stop` with tasks accepted before it.
The prediction is the content of `C12_accepted_run_before_ok` and `C12_reject_after_stop` lifted to the
runtime: a stop that reports success has run every accepted task; with a generous budget it does
succeed; whatever it reports, later submissions are rejected. -/
namespace Oc.Driver.RtStop
open Oc
def drive (body impl : String) : Verdict :=
  let w := words body
  let n := (w.getD 1 "0").toNat?.getD 0
  let budget := (w.getD 3 "0").toNat?.getD 0
  let kv := (words impl).map (fun x => x.splitOn "=")
  let get := fun (k : String) => ((kv.find? (fun p => p.head? == some k)).bind (fun p => p[1]?)).getD "?"
  let abn := (words impl).any (fun x => x == "ABORT" || x == "HANG")
  -- a generous budget for a modest number of tasks; hundreds of sleeping tasks on a loaded machine may need longer
  let generous := budget ≥ 3000 ∧ n ≤ 40
  let mo := if generous then s!"stop=ok ran={n}/{n} after=rejected" else s!"stop={get "stop"} ran={get "ran"} after=rejected"
  let bad : List String :=
    if abn then [s!"[hang-or-abort] {impl}"] else
    (if get "stop" == "ok" ∧ get "ran" != s!"{n}/{n}" then [s!"[stop-ok-task-not-run] EventLoops::stop reported success but only {get "ran"} of the tasks accepted before it had run ({body})"] else []) ++
    (if generous ∧ get "stop" != "ok" then [s!"[stop-timeout] {n} short tasks and a budget of {budget} ms, yet stop timed out: {impl}"] else []) ++
    (if get "after" != "rejected" then [s!"[accepted-after-stop] a submission made after stop returned was accepted"] else [])
  { modelOut := mo, spec := [("C12", bad.isEmpty, joinWith " ; " bad)], blame := some ["C12"],
    labels := [s!"work-{w.getD 2 ""}", if w.getD 0 "1" == "1" then "one-loop" else "several-loops", if generous then "generous-budget" else "no-budget", if n == 0 then "no-task" else "tasks"] }
end Oc.Driver.RtStop
