import OcVerif.Util
/-! Driver for `once` (C01, concurrent smoke): real event-loop threads and real submitter threads.
The model's prediction is the content of `C01_exactly_once` / `C01_drain`: every task ran once. -/
namespace Oc.Driver.Once
open Oc
def drive (body impl : String) : Verdict :=
  let w := words body
  let total := ((w.getD 1 "").toNat?.getD 0) * ((w.getD 2 "").toNat?.getD 0)
  let kv := (words impl).map (fun w => w.splitOn "=")
  let get := fun (k : String) => ((kv.find? (fun p => p.head? == some k)).bind (fun p => p[1]?)).getD "?"
  let bad : List String :=
    (if get "dup" == "0" then [] else [s!"[ran-twice] {get "dup"} of {total} tasks executed more than once ({body})"]) ++
    (if get "lost" == "0" then [] else [s!"[lost] {get "lost"} of {total} tasks never ran although the event loops kept scheduling for seconds ({body})"]) ++
    (if get "unfinished" == "0" then [] else [s!"[unfinished] {get "unfinished"} of {total} tasks were started but did not finish within seconds although the event loops kept running ({body})"]) ++
    (if (words impl).any (fun x => x == "ABORT" || x == "HANG") then [s!"[hang-or-abort] {impl}"] else [])
  { modelOut := s!"once={total} lost=0 dup=0 unfinished=0 early=0",
    spec := [("C01", bad.isEmpty, joinWith " ; " bad),
             -- a hooked sleep that comes back before its time on a runtime whose coroutines migrate between loop threads:
             -- its wake-up time went to, or came from, another coroutine (C09), and it is early (C14)
             ("C09", get "early" == "0", if get "early" == "0" then "" else s!"[foreign-delay] {get "early"} hooked sleeps returned before the time they asked for ({body}): the wake-up time a coroutine registered was not the one applied to it"),
             ("C14", get "early" == "0", if get "early" == "0" then "" else s!"[early] {get "early"} hooked sleeps in coroutines of a multi-loop runtime returned early ({body})")],
    blame := some ["C01"],
    labels := [s!"loops{w.headD ""}", s!"threads{w.getD 1 ""}", s!"prio-{w.getD 3 ""}", s!"work-{w.getD 4 ""}"] }
end Oc.Driver.Once
