import OcVerif.Util
/-! Driver for `rtconn` (C18 with the real kernel on a started runtime): hooked connect / accept made
by coroutines on blocking descriptors. Prediction from `C18_connect_*`: a connect whose peer accepts
ends with 0, one to a closed port with −1/ECONNREFUSED, and every descriptor is still blocking. -/
namespace Oc.Driver.RtConn
open Oc
def drive (body impl : String) : Verdict :=
  let w := (words body).filterMap String.toNat?
  let (pairs, refused) := (w.getD 1 0, w.getD 2 0)
  let kv := (words impl).map (fun x => x.splitOn "=")
  let get := fun (k : String) => ((kv.find? (fun p => p.head? == some k)).bind (fun p => p[1]?)).getD "?"
  let abn := (words impl).any (fun x => x == "ABORT" || x == "HANG")
  let mo := s!"connected={pairs}/{pairs} echoed={pairs} refused={refused}/{refused} flags={2 * pairs + refused}/{2 * pairs + refused} unfinished=0"
  let bad : List String :=
    if abn then [s!"[hang-or-abort] {impl}"] else
    (if get "unfinished" != "0" then [s!"[connect-or-accept-stuck] {get "unfinished"} coroutines never came back from their hooked connect/accept ({body})"] else []) ++
    (if get "unfinished" == "0" ∧ get "flags" != s!"{2 * pairs + refused}/{2 * pairs + refused}" then [s!"[flag-changed] only {get "flags"} descriptors were still in blocking mode after the hooked connect/accept/recv"] else []) ++
    (if get "unfinished" == "0" ∧ get "refused" != s!"{refused}/{refused}" then [s!"[wrong-answer] connects to a closed port answered −1/ECONNREFUSED in {get "refused"} cases"] else []) ++
    (if get "unfinished" == "0" ∧ (get "connected" != s!"{pairs}/{pairs}" ∨ get "echoed" != toString pairs) then [s!"[wrong-answer] {get "connected"} connects succeeded, {get "echoed"} of {pairs} connections carried their 4 bytes"] else [])
  { modelOut := mo, spec := [("C18", bad.isEmpty, joinWith " ; " bad)], blame := some ["C18"],
    labels := ["real-kernel", if w.getD 0 1 > 1 then "several-loops" else "one-loop", if refused > 0 then "refused" else "no-refused", if pairs > 0 then "accepted" else "no-accepted"] }
end Oc.Driver.RtConn
