import OcVerif.Util
import OcVerif.Model.StackGrow
/-! Line-protocol driver for `stack` (C23). The measured margin `m` of each call (0 clearly enough,
1 clearly short, 2 too close to call) is an environment fact taken from the implementation's output. -/
namespace Oc.Driver.Stack
open Oc Oc.Stack

def fieldOf (tok : String) (c : Char) : Option Nat :=
  ((tok.splitOn ",").find? (fun f => f.startsWith (String.singleton c))).bind (fun f => (f.drop 1).toString.toNat?)

def parseLevel (s : String) : Option (Nat × Nat × Bool) :=
  match (s.splitOn ":").map String.toNat? with
  | [some red, some size, some _, some c] => some (red * 1024, size * 1024, c == 1)
  | _ => none

def mkLevels (lv : List (Nat × Nat × Bool)) (entries : List String) : List Level :=
  (lv.zip (entries ++ List.replicate (lv.length - entries.length) "")).map (fun (l, e) =>
    let m := (fieldOf e 'm').getD 2
    let g := (fieldOf e 'g').getD 0
    let rem := if m == 0 then l.1 + 65536 else if m == 1 then 0 else (if g == 1 then 0 else l.1)
    { red := l.1, size := l.2.1, catch_ := l.2.2, remaining := rem })

def driveChain (isCo : Bool) (chain impl : String) : String × List String :=
  -- `L~D`: D runs in a destructor while L's panic unwinds
  let (mainS, dropS) := match chain.splitOn "~" with
    | [a, b] => (a ++ "!", b)
    | _ => (chain, "")
  let panics := mainS.endsWith "!"
  let body := (mainS.replace "!" "").replace "." ""
  let lv := (body.splitOn ">").filterMap parseLevel
  let dv := (dropS.splitOn ">").filterMap parseLevel
  let toks := words impl
  let entries := toks.filter (fun t => t.startsWith "d")
  -- environment: the margin of each call (and, when too close to call, what the implementation did)
  let levels : List Level := mkLevels lv (entries.take lv.length)
  let r := run isCo (fun s => s - 8192) 0 levels panics
  -- the drop chain starts at the depth of the innermost callback; the growth decision there is the
  -- same function of the remaining stack (unwinding or not)
  let innermost := (r.1.getLast?.map (·.inside)).getD 0
  let dlevels : List Level := mkLevels dv (entries.drop lv.length)
  let rd := if dv.isEmpty then ([], [], innermost, Out.value 7) else run isCo (fun s => s - 8192) innermost dlevels false
  let ms := entries.map (fun e => (fieldOf e 'm').getD 2)
  let allEntries := r.1 ++ rd.1
  let ents := (allEntries.zip (ms ++ List.replicate (allEntries.length - ms.length) 2)).map (fun (e, m) =>
    s!"d{e.before},m{m},g{if e.grew then 1 else 0},i{e.inside},k{if e.roomOk then 1 else 0}")
  let cs := r.2.1.map (fun d => s!"c{d}")
  let v := match r.2.2.2 with | .value v => toString v | .unwinding => "unwound"
  let mout := joinWith " " (ents ++ cs ++ [s!"a{r.2.2.1}", s!"v{v}"])
  -- Spec on the implementation's own tokens
  let abn := toks.any (fun t => t == "ABORT" || t == "HANG" || t == "THREADPANIC") || impl == ""
  let fails : List String :=
    if abn then [s!"[abort] chain `{chain}`: {impl}"] else
    (if toks.any (fun t => t.startsWith "a" ∧ t ≠ "a0") then [s!"[not-restored] chain `{chain}`: segments registered after the call: {impl}"] else []) ++
    (if entries.any (fun e => fieldOf e 'k' == some 0) then [s!"[no-room] chain `{chain}`: a callback started with less than its red zone: {impl}"] else []) ++
    (if entries.any (fun e => (fieldOf e 'i') != (do let d ← fieldOf e 'd'; let g ← fieldOf e 'g'; pure (d + g))) then [s!"[depth-inside] chain `{chain}`: {impl}"] else []) ++
    (if entries.any (fun e => (fieldOf e 'm' == some 1 ∧ fieldOf e 'g' == some 0)) then [s!"[not-grown] chain `{chain}`: ran in place with less than the red zone left: {impl}"] else []) ++
    (if !panics ∧ !toks.contains "v7" then [s!"[value] chain `{chain}`: callback value not returned: {impl}"] else [])
  (mout, fails)

def drive (body impl : String) : Verdict :=
  match splitTrim body ";" with
  | path :: chains =>
    let isCo := path == "co"
    let outs := splitTrim impl "|"
    let outs := outs ++ List.replicate (chains.length - outs.length) ""
    let rs := (chains.zip outs).map (fun co => driveChain isCo co.1 co.2)
    let fails := rs.flatMap (·.2)
    { modelOut := joinWith " | " (rs.map (·.1)),
      spec := [("C23", fails.isEmpty, joinWith " ; " fails)],
      labels := [path] ++ (if chains.any (·.endsWith "!") then ["panic"] else ["no-panic"]) ++
                (if chains.any (fun c => (c.splitOn "~").length == 2) then ["grow-while-unwinding"] else []) ++
                (if (rs.any fun r => (words r.1).any (fun t => t.startsWith "c")) then ["caught"] else []) ++
                (if (rs.any fun r => (words r.1).any (fun t => (fieldOf t 'g') == some 1)) then ["grew"] else ["in-place"]) }
  | _ => { modelOut := "BADCASE" }

end Oc.Driver.Stack
