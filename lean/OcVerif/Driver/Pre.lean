import OcVerif.Util
import OcVerif.Model.Preempt
/-! Driver for `pre` (C22): real preemption on the wall clock (harness built with the repo's
`preemptive` feature). The model's prediction is the content of the C22 theorems: every coroutine
finishes with its value intact, is never preempted inside a system-call section and always inside a
long running section; the completion order of one thread is wall-clock dependent and taken from the
implementation, only its consequences are checked. -/
namespace Oc.Driver.Pre
open Oc

def fieldsOf (tok : String) : List (String × String) :=
  (((tok.splitOn ":").drop 1).headD "").splitOn "," |>.filterMap (fun f => match f.splitOn "=" with
    | [k, v] => some (k, v) | _ => none)

def drive (body impl : String) : Verdict :=
  let parts := splitTrim body ";"
  let threads := (parts.headD "1").toNat?.getD 1
  let progs := parts.drop 1
  let n := progs.length
  let perThread := (impl.splitOn " / ").map (fun s => s.trimAscii.toString)
  let abn := (words impl).any (fun w => w == "ABORT" || w == "HANG" || w == "THREADPANIC") || impl == ""
  let orderOf := fun (s : String) => (((words s).find? (·.startsWith "order=")).map (fun w => (w.drop 6).toString)).getD ""
  let expect := joinWith " " ((List.range n).map (fun k => s!"{k}:v=1,pz=0,pbl=1"))
  let mo := joinWith " / " ((List.range threads).map (fun i => s!"{expect} order={orderOf (perThread.getD i "")}"))
  let steps := fun (p : String) => p.splitOn ","
  let busy : String → Nat := fun (p : String) => ((steps p).filter (·.startsWith "B")).foldl (fun a s => a + ((s.drop 1).toString.toNat?.getD 0)) 0
  let light : String → Bool := fun (p : String) => (steps p).all (fun s => s == "Y" || s == "R")
  let fails : List String :=
    if abn then
      (if threads ≥ 2 ∧ n ≥ 2 then [s!"[unsafe-with-many-threads] {threads} scheduling threads with {n} coroutines each: {impl.takeEnd 40}"]
       else [s!"[crash-or-hang] {threads} threads, {n} coroutines each: {impl.takeEnd 40}"])
    else
      perThread.flatMap (fun s =>
        let toks := (words s).filter (fun w => !(w.startsWith "order="))
        let got := toks.filterMap (fun t => ((t.splitOn ":").headD "").toNat?.map (fun k => (k, fieldsOf t)))
        let fld := fun (fs : List (String × String)) (k : String) => ((fs.find? (·.1 == k)).map (·.2)).getD "?"
        let ord := ((orderOf s).splitOn ".").filterMap String.toNat?
        ((List.range n).filter (fun k => !(got.any (·.1 == k)))).map (fun k =>
          if threads ≥ 2 ∧ n ≥ 2 then s!"[unsafe-with-many-threads] {threads} scheduling threads with {n} coroutines each: coroutine {k} (`{progs.getD k ""}`) never finished"
          else s!"[never-finished] coroutine {k} (`{progs.getD k ""}`) did not finish within 6 s") ++
        (got.filter (fun g => fld g.2 "v" != "1")).map (fun g => s!"[result-changed] coroutine {g.1} finished with a different value than the same work computes without preemption") ++
        (got.filter (fun g => fld g.2 "pz" != "0")).map (fun g => s!"[preempted-in-syscall] coroutine {g.1} was suspended {fld g.2 "pz"} time(s) while in a system-call state") ++
        -- liveness observations depend on who runs where: with many threads idle schedulers steal ready
        -- coroutines, so they are only judged with few threads (the order only with one)
        (if threads > 1 ∧ n ≥ 2 then [] else got.filter (fun g => fld g.2 "pbl" != "1")).map (fun g => s!"[long-runner-not-preempted] coroutine {g.1} ran a section of at least 45 ms without being suspended") ++
        -- a coroutine that only yields/returns is done before one that needs 90 ms or more of CPU
        ((if threads > 1 then [] else List.range n).flatMap (fun i => (List.range n).filterMap (fun j =>
          if light (progs.getD i "") && decide (busy (progs.getD j "") ≥ 90) && ord.contains i && ord.contains j &&
             decide ((ord.findIdx (fun (x : Nat) => x == j)) < (ord.findIdx (fun (x : Nat) => x == i))) then
            some s!"[others-starved] coroutine {i} (no computation) finished after coroutine {j} ({busy (progs.getD j "")} ms of computation)" else none))))
  { modelOut := mo, spec := [("C22", fails.isEmpty, joinWith " ; " fails)],
    labels := [if threads ≥ 6 then "threads-many" else if threads ≥ 2 then "threads-few" else "threads-1"] ++
              (if progs.any (fun p => (steps p).any (·.startsWith "Z")) then ["syscall-sections"] else []) ++
              (if progs.any (fun p => busy p ≥ 30) then ["long-runner"] else []) ++
              (if progs.any light ∧ progs.any (fun p => busy p ≥ 90) then ["light-and-heavy"] else []) }
end Oc.Driver.Pre
