import OcVerif.Util
import OcVerif.Model.Runtime
/-! Line-protocol driver for `rt` (C01): k real pools sharing the process-wide task queue, replayed on
`Oc.Rt` (the model `Props/C01.lean` proves its theorems about). Pool `j` owns local queue `j`. -/
namespace Oc.Driver.Rt
open Oc Oc.Rt Oc.Queue

/-- `3.4.5.9` → `3-5.9` -/
def compressAux : List Nat → Option (Nat × Nat) → List String → List String
  | [], none, acc => acc.reverse
  | [], some (a, b), acc => ((if a = b then toString a else s!"{a}-{b}") :: acc).reverse
  | x :: xs, none, acc => compressAux xs (some (x, x)) acc
  | x :: xs, some (a, b), acc =>
    if x = b + 1 then compressAux xs (some (a, x)) acc
    else compressAux xs (some (x, x)) ((if a = b then toString a else s!"{a}-{b}") :: acc)

def compress (l : List Nat) : String := joinWith "." (compressAux l none [])

def expand (s : String) : List Nat :=
  (s.splitOn ".").flatMap (fun seg =>
    match seg.splitOn "-" with
    | [a] => (a.toNat?.map (fun x => [x])).getD []
    | [a, b] => match a.toNat?, b.toNat? with
      | some a, some b => (List.range (b + 1 - a)).map (· + a)
      | _, _ => []
    | _ => [])

def insertSorted (x : Nat) : List Nat → List Nat
  | [] => [x]
  | y :: ys => if x ≤ y then x :: y :: ys else y :: insertSorted x ys
def sortNat (l : List Nat) : List Nat := l.foldr insertSorted []

/-- a scheduling pass of pool `i`: a worker is created iff any queue holds a task; it pops until a
pop finds nothing (that last pop included) -/
def passLoop : Nat → Rt → Nat → Rt
  | 0, r, _ => r
  | f + 1, r, i =>
    match Rt.step r (.take i 0) with
    | none => r
    | some r' => if r'.taken.length = r.taken.length then r' else passLoop f r' i

def pass (r : Rt) (i : Nat) : Rt :=
  if r.q.resident = [] then r else passLoop (r.q.resident.length + 2) r i

def submitN : Nat → Rt → Nat → Int → Rt
  | 0, r, _, _ => r
  | c + 1, r, i, p => submitN c ((Rt.step r (.submit i p)).getD r) i p

structure D where
  r : Rt
  k : Nat
  outs : List String := []
  labels : List String := []
  fails : List String := []
  everRan : List Nat := []       -- implementation side
  cancelledAt : List Nat := []   -- ids whose cancel was requested (at any time)

def stepOp (d : D) (o io : String) : D :=
  let abn := (words io).any (fun w => w == "ABORT" || w == "HANG")
  if abn then { d with outs := d.outs ++ ["?"], fails := d.fails ++ [s!"[hang-or-abort] {o}: {io}"] } else
  let showRan := fun (before after : Rt) (sorted : Bool) =>
    let l := after.ran.drop before.ran.length
    s!"ran={compress (if sorted then sortNat l else l)}"
  let implRan := if io.startsWith "ran=" then expand (io.drop 4).toString else []
  let dupNow := implRan.filter (fun x => d.everRan.contains x || (implRan.filter (· == x)).length > 1)
  let d := { d with everRan := d.everRan ++ implRan,
                    fails := d.fails ++ (if dupNow.isEmpty then [] else [s!"[ran-twice] after `{o}` task(s) {compress dupNow} executed a second time"]) }
  match words o with
  | ["sub", i, p] =>
    let r' := (Rt.step d.r (.submit (i.toNat?.getD 0) (p.toInt?.getD 0))).getD d.r
    { d with r := r', outs := d.outs ++ ["ok"], labels := d.labels ++ ["sub"] }
  | ["burst", i, c, p] =>
    let r' := submitN (c.toNat?.getD 0) d.r (i.toNat?.getD 0) (p.toInt?.getD 0)
    { d with r := r', outs := d.outs ++ ["ok"],
             labels := d.labels ++ [if r'.q.shared.vals.length > d.r.q.shared.vals.length then "burst.spills" else "burst"] }
  | ["cancel", t] =>
    let t := t.toNat?.getD 0
    if t < d.r.nextId then
      { d with r := (Rt.step d.r (.cancel t)).getD d.r, outs := d.outs ++ ["-"], cancelledAt := t :: d.cancelledAt,
               labels := d.labels ++ [if d.r.q.resident.contains t then "cancel.queued" else "cancel.late"] }
    else { d with outs := d.outs ++ ["-"], labels := d.labels ++ ["cancel.none"] }
  | ["pass", i] =>
    let i := i.toNat?.getD 0
    let r' := pass d.r i
    let own := ((d.r.q.locals.getD i {}).q.vals).length
    let lab := if d.r.q.resident = [] then "pass.idle" else if own < d.r.q.resident.length - d.r.q.shared.vals.length then "pass.steals" else if d.r.q.shared.vals ≠ [] then "pass.shared" else "pass.local"
    { d with r := r', outs := d.outs ++ [showRan d.r r' (d.k ≥ 3)], labels := d.labels ++ [lab] ++ (if r'.skipped.length > d.r.skipped.length then ["pass.skips-cancelled"] else []) }
  | ["fin"] =>
    let r' := (List.range d.k).foldl pass d.r
    -- the statement itself on the implementation's history: after every pool made a pass, each
    -- submitted task that was never cancelled has run
    let lost := (List.range d.r.nextId).filter (fun x => !(d.everRan.contains x) && !(d.cancelledAt.contains x))
    { d with r := r', outs := d.outs ++ [showRan d.r r' true], labels := d.labels ++ ["fin"],
             fails := d.fails ++ (if lost.isEmpty then [] else [s!"[lost] every pool made a scheduling pass but task(s) {compress lost} never ran and were never cancelled"]) }
  | _ => { d with outs := d.outs ++ ["BADOP"] }

def drive (body impl : String) : Verdict :=
  let (cfg, ops) := match body.splitOn " ; " with
    | [a, b] => (a, b)
    | _ => ("1", "")
  let k := cfg.trimAscii.toString.toNat?.getD 1
  let ios := (impl.splitOn " | ").map (fun s => s.trimAscii.toString)
  let n := (((ios.headD "").drop 2).toString.toNat?).getD 1
  let os := (ops.splitOn " | ").map (fun s => s.trimAscii.toString)
  let d0 : D := { r := Rt.init (max n k) 256, k := k }
  let d := (os.zip ((ios.drop 1) ++ List.replicate os.length "")).foldl (fun d (o, io) => stepOp d o io) d0
  let miss := if ios.length < os.length + 1 then [s!"[hang-or-abort] the implementation stopped after {ios.length - 1} of {os.length} operations: {ios.getLastD ""}"] else []
  let fails := d.fails ++ miss
  { modelOut := joinWith " | " (s!"n={n}" :: d.outs),
    spec := [("C01", fails.isEmpty, joinWith " ; " fails)],
    labels := d.labels.eraseDups }
end Oc.Driver.Rt
