import OcVerif.Util
import OcVerif.Model.Pool
/-! Line-protocol driver for `sleepers` (C15): the real event loop's turns against the pool model.
A hooked sleep of `d` ms is what `timed_wait_just` makes of it: parks of at most 10 ms each up to the
deadline, then one more yield with a wake-up time of "now"; with the clock stepping by a divisor of
10 ms the parks end exactly at their wake-up times, so the program of a sleeper is static. -/
namespace Oc.Driver.Sleepers
open Oc Oc.Pool

def ms : Nat := 1000000

def sleepProg (d : Nat) (ret : Nat) : List TStep :=
  List.replicate (d / 10) (.delay (10 * ms)) ++ (if d % 10 ≠ 0 then [.delay ((d % 10) * ms)] else []) ++ [.delay 0, .ret ret]

/-- a receiver started at t₀: the hooked recv parks in 10 ms slices; the peer's byte arrives at `a` ms.
If `a` is a slice boundary the retry at that boundary finds it, otherwise the readiness event of the
turn at `a` makes the coroutine runnable for the next turn. Then it sleeps `d` ms. -/
def recvThenSleep (a d step i : Nat) : List TStep :=
  [.delay ((if a % 10 = 0 then a else a + step) * ms)] ++ sleepProg d i

def parseTask (step i : Nat) (t : String) : List TStep :=
  let rest := (t.drop 1).toString.toNat?.getD 0
  if t.startsWith "V" then
    match (t.drop 1).toString.splitOn "x" with
    | [a, d] => recvThenSleep (a.toNat?.getD 0) (d.toNat?.getD 0) step i
    | _ => [.ret i]
  else if t.startsWith "Z" then sleepProg rest i
  else if t.startsWith "Y" then List.replicate rest .susp ++ [.ret i]
  else [.ret i]

/-- the tasks whose submission time has come and that are not submitted yet: (task index, program, at) -/
def submitDue (p : Pool) (t0 : Nat) (pending : List (Nat × List TStep × Nat)) : Pool × List (Nat × List TStep × Nat) :=
  pending.foldl (fun (acc : Pool × List (Nat × List TStep × Nat)) e =>
    if e.2.2 * ms + t0 ≤ acc.1.now then ((submit acc.1 e.2.1 0).1, acc.2) else (acc.1, acc.2 ++ [e])) (p, [])

/-- submit what is due; turn; record who finished at this clock value; advance -/
def simulate : Nat → Pool → Nat → Nat → List (Nat × Nat) → Nat → List (Nat × List TStep × Nat) → List (Nat × Nat) × Pool
  | 0, p, _, _, acc, _, _ => (acc, p)
  | f + 1, p, t0, step, acc, n, pending =>
    let sd := submitDue p t0 pending
    let p := sd.1
    let p1 := (pass p).getD p
    -- a task is identified by the value it returns (its index in the case), not by its submission order
    let newly := (p1.results.filterMap (fun e => match e.2 with | .ok v => some v | _ => none)).filter (fun v => !(acc.any (·.1 == v)))
      |>.map (fun v => (v, (p1.now - t0) / ms))
    let acc := acc ++ newly
    if acc.length ≥ n then (acc, p1) else simulate f { p1 with now := p1.now + step * ms } t0 step acc n sd.2

def drive (body impl : String) : Verdict :=
  let (cfg, tasksS) := match body.splitOn " ; " with
    | [a, b] => (a, b)
    | _ => ("1 1", "")
  let mx := ((words cfg).getD 0 "1").toNat?.getD 1
  let step := ((words cfg).getD 1 "1").toNat?.getD 1
  let tasksAt : List (String × Nat) := (words tasksS).map (fun w => match w.splitOn "@" with
    | [a, b] => (a, b.toNat?.getD 0)
    | _ => (w, 0))
  let tasks := tasksAt.map (·.1)
  let t0 := 1000000000
  let p0 : Pool := { maxSize := mx, now := t0 }
  let pending := (tasksAt.zipIdx).map (fun ((t, tat), i) => (i, parseTask step i t, tat))
  let (fin, pe) := simulate 400 p0 t0 step [] tasks.length pending
  let showFin := fun (l : List (Nat × Nat)) => joinWith "," ((List.range tasks.length).map (fun i =>
    match l.find? (·.1 == i) with | some e => s!"{i}:{e.2}" | none => s!"{i}:-"))
  let mo := s!"fin={showFin fin} run={pe.running}"
  -- the statement itself on the implementation's output: with a worker for every task, each sleeper
  -- is done at its own d — it did not wait for anybody else's sleep
  let kv := ((words impl).find? (fun w => w.startsWith "fin=")).map (fun w => (w.drop 4).toString)
  let ifin : List (Nat × Option Nat) := ((kv.getD "").splitOn ",").filterMap (fun e => match e.splitOn ":" with
    | [i, v] => i.toNat?.map (fun i => (i, v.toNat?))
    | _ => none)
  let abn := (words impl).any (fun w => w == "ABORT" || w == "HANG")
  let fails : List String :=
    (if abn then [s!"[hang-or-abort] {impl}"] else []) ++
    (if tasks.length ≤ mx then
      (tasksAt.zipIdx).filterMap (fun ((t, tat), i) =>
        if t.startsWith "Z" then
          let d := (t.drop 1).toString.toNat?.getD 0
          match (ifin.find? (·.1 == i)).bind (·.2) with
          | some f => if f > tat + d + step then some s!"[stalled-behind-a-sleeper] task {i} was submitted at {tat} ms, sleeps {d} ms and had a worker of its own, but finished only at {f} ms" else none
          | none => some s!"[never-finished] task {i} (sleep {d} ms) never finished"
        else none)
     else [])
  -- C14 on the implementation's output: nobody's sleep ends before its time (a sleep cannot begin before
  -- the task was submitted, a receiver's not before its byte arrived)
  let early : List String := (tasksAt.zipIdx).filterMap (fun ((t, tat), i) =>
    let body := (t.drop 1).toString
    let bound : Option Nat :=
      if t.startsWith "Z" then some (tat + body.toNat?.getD 0)
      else if t.startsWith "V" then (match body.splitOn "x" with
        | [a, d] => some (a.toNat?.getD 0 + d.toNat?.getD 0)
        | _ => none)
      else none
    match bound, (ifin.find? (·.1 == i)).bind (·.2) with
    | some b, some f => if f < b then some s!"[slept-too-short] task {i} (`{t}`) finished at {f} ms, its sleep cannot have ended before {b} ms" else none
    | _, _ => none)
  { modelOut := mo, spec := [("C15", fails.isEmpty, joinWith " ; " fails), ("C14", early.isEmpty, joinWith " ; " early)],
    labels := [if tasks.length ≤ mx then "room-for-all" else "rounds"] ++
              (if tasksAt.any (·.2 > 0) then ["late-arrivals"] else []) ++
              (if tasks.any (·.startsWith "V") then ["recv-then-sleep"] else []) ++
              (if tasks.any (·.startsWith "Y") then ["with-computing-tasks"] else []) ++
              (if tasks.any (fun t => t.startsWith "Z" && ((t.drop 1).toString.toNat?.getD 0) > 10) then ["multi-slice"] else ["single-slice"]) }
end Oc.Driver.Sleepers
