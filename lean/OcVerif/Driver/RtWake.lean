import OcVerif.Util
/-! Driver for `rtwake` (C20 on the wall clock, a started event loop): the prediction is what the
C20 theorems say about the selector — the readiness event carries the waiter's token, so the waiter
is woken by the poll that follows — together with the loop thread polling on every turn. -/
namespace Oc.Driver.RtWake
open Oc
def drive (body impl : String) : Verdict :=
  let w := (words body).filterMap String.toNat?
  let (busy, keep, mn) := (w.getD 0 0, w.getD 2 0, w.getD 3 0)
  let kv := (words impl).map (fun x => x.splitOn "=")
  let get := fun (k : String) => ((kv.find? (fun p => p.head? == some k)).bind (fun p => p[1]?)).getD "?"
  let abn := (words impl).any (fun x => x == "ABORT" || x == "HANG")
  let bad : List String :=
    (if abn then [s!"[hang-or-abort] {impl}"] else []) ++
    (if !abn ∧ get "got" != "3" then [s!"[waiter-not-woken] the descriptor became readable (3 bytes) but the hooked recv returned {get "got"} (another coroutine busy for {busy} ms, keep-alive {keep} ms, core workers {mn})"] else []) ++
    (if !abn ∧ get "got" == "3" ∧ get "late" != "0" then [s!"[woken-late] the coroutine waiting for the descriptor was resumed more than 1200 ms after it became readable (another coroutine busy for {busy} ms, keep-alive {keep} ms, core workers {mn})"] else [])
  { modelOut := "got=3 late=0", spec := [("C20", bad.isEmpty, joinWith " ; " bad)],
    labels := [if busy > 0 then "busy-neighbour" else "idle-loop", if keep > 0 then "keep-alive" else "no-keep-alive", if mn > 0 then "core-workers" else "no-core-workers"] }
end Oc.Driver.RtWake
