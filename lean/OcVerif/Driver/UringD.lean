import OcVerif.Util
/-! Driver for `uring` (C27): hooked calls through io_uring on the real event loops (harness built
with the repo's `io_uring` feature). The prediction is the content of the C27 theorems: every call
gets the result of its own submission, error completions come back as -1/errno, nobody is lost. -/
namespace Oc.Driver.UringD
open Oc

def drive (body impl : String) : Verdict :=
  let w := words body
  let num := fun (i : Nat) => (w.getD i "0").toNat?.getD 0
  let (loops, cos, threads, per) := (num 0, num 1, num 2, num 3)
  let mixFull := w.getD 4 "ok"
  let gap := mixFull.endsWith "+gap"
  let mix := (mixFull.replace "+gap" "")
  let ids := (List.range cos) ++ (List.range threads).map (· + 100)
  let bad := fun (id k : Nat) => mix == "err" || (mix == "mixed" && (id + k) % 3 == 0)
  let nbad := (ids.map (fun id => ((List.range per).filter (fun k => bad id k)).length)).sum
  let total := ids.length * per
  let mo := s!"ok={total - nbad} wrong=0 lost=0 errs={nbad}"
  let kv := (words impl).map (fun x => x.splitOn "=")
  let get := fun (k : String) => (((kv.find? (fun p => p.head? == some k)).bind (fun p => p[1]?)).bind String.toNat?).getD 0
  let abn := (words impl).any (fun x => x == "ABORT" || x == "HANG") || impl == ""
  let broken := abn || get "lost" > 0 || get "wrong" > 0 || get "ok" != total - nbad || get "errs" != nbad
  let fails : List String :=
    if !broken then []
    else if abn then [s!"[crash-or-hang] {body}: {impl}"]
    else [s!"[lost-or-foreign-result] {body}: expected {mo}, got {impl}"]
  { modelOut := mo, spec := [("C27", fails.isEmpty, joinWith " ; " fails)],
    labels := [if loops ≥ 2 then "loops-many" else "loops-1", if cos > 0 then "coroutine-callers" else "no-coroutines",
               if threads == 0 then "no-threads" else if threads == 1 then "thread-caller" else "thread-callers",
               s!"mix-{mix}"] ++ (if gap then ["gap-before-submit"] else []) }
end Oc.Driver.UringD
