import OcVerif.Util
import OcVerif.Model.TimeLimitCache
/-! Driver for `hookproc` (C19 at the level of a whole process that links the hook dylib): the
scenario is replayed on `Oc.TLCache` — the model `Props/C19.lean` proves its theorems about — with
the application's `close` as the model's (hooked) `close`. The limit the second `recv` applies is the
model's answer for that call; the rest is arithmetic on the case's own times. -/
namespace Oc.Driver.HookProc
open Oc Oc.TLCache

def kvs (impl : String) : String → String :=
  let kv := (words impl).map (fun x => x.splitOn "=")
  fun k => ((kv.find? (fun p => p.head? == some k)).bind (fun p => p[1]?)).getD "?"

/-- `nb`: a recv on an empty socket through the hook (C18): a descriptor the caller made non-blocking
answers at once with EAGAIN and stays non-blocking; a blocking one waits for its SO_RCVTIMEO and
stays blocking (`C18_nonblocking_never_waits`, `C18_flag_restored`). -/
def driveNb (blk lim impl : String) : Verdict :=
  let blocking := blk == "1"
  let limit := lim.toNat?.getD 0
  let mo := if blocking then s!"ret=-1:11 flag=0 at=limit" else "ret=-1:11 flag=1 at=now"
  let get := kvs impl
  let abn := (words impl).any (fun x => x == "ABORT" || x == "HANG" || x == "NOHELPER")
  let bad : List String :=
    if abn then [s!"[hang-or-abort] {impl}"] else
    (if !blocking ∧ get "at" != "now" then [s!"[nonblocking-waited] recv on a non-blocking descriptor (limit {limit} ms) did not return at once: {impl}"] else []) ++
    (if get "flag" != (if blocking then "0" else "1") then [s!"[flag-changed] recv left the descriptor {if blocking then "non-blocking" else "blocking"}: {impl}"] else []) ++
    (if get "ret" != "-1:11" then [s!"[wrong-answer] recv on an empty socket answered {get "ret"}"] else [])
  { modelOut := mo, spec := [("C18", bad.isEmpty, joinWith " ; " bad)], blame := some ["C18"],
    labels := ["process-level", if blocking then "nb.blocking" else "nb.nonblocking"] }

/-- `sl`: a timed call from a plain thread through the hook (C14): not early, not unboundedly late. -/
def driveSl (call ms impl : String) : Verdict :=
  let get := kvs impl
  let abn := (words impl).any (fun x => x == "ABORT" || x == "HANG" || x == "NOHELPER")
  let bad : List String :=
    if abn then [s!"[hang-or-abort] {impl}"] else
    (if get "at" == "early" then [s!"[early] {call}({ms} ms) through the hook returned before the requested time: {impl}"] else []) ++
    (if get "at" == "late" then [s!"[late] {call}({ms} ms) through the hook returned much later than requested: {impl}"] else []) ++
    (if get "ret" != "0" then [s!"[wrong-answer] {call}({ms} ms) returned {get "ret"}"] else [])
  { modelOut := "ret=0 at=requested", spec := [("C14", bad.isEmpty, joinWith " ; " bad)], blame := some ["C14"],
    labels := ["process-level", s!"sl.{call}"] }

def drive (body impl : String) : Verdict :=
  match words body with
  | ["nb", b, l] => driveNb b l impl
  | ["sl", c, m] => driveSl c m impl
  | [l, c, n, w] =>
    let (lim, newl, wr) := (l.toNat?.getD 0, n.toNat?.getD 0, w.toNat?.getD 0)
    let closing := c == "close"
    let f1 := 4
    let f2 := if closing then 4 else 6
    let ops : List Op :=
      [.openFd f1] ++ (if lim > 0 then [.setOpt f1 true true lim, .io f1 true] else []) ++
      (if closing then [.close f1] else []) ++ [.openFd f2] ++
      (if newl > 0 then [.setOpt f2 true true newl] else []) ++ [.io f2 true]
    let answers := run {} ops
    let applied := ((answers.getLast?.map (·.1)).getD none).getD U64MAX     -- ms, U64MAX = no limit
    let byData := wr > 0 ∧ (applied == U64MAX ∨ wr < applied)
    let second := if byData then "3:0 at=write" else "-1:11 at=newlimit"
    let mo := s!"reused={if closing then 1 else 0} first={if lim > 0 then "-1:11" else "-"} second={second}"
    let abn := (words impl).any (fun x => x == "ABORT" || x == "HANG" || x == "NOHELPER")
    let kv := (words impl).map (fun x => x.splitOn "=")
    let get := fun (k : String) => ((kv.find? (fun p => p.head? == some k)).bind (fun p => p[1]?)).getD "?"
    let bad : List String :=
      if abn then [s!"[hang-or-abort] {impl}"]
      else if get "reused" != (if closing then "1" else "0") then []   -- the OS did not hand the numbers out as assumed: nothing to judge
      else if s!"{get "second"} at={get "at"}" == second then []
      else if get "at" == "limit" then
        [s!"[stale-limit-after-close] a socket with SO_RCVTIMEO = {lim} ms was closed; the new socket that got its descriptor number ({if newl > 0 then s!"option set to {newl} ms" else "no option set"}) had its recv cut off after about {lim} ms: {impl}"]
      else [s!"[wrong-limit-applied] the socket's current SO_RCVTIMEO is {if applied == U64MAX then "unset" else s!"{applied} ms"}, data arrives after {wr} ms, but the recv behaved like this: {impl}"]
    { modelOut := mo, spec := [("C19", bad.isEmpty, joinWith " ; " bad)], blame := some ["C19"],
      labels := [if closing then "close-and-reuse" else "no-reuse", if lim > 0 then "old-limit" else "no-old-limit", if newl > 0 then "new-limit" else "no-new-limit"] }
  | _ => { modelOut := "BADCASE", spec := [("C19", false, "[badcase]")] }
end Oc.Driver.HookProc
