import OcVerif.Util
/-! Driver for `rtcancel` (C13 on a started runtime): a task is cancelled while it is in progress; the
prediction is `C13_cancel_frame` lifted to the runtime — whatever happens to the cancelled task (it
may be cancelled, or finish first), every other task finishes with its own value. -/
namespace Oc.Driver.RtCancel
open Oc
def drive (body impl : String) : Verdict :=
  let w := words body
  let n := (w.getD 1 "0").toNat?.getD 0
  let kv := (words impl).map (fun x => x.splitOn "=")
  let get := fun (k : String) => ((kv.find? (fun p => p.head? == some k)).bind (fun p => p[1]?)).getD "?"
  let abn := (words impl).any (fun x => x == "ABORT" || x == "HANG")
  let victim := get "victim"
  let bad : List String :=
    if abn then [s!"[hang-or-abort] {impl}"] else
    (if get "foreign" != "0" then [s!"[foreign-task-cancelled] task {w.getD 3 "?"} of {n} ({w.getD 2 "?"} work, {w.getD 0 "?"} loop(s)) was cancelled while in progress and {get "foreign"} *other* task(s) never finished (the cancelled task itself: {victim}): the cancel signal reached the thread while another coroutine was running on it"] else []) ++
    (if get "foreign" == "0" ∧ get "others" != s!"{n - 1}/{n - 1}" then [s!"[wrong-or-missing-result] the other tasks finished but {get "others"} returned their own value"] else []) ++
    -- the cancelled task itself: it either finished before the cancel took effect, or it never publishes a value
    (if victim == "cancelled" ∧ get "vjoin" == "value" then [s!"[cancelled-task-returned-value] the cancelled task never reached its end, yet its join returned a value"] else [])
  { modelOut := s!"others={n - 1}/{n - 1} victim={victim} foreign=0 vjoin={get "vjoin"}", spec := [("C13", bad.isEmpty, joinWith " ; " bad)], blame := some ["C13"],
    labels := [s!"work-{w.getD 2 ""}", if w.getD 0 "1" == "1" then "one-loop" else "several-loops", s!"victim-{victim}", s!"join-of-victim-{get "vjoin"}"] }
end Oc.Driver.RtCancel
