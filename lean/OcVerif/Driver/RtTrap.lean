import OcVerif.Util
/-! Driver for `rttrap` (C24 on a started runtime): one task commits a memory fault. Prediction from
`C24_contained` / `C24_others_unaffected`: every other task finishes with its own value and the loops
go on running tasks afterwards. (What the join of the faulting task itself returns — an error, or
nothing until its timeout — is observed, not judged.) -/
namespace Oc.Driver.RtTrap
open Oc
def drive (body impl : String) : Verdict :=
  let w := words body
  let n := (w.getD 1 "0").toNat?.getD 0
  let kv := (words impl).map (fun x => x.splitOn "=")
  let get := fun (k : String) => ((kv.find? (fun p => p.head? == some k)).bind (fun p => p[1]?)).getD "?"
  let abn := (words impl).any (fun x => x == "ABORT" || x == "HANG")
  let bad : List String :=
    if abn then [s!"[thread-died] a fault inside a task took the process down or hung it: {impl}"] else
    (if get "after" != "1" then [s!"[loop-dead-after-fault] after a task committed a memory fault ({w.getD 2 "?"}) the runtime no longer ran a newly submitted task ({body}: {impl})"] else []) ++
    (if get "others" != s!"{n - 1}/{n - 1}" then [s!"[others-affected] only {get "others"} of the other tasks finished with their own value"] else []) ++
    (if get "victim" == "value" then [s!"[fault-not-reported] the faulting task's join returned a value"] else [])
  { modelOut := s!"others={n - 1}/{n - 1} victim={get "victim"} after=1", spec := [("C24", bad.isEmpty, joinWith " ; " bad)], blame := some ["C24"],
    labels := ["runtime", s!"fault-{w.getD 2 ""}", if w.getD 0 "1" == "1" then "one-loop" else "several-loops", s!"join-of-victim-{get "victim"}"] }
end Oc.Driver.RtTrap
