import OcVerif.Util
import OcVerif.Model.Selector
/-! Line-protocol driver for `sel` (C20, C21). -/
namespace Oc.Driver.Sel
open Oc Oc.Sel

def showK (k : List (Fd × KEnt)) : String :=
  let rows := (k.map fun (fd, e) => (fd, s!"{fd}:{if e.r then "r" else ""}{if e.w then "w" else ""}:{e.tok}"))
  let sorted := [0, 1, 2].flatMap (fun i => (rows.filter (·.1 == i)).map (·.2))
  joinWith "," sorted

def kvOf (impl k : String) : Option String :=
  ((words impl).find? (fun w => w.startsWith (k ++ "="))).map (fun w => (w.drop (k.length + 1)).toString)

structure D where
  st : St := {}
  outs : List String := []
  fails : List (String × String) := []
  labels : List String := []
  /-- outstanding interests as requested through the API: fd ↦ (read wanted, write wanted, latest token) -/
  want : List (Fd × KEnt) := []
  /-- token of the latest read waiter / write waiter per descriptor -/
  rtok : List (Fd × Tok) := []
  wtok : List (Fd × Tok) := []

def wantSet (w : List (Fd × KEnt)) (fd : Fd) (f : KEnt → KEnt) : List (Fd × KEnt) :=
  let cur := (aget w fd).getD ⟨false, false, 0⟩
  let n := f cur
  if n.r || n.w then aset w fd n else adel w fd

def stepOp (d : D) (o io : String) : D :=
  let abn := (words io).any (fun w => w == "ABORT" || w == "HANG")
  if abn then { d with outs := d.outs ++ ["?"], fails := d.fails ++ [("C21", s!"[abort] {o}: {io}")] } else
  let op? : Option Op := match words o with
    | ["ar", s, t] => some (.addRead (s.toNat?.getD 0) (t.toNat?.getD 0))
    | ["aw", s, t] => some (.addWrite (s.toNat?.getD 0) (t.toNat?.getD 0))
    | ["dr", s] => some (.delRead (s.toNat?.getD 0))
    | ["dw", s] => some (.delWrite (s.toNat?.getD 0))
    | ["d", s] => some (.del (s.toNat?.getD 0))
    | ["close", s] => some (.close (s.toNat?.getD 0))
    | ["ev", s] => some (.ev (s.toNat?.getD 0))
    | _ => none
  match op? with
  | none => { d with outs := d.outs ++ ["BADOP"] }
  | some op =>
    let (s', ok, rd) := step d.st op
    let isEv := match op with | .ev _ => true | _ => false
    let m := s!"res={if ok then "ok" else "err"}{if isEv then " rd=" ++ joinWith "," (rd.map toString) else ""} k={showK s'.K}"
    -- what the API user has asked for so far
    let want := match op with
      | .addRead fd t => wantSet d.want fd (fun e => { e with r := true, tok := t })
      | .addWrite fd t => wantSet d.want fd (fun e => { e with w := true, tok := t })
      | .delRead fd => wantSet d.want fd (fun e => { e with r := false })
      | .delWrite fd => wantSet d.want fd (fun e => { e with w := false })
      | .del fd => adel d.want fd
      | .close fd => adel d.want fd
      | .ev _ => d.want
    -- C21 on the implementation's kernel table: interest = union of outstanding interests
    let ik := (kvOf io "k").getD ""
    let wantK := joinWith "," ([0, 1, 2].flatMap (fun i => match aget want i with
      | some e => [s!"{i}:{if e.r then "r" else ""}{if e.w then "w" else ""}"] | none => []))
    let implK := joinWith "," (((ik.splitOn ",").filter (· ≠ "")).map (fun row => joinWith ":" ((row.splitOn ":").take 2)))
    let f21 := if implK == wantK then [] else [("C21", s!"[interest-mismatch] after `{o}`: OS interest {implK} but outstanding interests are {wantK}")]
    -- C20: a readiness event carries the token of the coroutine that waits on that descriptor
    let rtok := match op with
      | .addRead fd t => aset d.rtok fd t
      | .delRead fd => adel d.rtok fd | .del fd => adel d.rtok fd | .close fd => adel d.rtok fd
      | _ => d.rtok
    let wtok := match op with
      | .addWrite fd t => aset d.wtok fd t
      | .delWrite fd => adel d.wtok fd | .del fd => adel d.wtok fd | .close fd => adel d.wtok fd
      | _ => d.wtok
    let f20 := match op with
      | .ev fd =>
        let ird := (kvOf io "rd").getD ""
        match aget rtok fd with
        | some t =>
          if ird == toString t then []
          else if (aget wtok fd).any (· != t) then
            [("C20", s!"[shared-token] descriptor {fd}: read waiter {t} and write waiter {(aget wtok fd).getD 0} share one registration; readiness reported [{ird}]")]
          else [("C20", s!"[wrong-token] readiness of descriptor {fd} reported token(s) [{ird}] but the waiting coroutine's token is {t}")]
        | none => []      -- nobody is waiting for this descriptor any more (interest persists until removed)
      | _ => []
    -- a delivered readable event wakes the read waiter: it is no longer outstanding
    let rtok := match op with
      | .ev fd => if ((kvOf io "rd").getD "") ≠ "" then adel rtok fd else rtok
      | _ => rtok
    let lab := match op with
      | .addRead fd _ => if has d.st.R fd then "ar.again" else if has d.st.W fd then "ar.upgrade" else "ar.new"
      | .addWrite fd _ => if has d.st.W fd then "aw.again" else if has d.st.R fd then "aw.upgrade" else "aw.new"
      | .delRead fd => if has d.st.R fd then (if has d.st.W fd then "dr.downgrade" else "dr.last") else "dr.noop"
      | .delWrite fd => if has d.st.W fd then (if has d.st.R fd then "dw.downgrade" else "dw.last") else "dw.noop"
      | .del fd => if has d.st.R fd || has d.st.W fd then "del" else "del.noop"
      | .close fd => if has d.st.R fd || has d.st.W fd then "close.registered" else "close.plain"
      | .ev _ => if rd.isEmpty then "ev.none" else "ev.wake"
    { st := s', outs := d.outs ++ [m], fails := d.fails ++ f20 ++ f21, labels := lab :: d.labels, want := want, rtok := rtok, wtok := wtok }

def drive (body impl : String) : Verdict :=
  let ops := splitTrim body "|"
  let outs := splitTrim impl "|"
  let outs := outs ++ List.replicate (ops.length - outs.length) ""
  let d := (ops.zip outs).foldl (fun d oi => stepOp d oi.1 oi.2) ({} : D)
  { modelOut := joinWith " | " d.outs,
    spec := ["C20", "C21"].map (fun p => let fs := d.fails.filter (·.1 == p); (p, fs.isEmpty, joinWith " ; " (fs.map (·.2)))),
    labels := d.labels.eraseDups }

end Oc.Driver.Sel
