import OcVerif.Util
import OcVerif.Model.Selector
/-! Line-protocol driver for `sel` (C20, C21). -/
namespace Oc.Driver.Sel
open Oc Oc.Sel

/-- slot `i` of the harness is descriptor `i + fdBase` of the model: real descriptors are never 0,
which matters because a missing TOKEN_FD entry makes `select` fall back to descriptor 0 -/
def fdBase : Nat := 10

def showK (k : List (Fd × KEnt)) : String :=
  let rows := (k.map fun (fd, e) => (fd, s!"{fd - fdBase}:{if e.r then "r" else ""}{if e.w then "w" else ""}:{e.tok}"))
  let sorted := [0, 1, 2].flatMap (fun i => (rows.filter (·.1 == i + fdBase)).map (·.2))
  joinWith "," sorted

def kvOf (impl k : String) : Option String :=
  ((words impl).find? (fun w => w.startsWith (k ++ "="))).map (fun w => (w.drop (k.length + 1)).toString)

structure D where
  st : St := {}
  outs : List String := []
  fails : List (String × String) := []
  labels : List String := []
  /-- outstanding interests as requested through the API: fd ↦ (read wanted, write wanted, latest token) -/
  want : List (Fd × KEnt) := []
  /-- token of the latest read waiter / write waiter per descriptor -/
  rtok : List (Fd × Tok) := []
  wtok : List (Fd × Tok) := []
  /-- descriptors on which a wait for writability was begun since the last poll -/
  freshW : List Fd := []
  /-- every (token, descriptor) pair used so far: a token stands for one coroutine, which waits on
  one descriptor at a time; histories that reuse a token on a second descriptor are outside C20's
  write-waiter expectation (TOKEN_FD maps a token to a single descriptor) -/
  used : List (Tok × Fd) := []

def wantSet (w : List (Fd × KEnt)) (fd : Fd) (f : KEnt → KEnt) : List (Fd × KEnt) :=
  let cur := (aget w fd).getD ⟨false, false, 0⟩
  let n := f cur
  if n.r || n.w then aset w fd n else adel w fd

def insertSorted (x : Nat) : List Nat → List Nat
  | [] => [x]
  | y :: ys => if x ≤ y then x :: y :: ys else y :: insertSorted x ys
def sortNat (l : List Nat) : List Nat := l.foldr insertSorted []

def stepOp (d : D) (o io : String) : D :=
  let abn := (words io).any (fun w => w == "ABORT" || w == "HANG")
  if abn then { d with outs := d.outs ++ ["?"], fails := d.fails ++ [("C21", s!"[abort] {o}: {io}")] } else
  let op? : Option Op := match words o with
    | ["ar", s, t] => some (.addRead ((s.toNat?.getD 0) + fdBase) (t.toNat?.getD 0))
    | ["aw", s, t] => some (.addWrite ((s.toNat?.getD 0) + fdBase) (t.toNat?.getD 0))
    | ["dr", s] => some (.delRead ((s.toNat?.getD 0) + fdBase))
    | ["dw", s] => some (.delWrite ((s.toNat?.getD 0) + fdBase))
    | ["d", s] => some (.del ((s.toNat?.getD 0) + fdBase))
    | ["close", s] => some (.close ((s.toNat?.getD 0) + fdBase))
    | ["ev", s] => some (.ev ((s.toNat?.getD 0) + fdBase))
    | _ => none
  match op? with
  | none => { d with outs := d.outs ++ ["BADOP"] }
  | some op =>
    let (s', ok, rd) := step d.st op
    let isEv := match op with | .ev _ => true | _ => false
    let wr : List Tok := match op with | .ev fd => sortNat (writableToks d.st fd) | _ => []
    let m := s!"res={if ok then "ok" else "err"}{if isEv then " rd=" ++ joinWith "," (rd.map toString) ++ " wr=" ++ joinWith "," (wr.map toString) else ""} k={showK s'.K}"
    -- what the API user has asked for so far
    let want := match op with
      | .addRead fd t => wantSet d.want fd (fun e => { e with r := true, tok := t })
      | .addWrite fd t => wantSet d.want fd (fun e => { e with w := true, tok := t })
      | .delRead fd => wantSet d.want fd (fun e => { e with r := false })
      | .delWrite fd => wantSet d.want fd (fun e => { e with w := false })
      | .del fd => adel d.want fd
      | .close fd => adel d.want fd
      | .ev _ => d.want
    -- C21 on the implementation's kernel table: interest = union of outstanding interests
    let ik := (kvOf io "k").getD ""
    let wantK := joinWith "," ([0, 1, 2].flatMap (fun i => match aget want (i + fdBase) with
      | some e => [s!"{i}:{if e.r then "r" else ""}{if e.w then "w" else ""}"] | none => []))
    let implK := joinWith "," (((ik.splitOn ",").filter (· ≠ "")).map (fun row => joinWith ":" ((row.splitOn ":").take 2)))
    let f21 := if implK == wantK then [] else [("C21", s!"[interest-mismatch] after `{o}`: OS interest {implK} but outstanding interests are {wantK}")]
    -- C20: a readiness event carries the token of the coroutine that waits on that descriptor
    let rtok := match op with
      | .addRead fd t => aset d.rtok fd t
      | .delRead fd => adel d.rtok fd | .del fd => adel d.rtok fd | .close fd => adel d.rtok fd
      | _ => d.rtok
    let wtok := match op with
      | .addWrite fd t => aset d.wtok fd t
      | .delWrite fd => adel d.wtok fd | .del fd => adel d.wtok fd | .close fd => adel d.wtok fd
      | _ => d.wtok
    let freshW := match op with
      | .addWrite fd _ => if (kvOf io "res").getD "" == "ok" then fd :: d.freshW.filter (· != fd) else d.freshW
      | .delWrite fd => d.freshW.filter (· != fd) | .del fd => d.freshW.filter (· != fd) | .close fd => d.freshW.filter (· != fd)
      | .ev _ => []
      | _ => d.freshW
    -- C20 for write waiters: a wait for writability begun since the last poll is woken by that poll
    -- (sockets are writable), with its own token
    let f20w := match op with
      | .ev _ =>
        let iwr := (((kvOf io "wr").getD "").splitOn ",").filterMap String.toNat?
        d.freshW.flatMap (fun f => match aget d.wtok f with
          | none => []
          | some t =>
            if iwr.contains t then []
            else if d.used.any (fun p => p.1 == t && p.2 != f) then []
            else if (aget d.rtok f).any (· != t) then
              [("C20", s!"[shared-token] descriptor {f - fdBase}: write waiter {t} and read waiter {(aget d.rtok f).getD 0} share one registration; writable events reported [{(kvOf io "wr").getD ""}]")]
            else [("C20", s!"[write-waiter-not-woken] descriptor {f - fdBase} is writable and coroutine {t} began waiting for that since the last poll, but the poll reported writable events only for [{(kvOf io "wr").getD ""}]")])
      | _ => []
    let f20 := f20w ++ match op with
      | .ev fd =>
        let ird := (kvOf io "rd").getD ""
        match aget rtok fd with
        | some t =>
          if ird == toString t then []
          else if (aget wtok fd).any (· != t) then
            [("C20", s!"[shared-token] descriptor {fd - fdBase}: read waiter {t} and write waiter {(aget wtok fd).getD 0} share one registration; readiness reported [{ird}]")]
          else [("C20", s!"[wrong-token] readiness of descriptor {fd - fdBase} reported token(s) [{ird}] but the waiting coroutine's token is {t}")]
        | none => []      -- nobody is waiting for this descriptor any more (interest persists until removed)
      | _ => []
    -- a delivered readable event wakes the read waiter: it is no longer outstanding
    let rtok := match op with
      | .ev fd => if ((kvOf io "rd").getD "") ≠ "" then adel rtok fd else rtok
      | _ => rtok
    let lab := match op with
      | .addRead fd _ => if has d.st.R fd then "ar.again" else if has d.st.W fd then "ar.upgrade" else "ar.new"
      | .addWrite fd _ => if has d.st.W fd then "aw.again" else if has d.st.R fd then "aw.upgrade" else "aw.new"
      | .delRead fd => if has d.st.R fd then (if has d.st.W fd then "dr.downgrade" else "dr.last") else "dr.noop"
      | .delWrite fd => if has d.st.W fd then (if has d.st.R fd then "dw.downgrade" else "dw.last") else "dw.noop"
      | .del fd => if has d.st.R fd || has d.st.W fd then "del" else "del.noop"
      | .close fd => if has d.st.R fd || has d.st.W fd then "close.registered" else "close.plain"
      | .ev _ => if rd.isEmpty then "ev.none" else "ev.wake"
    { st := s', outs := d.outs ++ [m], fails := d.fails ++ f20 ++ f21, labels := lab :: d.labels, want := want, rtok := rtok, wtok := wtok, freshW := freshW,
      used := match op with | .addRead fd t => (t, fd) :: d.used | .addWrite fd t => (t, fd) :: d.used | _ => d.used }

def drive (body impl : String) : Verdict :=
  let ops := splitTrim body "|"
  let outs := splitTrim impl "|"
  let outs := outs ++ List.replicate (ops.length - outs.length) ""
  let d := (ops.zip outs).foldl (fun d oi => stepOp d oi.1 oi.2) ({} : D)
  { modelOut := joinWith " | " d.outs,
    spec := ["C20", "C21"].map (fun p => let fs := d.fails.filter (·.1 == p); (p, fs.isEmpty, joinWith " ; " (fs.map (·.2)))),
    labels := d.labels.eraseDups }

end Oc.Driver.Sel
