import OcVerif.Util
import OcVerif.Model.Pool
/-! Line-protocol driver for `pool` (C11, C12, C13). -/
namespace Oc.Driver.Pool
open Oc Oc.Pool

def parseSteps (s : String) : List TStep :=
  (s.splitOn ",").filterMap (fun t =>
    let rest := (t.drop 1).toString
    if t == "S" then some .susp
    else if t.startsWith "D" then rest.toNat?.map .delay
    else if t == "P" then some .panic
    else if t == "C" then some .cancelSelf
    else if t == "N" then some .nest
    else if t.startsWith "R" then rest.toNat?.map .ret
    else none)

def showNested (l : List (Nat × Bool)) : String :=
  if l.isEmpty then "" else " nest=" ++ joinWith "," (l.map fun (t, ok) => s!"{t}:{if ok then "ok" else "rej"}")

def stChar : PState → String
  | .running => "R" | .stopping => "S" | .stopped => "X"

def showOutcome : Outcome → String
  | .ok v => s!"Ok({v})" | .none_ => "Ok(none)" | .err m => s!"Err({m.replace " " "_"})"

def rank : String → Nat
  | "R" => 0 | "S" => 1 | "X" => 2 | _ => 3

structure D where
  p : Oc.Pool.Pool
  outs : List String := []
  fails : List (String × String) := []
  labels : List String := []
  lastSt : String := "R"
  maxSeen : Nat
  cancelledQueued : List Nat := []     -- tasks cancelled while still queued
  accepted : List Nat := []
  startedImpl : List Nat := []
  parkedCancel : Bool := false          -- a cancel hit a task parked inside a worker
  cancelTargets : List Nat := []        -- tasks some `cancel` op named
  noWait : List Nat := []               -- tasks whose result was declared unwanted
  settled : Bool := false               -- the wind-down marker has passed

def kvOf (io k : String) : String :=
  (((words io).find? (fun w => w.startsWith (k ++ "="))).map (fun w => (w.drop (k.length + 1)).toString)).getD ""

def stepOp (d : D) (o io : String) : D :=
  let abn := (words io).any (fun w => w == "ABORT" || w == "HANG")
  if abn then { d with outs := d.outs ++ ["?"], fails := d.fails ++ [("C12", s!"[hang-or-abort] {o}: {io}")] } else
  let fin := fun (p : Oc.Pool.Pool) (s : String) => s!"{s} run={p.running} st={stChar p.state}"
  let (p', mo, lab) : Oc.Pool.Pool × String × String := match words o with
    | ["sub", prog, prio] =>
      let r := submit d.p (parseSteps prog) (prio.toInt?.getD 0)
      (r.1, if r.2 then "ok" else "rejected", if r.2 then "sub.ok" else "sub.rejected")
    | ["pass"] =>
      (match pass d.p with
       | none => (d.p, "started= err", "pass.err")
       | some p' => (p', s!"started={joinWith "." ((p'.started.drop d.p.started.length).map toString)}{showNested (p'.nested.drop d.p.nested.length)}",
                     if p'.dropped.length > d.p.dropped.length then "pass.drops-parked-cancel" else if p'.started.length > d.p.started.length then "pass.starts" else "pass.idle"))
    | ["adv", n] => ({ d.p with now := min U64MAX (d.p.now + n.toNat?.getD 0) }, "-", "adv")
    | ["cancel", k] =>
      let k := k.toNat?.getD 0
      if k < d.p.progs.length ∧ (d.p.progs.getD k []) ≠ [] then
        (cancelTask d.p k, "-", if (d.p.runningTasks.any (·.1 == k)) then "cancel.parked" else if d.p.tasks.vals.contains k then "cancel.queued" else "cancel.other")
      else (d.p, "-", "cancel.none")
    | ["stop"] => let r := stop d.p; (r.1, (if r.2 then "ok" else "err") ++ showNested (r.1.nested.drop d.p.nested.length), if r.2 then "stop.ok" else "stop.err")
    | ["max", n] => ({ d.p with maxSize := n.toNat?.getD 1 }, "-", "max")
    | ["co"] => let r := submitCo d.p; (r.1, if r.2 then "ok" else "rejected", if r.2 then "co.ok" else "co.rejected")
    | ["nowait", k] =>
      let k := k.toNat?.getD 0
      if k < d.p.progs.length ∧ (d.p.progs.getD k []) ≠ [] then
        (cleanResult d.p k, "-", if d.p.results.any (·.1 == k) then "nowait.takes-result" else if d.p.cancelTasks.contains k then "nowait.after-cancel" else "nowait.marks")
      else (d.p, "-", "nowait.none")
    | ["settle"] => (d.p, "-", "settle")
    | ["wait", k] =>
      let k := k.toNat?.getD 0
      if k < d.p.progs.length ∧ (d.p.progs.getD k []) ≠ [] then
        let r := wait d.p k
        (r.1, match r.2 with | .got o => showOutcome o | .timeout => "timeout" | .failed => "failed",
         match r.2 with | .got _ => "wait.got" | .timeout => "wait.timeout" | .failed => "wait.failed")
      else (d.p, "-", "wait.none")
    | _ => (d.p, "BADOP", "bad")
  -- specs on the implementation's own output
  let irun := (kvOf io "run").toNat?.getD 0
  let ist := kvOf io "st"
  let maxSeen := max d.maxSeen p'.maxSize
  let parked := d.parkedCancel || lab == "cancel.parked"
  let istarted := ((kvOf io "started").splitOn ".").filterMap String.toNat?
  let f11 : List (String × String) :=
    (if irun > maxSeen then [("C11", s!"[over-max] after `{o}` running size {irun} exceeds the maximum size {maxSeen}")] else []) ++
    -- exactness against the model's live-worker count (valid while model and implementation agree)
    (let live := (p'.workers.filter (·.alive)).length
     if irun ≠ live then
       (if p'.dropped.isEmpty then [("C11", s!"[running-mismatch] after `{o}` running size {irun} but {live} workers are alive")]
        else [("C11", s!"[running-leak-after-parked-cancel] after `{o}` running size {irun} but {live} workers are alive ({p'.dropped.length} dropped by a cancel while parked)")])
     else [])
  let f12 : List (String × String) :=
    (if rank ist < rank d.lastSt then [("C12", s!"[state-went-back] {d.lastSt} -> {ist} on `{o}`")] else []) ++
    (if (words o).head? == some "sub" ∧ d.lastSt ≠ "R" ∧ (words io).head? == some "ok" then [("C12", s!"[accepted-after-stop] `{o}` accepted in state {d.lastSt}")] else []) ++
    (let inest := ((kvOf io "nest").splitOn ",").filter (·.endsWith ":ok")
     if !inest.isEmpty ∧ ((words o).head? == some "stop" ∨ d.lastSt ≠ "R") then
       [("C12", s!"[accepted-while-stopping] during `{o}` (pool state {if (words o).head? == some "stop" then "S" else d.lastSt}) a task's own submission was accepted: {inest}")] else []) ++
    (if (words o).head? == some "stop" ∧ (words io).head? == some "ok" ∧ (irun ≠ 0 ∨ ist ≠ "X") then [("C12", s!"[stop-ok-unfinished] stop reported success with running={irun} state={ist}")] else []) ++
    (if (words o).head? == some "stop" ∧ (words io).head? == some "ok" ∧ !(d.accepted.all (fun t => d.startedImpl.contains t ∨ d.cancelledQueued.contains t))
       then [("C12", s!"[stop-ok-task-not-run] stop reported success but accepted tasks {d.accepted.filter (fun t => !(d.startedImpl.contains t ∨ d.cancelledQueued.contains t))} never ran")] else [])
  let f13 : List (String × String) :=
    ((istarted.filter (fun t => d.cancelledQueued.contains t)).map (fun t => ("C13", s!"[cancelled-task-ran] task {t} was cancelled before it started but ran"))) ++
    (match words o with
     | ["wait", k] =>
       let k := k.toNat?.getD 0
       -- a task cancelled while queued whose turn has passed must have a settled waiter
       (if d.cancelledQueued.contains k ∧ !(d.p.tasks.vals.contains k) ∧ (words io).head? == some "timeout" ∧ mo ≠ "timeout" then
         [("C13", s!"[waiter-unsettled] waiter of the cancelled task {k} is still blocked")] else []) ++
       -- after the wind-down, a task nobody cancelled (and that does not cancel itself) has a result
       (if d.settled ∧ d.accepted.contains k ∧ !(d.cancelTargets.contains k) ∧ !(d.noWait.contains k) ∧
           !((d.p.progs.getD k []).contains .cancelSelf) ∧ (words io).head? == some "timeout" ∧ mo ≠ "timeout" then
         [("C13", s!"[uncancelled-task-lost] task {k} was never cancelled and everything had time to finish, but it has no result (its waiter timed out)")] else []) ++
       (if d.p.droppedTasks.contains k ∧ !((d.p.progs.getD k []).contains .cancelSelf) ∧ !(d.noWait.contains k) ∧ (words io).head? == some "timeout" ∧ mo ≠ "timeout" then
         [("C13", s!"[waiter-unsettled-after-parked-cancel] task {k} was cancelled while suspended inside its worker; its waiter is never settled")] else [])
     | _ => [])
  let cq := match words o with
    | ["cancel", k] => if lab == "cancel.queued" then (k.toNat?.getD 0) :: d.cancelledQueued else d.cancelledQueued
    | _ => d.cancelledQueued
  let acc := if lab == "sub.ok" then d.accepted ++ [d.p.progs.length] else d.accepted
  { d with p := p', outs := d.outs ++ [fin p' mo], fails := d.fails ++ f11 ++ f12 ++ f13, labels := lab :: d.labels,
           lastSt := if ist == "" then d.lastSt else ist, maxSeen := maxSeen, cancelledQueued := cq, accepted := acc,
           startedImpl := d.startedImpl ++ istarted, parkedCancel := parked,
           cancelTargets := (match words o with | ["cancel", k] => (k.toNat?.getD 0) :: d.cancelTargets | _ => d.cancelTargets),
           noWait := (match words o with | ["nowait", k] => (k.toNat?.getD 0) :: d.noWait | _ => d.noWait),
           settled := d.settled || o == "settle" }

def drive (body impl : String) : Verdict :=
  match splitTrim body ";" with
  | [cfg, opsS] =>
    let mx := ((words cfg).getD 1 "1").toNat?.getD 1
    let ops := splitTrim opsS "|"
    let outs := splitTrim impl "|"
    let outs := outs ++ List.replicate (ops.length - outs.length) ""
    let d := (ops.zip outs).foldl (fun d oi => stepOp d oi.1 oi.2) ({ p := { maxSize := mx }, maxSeen := mx } : D)
    { modelOut := joinWith " | " d.outs,
      spec := ["C11", "C12", "C13"].map (fun p => let fs := d.fails.filter (·.1 == p); (p, fs.isEmpty, joinWith " ; " (fs.map (·.2)))),
      labels := d.labels.eraseDups }
  | _ => { modelOut := "BADCASE" }

end Oc.Driver.Pool
