import OcVerif.Util
import OcVerif.Model.Local
/-! Line-protocol driver for `local` (C25). Value ids are the op indices. -/
namespace Oc.Driver.Local
open Oc Oc.Local

def showO : Option Nat → String
  | some v => toString v
  | none => "none"

/-- The specification of C25 *is* a map per coroutine (`Model/Local.lean` is nothing else): an answer
that differs from the map's is a violation on this very history, not merely a disagreement. -/
def notMap (o io expect : String) : List String :=
  if io == expect ∨ io == "" then [] else
    [s!"[not-map-like] `{o}` answered {io}; a map holding exactly what this coroutine stored under that key answers {expect}"]

def drive (body impl : String) : Verdict :=
  let ops := splitTrim body "|"
  let outs := splitTrim impl "|"
  let outs := outs ++ List.replicate (ops.length - outs.length) ""
  let init : St × List String × List Nat × List String × List String := ({}, [], [], [], [])
  let (s, mouts, made, fails, labels) := ((ops.zip outs).zipIdx).foldl (fun acc (oi : (String × String) × Nat) =>
    let (s, mouts, made, fails, labels) := acc
    let ((o, io), i) := oi
    match words o with
    | ["put", c, k] =>
      let (c, k) := (c.toNat?.getD 0, k.toNat?.getD 0)
      if c ∈ s.dead then (s, mouts ++ ["dead"], made, fails, labels) else
      let r := step s (.put c k i)
      (r.1, mouts ++ [showO r.2], made ++ [i], fails ++ notMap o io (showO r.2), (if r.2.isSome then "put.overwrite" else "put.fresh") :: labels)
    | ["get", c, k] =>
      let (c, k) := (c.toNat?.getD 0, k.toNat?.getD 0)
      if c ∈ s.dead then (s, mouts ++ ["dead"], made, fails, labels) else
      let r := step s (.get c k)
      (r.1, mouts ++ [showO r.2], made, fails ++ notMap o io (showO r.2), (if r.2.isSome then "get.hit" else "get.miss") :: labels)
    | ["gms", c, k] =>
      let (c, k) := (c.toNat?.getD 0, k.toNat?.getD 0)
      if c ∈ s.dead then (s, mouts ++ ["dead"], made, fails, labels) else
      let r := step s (.getMutSet c k i)
      (r.1, mouts ++ [if r.2.isSome then "ok" else "none"], made ++ [i], fails ++ notMap o io (if r.2.isSome then "ok" else "none"), (if r.2.isSome then "gms.hit" else "gms.miss") :: labels)
    | ["rm", c, k] =>
      let (c, k) := (c.toNat?.getD 0, k.toNat?.getD 0)
      if c ∈ s.dead then (s, mouts ++ ["dead"], made, fails, labels) else
      let r := step s (.remove c k)
      (r.1, mouts ++ [showO r.2], made, fails ++ notMap o io (showO r.2), (if r.2.isSome then "rm.hit" else "rm.miss") :: labels)
    | ["drop", c] =>
      let c := c.toNat?.getD 0
      let had := (s.store.filter (fun e => e.1.1 == c)).length
      ((step s (.dropCo c)).1, mouts ++ ["-"], made, fails, (if had > 0 then "drop.with-values" else "drop.empty") :: labels)
    | ["end"] =>
      let s' := [0, 1, 2].foldl (fun s c => (step s (.dropCo c)).1) s
      -- the model's own prediction: every created value dropped exactly once
      let m := "drops=" ++ joinWith "," (made.map fun id => s!"{id}:{s'.drops.count id}")
      -- Spec on the implementation: each created value's destructor ran exactly once
      let bad := ((io.replace "drops=" "").splitOn ",").filter (fun e => e ≠ "" ∧ !e.endsWith ":1")
      let fails := if bad.isEmpty ∧ io.startsWith "drops=" then fails else
        fails ++ [s!"[drop-count] values not dropped exactly once (id:count): {bad}"]
      (s', mouts ++ [m], made, fails, labels)
    | _ => (s, mouts ++ ["BADOP"], made, fails, labels)) init
  let _ := s
  let abn := (words impl).any (fun w => w == "ABORT" || w == "HANG")
  let fails := if abn then fails ++ [s!"[abort] {impl.takeEnd 40}"] else fails
  { modelOut := joinWith " | " mouts, spec := [("C25", fails.isEmpty, joinWith " ; " fails)], labels := labels.eraseDups }

end Oc.Driver.Local
