import OcVerif.Util
import OcVerif.Model.Queue.Ordered
import OcVerif.Model.Queue.Plain
/-!
Line-protocol driver for the `oq` / `pq` components (C03–C06): steps the model along the
implementation's outputs, resolves the random steal start angelically, and evaluates the
executable specs on the implementation's history (with the model's residence up to the first
divergence).
-/
namespace Oc.Driver.Queue
open Oc Oc.Queue

/-- what the driver needs from a queue model -/
structure QIface (σ : Type) where
  init : Nat → Nat → σ
  nlocals : σ → Nat
  gpush : σ → Int → Item → σ
  gpop : σ → σ × Option Item
  lpush : σ → Nat → Int → Item → Option σ
  lpop : σ → Nat → Nat → σ × Option Item
  obs : σ → String
  slen : σ → Nat
  sharedItems : σ → List Item          -- pop order
  localItems : σ → Nat → List Item     -- pop order

def oqIface : QIface Sys where
  init := mk
  nlocals := fun s => s.locals.length
  gpush := pushShared
  gpop := popShared
  lpush := fun s i p x => pushLocal (pushFuel s i) s i p x
  lpop := popLocal
  obs := fun s =>
    let ls := s.locals.map (fun l => l.q.len)
    let tot := s.slen + ls.sum
    s!"g={s.slen} l={joinWith "," (ls.map toString)} all={tot} full={String.join (ls.map fun n => if n ≥ s.cap then "1" else "0")}"
  slen := fun s => s.slen
  sharedItems := fun s => s.shared.items.map (·.2)
  localItems := fun s i => match s.locals[i]? with | some l => l.q.items.map (·.2) | none => []

def pqIface : QIface Plain.PSys where
  init := Plain.mk
  nlocals := fun s => s.locals.length
  gpush := fun s _ x => Plain.pushShared s x
  gpop := Plain.popShared
  lpush := fun s i _ x => Plain.pushLocal s i x
  lpop := Plain.popLocal
  obs := fun s =>
    let ls := s.locals.map (fun l => l.items.length)
    s!"g={s.slen} l={joinWith "," (ls.map toString)} full={String.join (ls.map fun n => if n ≥ s.wcap then "1" else "0")}"
  slen := fun s => s.slen
  sharedItems := fun s => s.shared
  localItems := fun s i => match s.locals[i]? with | some l => l.items | none => []

structure DS (σ : Type) where
  st : σ
  inSync : Bool := true
  pushed : Nat := 0
  popped : List Item := []
  starve : List Nat := []
  fails : List (String × String) := []
  outs : List String := []
  labels : List String := []
  abnormal : Bool := false
  /-- properties whose correspondence the first divergence breaks -/
  blame : List String := []

def showOpt : Option Item → String
  | none => "none"
  | some x => toString x

def isAbn (tok : String) : Bool := tok.startsWith "HANG" || tok.startsWith "ABORT" || tok.startsWith "EXIT"

variable {σ : Type}

def fail (d : DS σ) (pid msg : String) : DS σ := { d with fails := d.fails ++ [(pid, msg)] }

def allResident (I : QIface σ) (s : σ) : List Item :=
  I.sharedItems s ++ (List.range (I.nlocals s)).flatMap (fun i => I.localItems s i)

/-- heads of every queue (the only C05-admissible pop results) -/
def heads (I : QIface σ) (s : σ) : List Item :=
  (I.sharedItems s).take 1 ++ (List.range (I.nlocals s)).flatMap (fun i => (I.localItems s i).take 1)

/-- global, model-independent part of C03 for one popped token -/
def globalPop (d : DS σ) (tok : String) (opDesc : String) : DS σ :=
  match tok.toNat? with
  | some x =>
    let d := if x ≥ d.pushed then fail d "C03" s!"[phantom] {opDesc} returned {x}, never pushed" else d
    let d := if d.popped.contains x then fail d "C03" s!"[duplicate] {opDesc} returned {x} twice" else d
    { d with popped := x :: d.popped }
  | none => d

/-- one pop (`which = none`: shared queue; `some i`: local queue `i`) against the impl token -/
def doPop (I : QIface σ) (d : DS σ) (which : Option Nat) (tok : String) : DS σ × String :=
  let opDesc := match which with | none => "gpop" | some i => s!"lpop {i}"
  if isAbn tok then
    (fail { d with abnormal := true, inSync := false, blame := ["C04"] } "C04" s!"[hang-or-abort] {opDesc}: {tok}", "?")
  else
  let d := globalPop d tok opDesc
  if !d.inSync then (d, "?") else
  let s := d.st
  -- candidate model results
  let cands : List (σ × Option Item) := match which with
    | none => [I.gpop s]
    | some i => (List.range (max 1 (I.nlocals s))).map (fun start => I.lpop s i start)
  let pick := match cands.find? (fun c => showOpt c.2 == tok) with
    | some c => c
    | none => cands.headD (s, none)
  let mout := showOpt pick.2
  let sharedBefore := I.sharedItems s
  -- starvation bookkeeping (C06): pops on local i that skip a non-empty shared queue
  let (d, starveFail) := match which with
    | some i =>
      let cur := d.starve.getD i 0
      let fromShared := match tok.toNat? with | some x => sharedBefore.take 1 == [x] | none => false
      let nxt := if sharedBefore.isEmpty || fromShared then 0 else cur + 1
      let st' := if i < d.starve.length then d.starve.set i nxt else d.starve
      ({ d with starve := st' }, decide (nxt ≥ 61))
    | none => (d, false)
  let d := if starveFail then fail d "C06" s!"[starved] {opDesc}: 61 consecutive pops on this local queue without serving the non-empty shared queue" else d
  let lab := match which, pick.2 with
    | none, none => "gpop.none" | none, some _ => "gpop.some"
    | some i, none => if (allResident I s).isEmpty then "lpop.none" else s!"lpop.none-with-work{i}"
    | some i, some x =>
      if sharedBefore.take 1 == [x] then "lpop.shared"
      else if (I.localItems s i).take 1 == [x] then "lpop.own" else "lpop.steal"
  let d := { d with labels := lab :: d.labels }
  if mout == tok then ({ d with st := pick.1 }, mout)
  else
    -- first divergence: classify with the model's residence
    let d := { d with inSync := false }
    let d := match tok.toNat? with
      | some x =>
        if !(allResident I s).contains x then
          fail { d with blame := ["C03"] } "C03" s!"[not-resident] {opDesc} returned {x} which the model does not hold (model: {mout})"
        else if !(heads I s).contains x then
          fail { d with blame := ["C05"] } "C05" s!"[not-head] {opDesc} returned {x} ahead of an earlier/higher-priority item of its queue (model: {mout})"
        else { d with blame := ["C06"] }     -- a head, but of another queue than the modelled policy picks
      | none =>
        if tok == "none" then
          match which with
          | some _ => if !(allResident I s).isEmpty then fail { d with blame := ["C06"] } "C06" s!"[idle] {opDesc} returned none while work is waiting (model: {mout})" else { d with blame := ["C06"] }
          | none => if !(I.sharedItems s).isEmpty then fail { d with blame := ["C03"] } "C03" s!"[shared-unreachable] gpop returned none with {(I.sharedItems s).length} items held (model: {mout})" else { d with blame := ["C03"] }
        else { d with blame := ["C03", "C04", "C05", "C06"] }
    (d, mout)

def stepOp (I : QIface σ) (d : DS σ) (o : String) (impl : String) : DS σ :=
  let push (d : DS σ) (s : String) : DS σ := { d with outs := d.outs ++ [s] }
  if isAbn impl && !(words o).head?.any (fun w => w == "lpop" || w == "gpop" || w == "drain") then
    push (fail { d with abnormal := true, inSync := false, blame := ["C04"] } "C04" s!"[hang-or-abort] {o}: {impl}") "?"
  else
  match words o with
  | "gpush" :: rest =>
    let p := (rest.head?.bind String.toInt?).getD 0
    let d := { d with st := I.gpush d.st p d.pushed, pushed := d.pushed + 1, labels := "gpush" :: d.labels }
    push d "-"
  | "gpop" :: _ =>
    let (d, m) := doPop I d none impl
    push d m
  | "lpush" :: i :: rest =>
    let i := i.toNat?.getD 0
    let p := (rest.head?.bind String.toInt?).getD 0
    if i ≥ I.nlocals d.st then push d "BADOP" else
    let full := (I.localItems d.st i).length
    match I.lpush d.st i p d.pushed with
    | some s' =>
      let lab := if (I.sharedItems s').length > (I.sharedItems d.st).length then
          (if (d.labels.contains "lpop.steal") then "lpush.overflow-after-steal" else "lpush.overflow") else "lpush.local"
      let _ := full
      push { d with st := s', pushed := d.pushed + 1, labels := lab :: d.labels } "-"
    | none => push (fail { d with inSync := false, pushed := d.pushed + 1 } "C04" "[model-hang] the model's push does not terminate") "HANG"
  | "lpop" :: i :: _ =>
    let i := i.toNat?.getD 0
    if i ≥ I.nlocals d.st then push d "BADOP" else
    let (d, m) := doPop I d (some i) impl
    push d m
  | ["obs"] =>
    if d.inSync then
      let m := I.obs d.st
      -- the shared counter belongs to C03; local lengths / fullness drive overflow and stealing (C04, C06)
      let d := if m == impl then d else
        let gOf := fun (t : String) => (words t).headD ""
        { d with inSync := false, blame := if gOf m != gOf impl then ["C03"] else ["C04", "C06"] }
      push { d with labels := "obs" :: d.labels } m
    else push d "?"
  | ["gcheck"] =>
    -- purely observable C03 clause: reported shared length = number of items it holds
    let d := match (impl.splitOn " ").map (fun w => (w.splitOn "=")) with
      | [["len", a], ["held", b]] => if a == b then d else fail d "C03" s!"[shared-len] shared queue reports {impl}"
      | _ => fail d "C03" s!"[shared-len] unreadable {impl}"
    if d.inSync then
      let m := s!"len={I.slen d.st} held={(I.sharedItems d.st).length}"
      let d := if m == impl then d else { d with inSync := false, blame := ["C03"] }
      push { d with labels := "gcheck" :: d.labels } m
    else push d "?"
  | ["drain"] =>
    let toks := (words impl).drop 1
    let n := I.nlocals d.st
    -- phase k < n: local k; phase n: shared; phase n+1: done
    let (d, mts, _) := toks.foldl (fun (acc : DS σ × List String × Nat) tok =>
      let (d, mts, ph) := acc
      if ph > n then (d, mts, ph) else
      let (d, m) := doPop I d (if ph < n then some ph else none) tok
      (d, mts ++ [m], if tok == "none" then ph + 1 else ph)) (d, [], 0)
    let d := if d.abnormal then d else
      -- after a full drain every pushed item has been popped exactly once
      let missing := (List.range d.pushed).filter (fun x => !d.popped.contains x)
      if missing.isEmpty then d else fail d "C03" s!"[lost] items never returned after a full drain: {missing.take 8}"
    push { d with labels := "drain" :: d.labels } ("drained " ++ joinWith " " mts)
  | _ => push d "BADOP"

def driveWith (I : QIface σ) (body impl : String) : Verdict :=
  match splitTrim body ";" with
  | [cfg, opsS] =>
    match words cfg with
    | ["cfg", n, cap] =>
      match n.toNat?, cap.toNat? with
      | some n, some cap =>
        let ops := splitTrim opsS "|"
        let outs := splitTrim impl "|"
        let outs := outs ++ List.replicate (ops.length - outs.length) ""
        let d0 : DS σ := { st := I.init n cap, starve := List.replicate n 0 }
        -- an abnormal end is reported as one extra trailing output; attach it to the op it cut short
        let (d, _) := (ops.zip outs).foldl (fun (acc : DS σ × Bool) (oi : String × String) =>
          let (d, stop) := acc
          if stop then (d, true) else
          let d' := stepOp I d oi.1 oi.2
          (d', d'.abnormal)) (d0, false)
        let props := ["C03", "C04", "C05", "C06"]
        { modelOut := joinWith " | " d.outs,
          spec := props.map (fun p =>
            let fs := d.fails.filter (·.1 == p)
            (p, fs.isEmpty, joinWith " ; " (fs.map (·.2)))),
          labels := d.labels.eraseDups,
          blame := if d.blame.isEmpty then none else some d.blame }
      | _, _ => { modelOut := "BADCASE" }
    | _ => { modelOut := "BADCASE" }
  | _ => { modelOut := "BADCASE" }

def driveOq (body impl : String) : Verdict := driveWith oqIface body impl
def drivePq (body impl : String) : Verdict := driveWith pqIface body impl

end Oc.Driver.Queue
