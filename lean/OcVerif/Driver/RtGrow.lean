import OcVerif.Util
/-! Driver for `rtgrow` (C23 on a started runtime): tasks recurse through `maybe_grow`, block in a hooked
sleep at the bottom (on a grown segment; with several loops they continue on another thread) and unwind.
Prediction from `C23_value` / `C23_restored`: every task returns its sum, the loops go on afterwards. -/
namespace Oc.Driver.RtGrow
open Oc
def drive (body impl : String) : Verdict :=
  let w := (words body).filterMap String.toNat?
  let n := w.getD 1 0
  let abn := (words impl).any (fun x => x == "ABORT" || x == "HANG")
  let mo := s!"ok={n}/{n} after=1"
  let bad : List String :=
    if abn then [s!"[abort-or-hang] {body}: {impl}"] else
    if impl == mo then [] else [s!"[wrong-value-or-stuck] {n} tasks recursing {w.getD 2 0} levels (frames of {w.getD 3 0} bytes) through maybe_grow with a hooked sleep at the bottom: {impl}"]
  { modelOut := mo, spec := [("C23", bad.isEmpty, joinWith " ; " bad)], blame := some ["C23"],
    labels := ["runtime", if w.getD 0 1 > 1 then "several-loops" else "one-loop", if w.getD 2 0 * w.getD 3 0 > 100000 then "grows" else "fits"] }
end Oc.Driver.RtGrow
