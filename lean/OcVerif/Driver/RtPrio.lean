import OcVerif.Util
import OcVerif.Model.Queue.Ordered
/-! Driver for `rtprio` (C05 on a started runtime): the tasks that queue up behind a busy loop are
replayed on the priority queue model (`PQ.push` / `PQ.popMin`, the one `Props/C05.lean` is about):
they start in the order in which that queue hands them out. -/
namespace Oc.Driver.RtPrio
open Oc Oc.Queue

def drain : Nat → PQ → List Nat → List Nat
  | 0, _, acc => acc.reverse
  | f + 1, q, acc => match q.popMin with
    | none => acc.reverse
    | some (_, i, q') => drain f q' (i :: acc)

def drive (body impl : String) : Verdict :=
  let w := words body
  let prios := ((w.getD 1 "").splitOn ",").filterMap String.toInt?
  let q : PQ := (prios.zipIdx).foldl (fun q (p, i) => q.push p i) []
  let order := drain (prios.length + 1) q []
  let mo := s!"order={joinWith "." (order.map toString)}"
  let abn := (words impl).any (fun x => x == "ABORT" || x == "HANG")
  let bad : List String :=
    if abn then [s!"[hang-or-abort] {impl}"] else
    if impl == mo then [] else [s!"[not-in-priority-order] tasks with priorities {w.getD 1 ""} queued behind a busy loop started as {impl}, the priority queue hands them out as {mo}"]
  { modelOut := mo, spec := [("C05", bad.isEmpty, joinWith " ; " bad)], blame := some ["C05"],
    labels := ["runtime", if prios.eraseDups.length < prios.length then "equal-priorities" else "distinct-priorities", s!"max{w.getD 0 ""}"] }
end Oc.Driver.RtPrio
