import OcVerif.Util
/-! Driver for `beans` (C26): real threads, compared with the content of `C26_unique` / `C26_stable`
(one instance per name, and it stays the registered one). -/
namespace Oc.Driver.Beans
open Oc
def drive (body impl : String) : Verdict :=
  let kv := (words impl).map (fun w => w.splitOn "=")
  let get := fun (k : String) => (kv.find? (fun p => p.head? == some k)).bind (fun p => p[1]?)
  let bad : List String :=
    (if get "distinct" == some "1" then [] else [s!"[duplicate-singleton] concurrent first use produced several instances of one named bean: {impl} (threads names rounds = {body})"]) ++
    (if get "stable" == some "1" then [] else [s!"[unstable-singleton] a later lookup returned another instance: {impl}"])
  { modelOut := "distinct=1 stable=1", spec := [("C26", bad.isEmpty, joinWith " ; " bad)],
    labels := [s!"threads{(words body).headD ""}"] }
end Oc.Driver.Beans
