import OcVerif.Util
import OcVerif.Spec.C28
/-! Line-protocol driver for the `time` component (C28). -/
namespace Oc.Driver.Time
open Oc Oc.Time

/-- model output, spec verdict on the implementation output, label -/
def op (o : String) (impl : String) : String × Bool × String :=
  match words o with
  | ["deadline", secs, nanos, now] =>
    match secs.toNat?, nanos.toNat?, now.toNat? with
    | some secs, some nanos, some now =>
      let d := secs * 1000000000 + nanos
      let m := deadline d now
      let ok := match impl.toNat? with
        | some v => Spec.C28.deadlineOk d now v
        | none => false
      (toString m, ok, if d + now > U64MAX then "deadline.sat" else "deadline.plain")
    | _, _, _ => ("BADOP", false, "bad")
  | ["slices", total, slice] =>
    match total.toNat?, slice.toNat? with
    | some total, some slice =>
      match slices total slice with
      | none => ("DIVERGES", true, "slices.diverge")   -- outside the property (zero slice)
      | some l =>
        let ok := match unrle impl with
          | some pieces => Spec.C28.slicesOk total slice pieces
          | none => false
        (rle l, ok, if total = 0 then "slices.zero" else if total % slice = 0 then "slices.exact" else "slices.rem")
    | _, _ => ("BADOP", false, "bad")
  | ["limit", sec, usec] =>
    match sec.toInt?, usec.toInt? with
    | some sec, some usec =>
      match timeLimit sec usec with
      | none => ("PANIC", true, "limit.negative")        -- property speaks about valid timevals only
      | some m =>
        let ok := match impl.toNat? with
          | some v => Spec.C28.limitOk sec.toNat usec.toNat v
          | none => false
        (toString m, ok, if sec = 0 ∧ usec = 0 then "limit.zero" else if m = U64MAX then "limit.sat" else "limit.plain")
    | _, _ => ("BADOP", false, "bad")
  | _ => ("BADOP", false, "bad")

def drive (body impl : String) : Verdict :=
  let ops := splitTrim body "|"
  let outs := splitTrim impl "|"
  let rs := (ops.zip (outs ++ List.replicate (ops.length - outs.length) "")).map (fun (o, i) => op o i)
  let bad := (rs.zip ops).filter (fun (r, _) => !r.2.1)
  { modelOut := joinWith " | " (rs.map (·.1)),
    spec := [("C28", bad.isEmpty, joinWith "; " (bad.map (·.2)))],
    labels := rs.map (·.2.2) }

end Oc.Driver.Time
