import OcVerif.Util
/-! Driver for `rtsock` (C16 end to end on a started runtime with the real kernel): the prediction is
`C16_spec_holds` composed over the calls of a transfer — every byte arrives once, in order — together
with the wake-ups of C20: every coroutine finishes. -/
namespace Oc.Driver.RtSock
open Oc
def drive (body impl : String) : Verdict :=
  let w := (words body).filterMap String.toNat?
  let pairs := w.getD 1 0
  let kv := (words impl).map (fun x => x.splitOn "=")
  let get := fun (k : String) => ((kv.find? (fun p => p.head? == some k)).bind (fun p => p[1]?)).getD "?"
  let abn := (words impl).any (fun x => x == "ABORT" || x == "HANG")
  let bad16 : List String :=
    if abn then [s!"[hang-or-abort] {impl}"] else
    (if get "unfinished" == "0" ∧ get "intact" != s!"{pairs}/{pairs}" then [s!"[bytes-lost-or-reordered] every coroutine finished but only {get "intact"} connections delivered their bytes complete and in order ({body})"] else [])
  let bad20 : List String :=
    if !abn ∧ get "unfinished" != "0" then [s!"[transfer-stuck] {get "unfinished"} coroutines were still waiting for their socket after the budget ({body})"] else []
  { modelOut := s!"intact={pairs}/{pairs} unfinished=0",
    spec := [("C16", bad16.isEmpty, joinWith " ; " bad16), ("C20", bad20.isEmpty, joinWith " ; " bad20)],
    labels := [if w.getD 0 1 > 1 then "several-loops" else "one-loop", if w.getD 3 0 < 100 then "tiny-chunks" else if w.getD 3 0 > 100000 then "huge-chunks" else "chunks", if w.getD 2 0 ≥ 512 then "buffers-fill-up" else "small-transfer"] }
end Oc.Driver.RtSock
