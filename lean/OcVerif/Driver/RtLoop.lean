import OcVerif.Util
/-! Driver for `rtloop` (C15 on the wall clock, pool configurations with keep-alive / core workers):
the prediction is the content of `C15_n_sleepers_done` — every sleeper has finished by t₀ + d (here:
within a generous margin), whatever idle workers the pool keeps. -/
namespace Oc.Driver.RtLoop
open Oc
def drive (body impl : String) : Verdict :=
  let w := (words body).filterMap String.toNat?
  let (n, d, c, keep, mn) := (w.getD 0 0, w.getD 1 0, w.getD 2 0, w.getD 3 0, w.getD 4 0)
  let kv := (words impl).map (fun x => x.splitOn "=")
  let get := fun (k : String) => ((kv.find? (fun p => p.head? == some k)).bind (fun p => p[1]?)).getD "?"
  let abn := (words impl).any (fun x => x == "ABORT" || x == "HANG")
  let bad : List String :=
    (if abn then [s!"[hang-or-abort] {impl}"] else []) ++
    (if !abn ∧ get "done" != toString (n + c) then [s!"[stalled-behind-a-sleeper] only {get "done"} of {n + c} tasks finished within {d} ms + 4 s ({n} sleepers of {d} ms, keep-alive {keep} ms, core workers {mn})"] else []) ++
    (if !abn ∧ get "done" == toString (n + c) ∧ get "late" != "0" then [s!"[sleepers-late] {n} sleepers of {d} ms on one loop with room for all finished more than 1200 ms late (keep-alive {keep} ms, core workers {mn})"] else [])
  { modelOut := s!"done={n + c} late=0", spec := [("C15", bad.isEmpty, joinWith " ; " bad)],
    labels := [if keep > 0 then "keep-alive" else "no-keep-alive", if mn > 0 then "core-workers" else "no-core-workers", if c > 0 then "with-computing" else "sleepers-only", if w.getD 5 1 > 1 then "several-loops" else "one-loop"] }
end Oc.Driver.RtLoop
