import OcVerif.Util
import OcVerif.Model.MultiPool
/-! Line-protocol driver for `mpool` (C11 across the pools of one process).  Which pool a started
worker is resumed by depends on the stealing order of the shared ready queue, which this driver does
not predict: the intermediate `pass` lines are taken as observed and only judged (every reported
size within the maximum).  The prediction is the content of `C11_multi_pool_quiescent`: once every
task has finished and every pool has been idle, every pool reports zero, and nothing hangs. -/
namespace Oc.Driver.MPool
open Oc

def kvOf (impl k : String) : Option String :=
  ((words impl).find? (fun w => w.startsWith (k ++ "="))).map (fun w => (w.drop (k.length + 1)).toString)

def drive (body impl : String) : Verdict :=
  match body.splitOn " ; " with
  | [cfg, opsS] =>
    let c := (words cfg).filterMap String.toNat?
    let k := c.headD 1
    let mx := c.getD 1 1
    let ops := splitTrim opsS "|"
    let outs := splitTrim impl "|"
    let outs := outs ++ List.replicate (ops.length - outs.length) ""
    let nsub := (ops.filter (fun o => o.startsWith "sub")).length
    let zeros := joinWith "," (List.replicate k "0")
    let (model, fails, labels, _) := (ops.zip outs).foldl (fun (acc : List String × List String × List String × Nat) oi =>
      let (m, f, l, subs) := acc
      let (o, io) := oi
      let abn := (words io).any (fun w => w == "ABORT" || w == "HANG" || w.startsWith "sig=")
      if abn then (m ++ ["?"], f ++ [s!"[hang-or-abort] `{o}` did not return: {io} (an idle worker that runs under a pool whose count is 0 never leaves its loop)"], l, subs) else
      match words o with
      | ["sub", _, y] => (m ++ ["ok"], f, (if y == "0" then "task.plain" else "task.yields") :: l, subs + 1)
      | ["pass", _, b] =>
        let runs := (((kvOf io "run").getD "").splitOn ",").filterMap String.toNat?
        let over := runs.filter (fun r => decide (r > mx))
        let f' := if over.isEmpty then f else f ++ [s!"[over-max] after `{o}` a pool reports {over.headD 0} running workers, its maximum is {mx}"]
        let lab := if runs.any (fun r => decide (r > 0)) then "pass.leaves-started-workers" else "pass.quiet"
        (m ++ [io], f', (if b == "1000" then "budget.long" else "budget.short") :: lab :: l, subs)
      | ["fin"] =>
        let runs := (((kvOf io "run").getD "").splitOn ",").filterMap String.toNat?
        let done := ((kvOf io "done").bind String.toNat?).getD 0
        let f1 := if done == nsub then [] else [s!"[unfinished-at-quiescence] {nsub - done} of {nsub} tasks had not finished after 60 idle rounds over all pools"]
        let f2 := if runs.all (· == 0) && runs.length == k then [] else
          [s!"[running-leak-across-pools] every task has finished and every pool has been idle, but the pools report running sizes [{(kvOf io "run").getD ""}] (a worker created by one pool finished under another)"]
        (m ++ [s!"run={zeros} done={nsub}"], f ++ f1 ++ f2, s!"pools{k}" :: l, subs)
      | _ => (m ++ ["BADOP"], f, l, subs)) ([], [], [], 0)
    { modelOut := joinWith " | " model,
      spec := [("C11", fails.isEmpty, joinWith " ; " fails)],
      labels := labels.eraseDups }
  | _ => { modelOut := "BADCASE", spec := [("C11", false, "[badcase]")] }

end Oc.Driver.MPool
