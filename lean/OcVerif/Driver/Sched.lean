import OcVerif.Util
import OcVerif.Model.Scheduler
/-! Line-protocol driver for `sched` (C10). -/
namespace Oc.Driver.Sched
open Oc Oc.Co Oc.Sched

def parseSteps (s : String) : List Step :=
  (s.splitOn ",").flatMap (fun t =>
    let rest := (t.drop 1).toString
    if t == "S" then [.susp 0]
    else if t.startsWith "U" then [.until_ 0 (rest.toNat?.getD 0)]
    else if t.startsWith "Y" then
      let ts := rest.toNat?.getD 0
      [.enter, .setSys (.susp ts), .until_ 0 ts, .setSys .exec, .exit]
    else if t.startsWith "K" then [.req (rest.toNat?.getD 0)]
    else if t.startsWith "P" then [.panic (rest.toNat?.getD 0)]
    else if t.startsWith "R" then [.ret (rest.toNat?.getD 0)]
    else [])

def showOutcome (i : Nat) : Outcome → String
  | .ok r => s!"{i}:Ok({r})"
  | .err m => s!"{i}:Err({m.replace " " "_"})"

/-- the value a program finishes with (for the C10 spec) -/
def expected (prog : String) : String :=
  match (prog.splitOn ",").getLast? with
  | some t => if t.startsWith "R" then s!"Ok({(t.drop 1).toString})" else if t.startsWith "P" then s!"Err({Oc.Co.panicMsg ((t.drop 1).toString.toNat?.getD 0)})" else "?"
  | none => "?"

structure D where
  s : Sch := { th := { now := 1000 } }
  progs : List String := []
  outs : List String := []
  fails : List String := []
  labels : List String := []
  /-- coroutines whose result has been reported -/
  reported : List Nat := []
  cancelled : List Nat := []
  /-- coroutines some program asks to cancel from inside its body (`K<j>` steps) -/
  targets : List Nat := []
  /-- `eq` case: several coroutines share a wake-up time, the order among them is unspecified -/
  sorted : Bool := false

def stepOp (d : D) (o io : String) : D :=
  let abn := (words io).any (fun w => w == "ABORT" || w == "HANG")
  if abn then { d with outs := d.outs ++ ["?"], fails := d.fails ++ [s!"[abort] {o}: {io}"] } else
  match words o with
  | ["eq"] => { d with sorted := true, outs := d.outs ++ ["-"], labels := "equal-deadlines" :: d.labels }
  | ["sub", prog, prio] =>
    let k := d.s.cos.length
    { d with s := submit d.s (parseSteps prog) (prio.toInt?.getD 0), progs := d.progs ++ [prog], outs := d.outs ++ [s!"id{k}"],
             targets := d.targets ++ ((prog.splitOn ",").filter (·.startsWith "K")).filterMap (fun t => (t.drop 1).toString.toNat?),
             labels := (if (prog.splitOn ",").any (·.startsWith "K") then ["sub.requests-cancel-in-slice"] else []) ++ d.labels }
  | ["adv", n] => { d with s := advance d.s (n.toNat?.getD 0), outs := d.outs ++ ["-"] }
  | ["cancel", k] =>
    let k := k.toNat?.getD 0
    if k < d.s.cos.length then { d with s := cancelCo d.s k, outs := d.outs ++ ["-"], cancelled := k :: d.cancelled, labels := "cancel" :: d.labels }
    else { d with outs := d.outs ++ ["-"] }
  | ["res", k] =>
    let k := k.toNat?.getD 0
    { d with s := tryResume d.s k, outs := d.outs ++ ["-"], labels := (if d.s.syscall.contains k then "try_resume.hit" else "try_resume.miss") :: d.labels }
  | ["pass"] =>
    let now := d.s.th.now
    -- who must / must not be resumed by this pass, from the model's parked sets (before the pass)
    let dueSusp := (d.s.suspend.filter (fun e => e.1 ≤ now)).map (·.2)
    let notDue := (d.s.suspend.filter (fun e => e.1 > now)).map (·.2) ++
                  ((d.s.sysSusp.filter (fun e => e.1 > now ∧ d.s.syscall.contains e.2)).map (·.2))
    let (s', po) := pass d.s
    let m := if po.failed then "passerr" else
      s!"resumed={joinWith "." ((if d.sorted then po.resumed.mergeSort (fun a b => a ≤ b) else po.resumed).map toString)} results={joinWith "," ((po.results.mergeSort (fun a b => a.1 ≤ b.1)).map fun (i, r) => showOutcome i r)}"
    -- C10 on the implementation's own output
    let field := fun (k : String) => (((words io).find? (fun w => w.startsWith (k ++ "="))).map (fun w => (w.drop (k.length + 1)).toString)).getD ""
    let ires := ((field "resumed").splitOn ".").filterMap String.toNat?
    let irs := ((field "results").splitOn ",").filter (· ≠ "")
    let irIds := irs.filterMap (fun r => (r.splitOn ":").head?.bind String.toNat?)
    let f1 := (irIds.filter (fun i => d.reported.contains i)).map (fun i => s!"[reported-twice] coroutine {i} reported again in a later pass")
    let f2 := irs.filterMap (fun r => match r.splitOn ":" with
      | [i, v] => let i := i.toNat?.getD 999
                  if v != expected (d.progs.getD i "") then some s!"[wrong-result] coroutine {i} reported {v}, its program ends with {expected (d.progs.getD i "")}" else none
      | _ => some s!"[wrong-result] unreadable {r}")
    let f3 := (notDue.filter (fun i => ires.contains i ∧ !dueSusp.contains i)).map (fun i => s!"[resumed-early] coroutine {i} resumed at {now} before its wake-up time")
    let f4 := (dueSusp.filter (fun i => !ires.contains i ∧ !d.s.cancel.contains i ∧ !d.targets.contains i)).map (fun i => s!"[not-resumed-when-due] coroutine {i} was due at {now} but this pass did not resume it")
    let f5 := (ires.filter (fun i => d.s.cancel.contains i ∧ !po.resumed.contains i)).map (fun i => s!"[resumed-after-cancel] cancelled coroutine {i} was resumed")
    let f6 := if io == "passerr" then [s!"[pass-failed] scheduling pass failed"] else []
    { d with s := s', outs := d.outs ++ [m], fails := d.fails ++ f1 ++ f2 ++ f3 ++ f4 ++ f5 ++ f6,
             reported := d.reported ++ irIds,
             labels := (if po.results.isEmpty then "pass.noresult" else "pass.results") ::
                       (if !dueSusp.isEmpty then ["pass.wakes-delayed"] else []) ++
                       (if !s'.dropped.isEmpty ∧ s'.dropped.length > d.s.dropped.length then ["pass.drops-cancelled"] else []) ++ d.labels }
  | _ => { d with outs := d.outs ++ ["BADOP"] }

def drive (body impl : String) : Verdict :=
  let ops := splitTrim body "|"
  let outs := splitTrim impl "|"
  let outs := outs ++ List.replicate (ops.length - outs.length) ""
  let d := (ops.zip outs).foldl (fun d oi => stepOp d oi.1 oi.2) ({} : D)
  -- every coroutine that was not cancelled finishes and is reported (the case ends with a long
  -- advance and a final pass)
  let missing := (List.range d.s.cos.length).filter (fun i => !d.reported.contains i ∧ !d.cancelled.contains i ∧ !d.targets.contains i)
  let fails := d.fails ++ (if missing.isEmpty then [] else [s!"[never-reported] coroutines {missing} never finished/reported although scheduling continued past every wake-up time"])
  { modelOut := joinWith " | " d.outs, spec := [("C10", fails.isEmpty, joinWith " ; " fails)], labels := d.labels.eraseDups }

end Oc.Driver.Sched
