import OcVerif.Util
import OcVerif.Model.Trap
/-! Line-protocol driver for `trap` (C24). Real faults happen with the stack pointer inside the
coroutine's (single) segment — the recorded segment includes the guard page — so the model's fault
steps carry an in-bounds stack pointer. -/
namespace Oc.Driver.Trap
open Oc Oc.Trap

def seg : Seg := ⟨1000000, 1000⟩
/-- a segment added by `maybe_grow` -/
def seg2 : Seg := ⟨3000000, 2000000⟩

def parseProg (s : String) : List Step :=
  (s.trimAscii.toString.splitOn ",").filterMap (fun t =>
    if t == "S" then some .susp
    else if t.startsWith "R" then (t.drop 1).toString.toNat?.map .ret
    else if t.startsWith "F" then some (.fault 5000)
    -- the fault happens while the coroutine runs on a grown segment: the stack pointer is inside it
    else if t.startsWith "G" then some (.fault 2005000)
    else none)

def showRes : Option TRes → String
  | some .susp => "Susp"
  | some (.complete r) => s!"Comp({r})"
  | some (.error m) => s!"Err({m.replace " " "_"})"
  | none => "BADOP"

def drive (body impl : String) : Verdict :=
  let parts := splitTrim body ";"
  let progs := parts.dropLast.map parseProg
  let sched := (words ((parts.getLastD "").replace "sched:" "")).map (fun x => x.toNat?.getD 0)
  let progStrs := parts.dropLast
  let cos : List TCo := (progs.zip progStrs).map (fun (p, str) => { segs := if str.contains "G" then [seg, seg2] else [seg], prog := p })
  -- which coroutines fault with a wild access (stack pointer inside the stack) rather than by overflow
  let wild : List Bool := progStrs.map (fun str => (str.splitOn ",").any (fun t => t == "Fnw" || t == "Fnr" || t == "Fwr" || t == "Gnw" || t == "Gnr" || t == "Gwr"))
  -- pure boundary queries: bottom-1, bottom, top-1, top, 0, max
  let bits := String.ofList ([seg.bottom - 1, seg.bottom, seg.top - 1, seg.top, 0, 18446744073709551615].map
    (fun sp => if inBounds [seg] sp then '1' else '0'))
  let rs := runSched cos sched
  let mouts := [s!"bounds={bits}"] ++ rs.map showRes ++ ["alive cur=0"]
  let outs := splitTrim impl "|"
  let abn := (words impl).any (fun w => w == "ABORT" || w == "HANG")
  -- Spec on the implementation: the thread survives; faulting coroutines end in Err(one of the two
  -- messages); healthy ones report exactly their own results
  let resOuts := (outs.drop 1).take sched.length
  let pairs := (rs.zip (resOuts ++ List.replicate (rs.length - resOuts.length) ""))
  let wildAt : List Bool := sched.map (fun c => wild.getD c false)
  let fails : List String :=
    (if !abn ∧ outs.getLast? == some "alive cur=1" then [s!"[stale-current-suspender] after a coroutine died of a fault the resuming thread still has that coroutine's suspender as its current one (it believes it is inside a coroutine)"] else []) ++
    (if abn ∨ !((outs.getLast?.getD "").startsWith "alive") then [s!"[thread-died] a fault inside a coroutine took the thread/process down: {impl.takeEnd 60}"] else []) ++
    (if outs.head? != some s!"bounds={bits}" then [s!"[bounds] stack_ptr_in_bounds at the segment boundaries: {outs.headD ""}, expected bounds={bits}"] else []) ++
    ((pairs.zip (wildAt ++ List.replicate (pairs.length - wildAt.length) false)).filterMap fun ((m, i), w) => match m with
      | some (.error _) => if w ∧ i == "Err(stack_overflow)" then
          some s!"[wrong-fault-message] a wild access with the stack pointer inside the coroutine's stack segments was reported as a stack overflow" else none
      | _ => none) ++
    (pairs.filterMap fun (m, i) => match m with
      | some (.error _) => if i == "Err(invalid_memory_reference)" ∨ i == "Err(stack_overflow)" then none
          else some s!"[fault-not-error] faulting coroutine reported {i}"
      | some r => if !abn ∧ showRes (some r) != i then some s!"[healthy-affected] a healthy coroutine reported {i}, expected {showRes (some r)}" else none
      | none => none)
  { modelOut := joinWith " | " mouts,
    spec := [("C24", fails.isEmpty, joinWith " ; " fails)],
    labels := (if rs.any (fun r => match r with | some (.error _) => true | _ => false) then ["fault"] else ["no-fault"]) ++
              (if cos.length > 1 then ["multi"] else ["single"]) ++
              (if body.contains "Fov" then ["overflow"] else []) ++
              (if body.contains "G" then ["fault-on-grown-segment"] else []) }

end Oc.Driver.Trap
