import OcVerif.Util
import OcVerif.Model.Coroutine
import OcVerif.Spec.C07
/-! Line-protocol driver for `co` (C07, C08, C09). -/
namespace Oc.Driver.Co
open Oc Oc.Co Oc.Spec.C07

def showSys : SysSt → String
  | .exec => "Exec" | .susp t => s!"Susp({t})" | .timeout => "Timeout" | .callback => "Callback"

def showSt : St → String
  | .ready => "Ready" | .running => "Running"
  | .suspend y t => s!"Susp({y},{t})"
  | .syscall y n s => s!"Sys({y},{n},{showSys s})"
  | .cancelled => "Canc"
  | .complete r => s!"Comp({r})"
  | .error m => s!"Err({(m.replace " " "_").replace ":" "_"})"

def showRes : Res → String
  | .state s => showSt s | .err => "Err" | .panic => "PANIC"

def showEv (e : Ev) : String := s!"{showSt e.old}>{showSt e.new}:{(e.cb.replace " " "_").replace ":" "_"}"

def parseStep (t : String) : Option Step :=
  let rest := (t.drop 1).toString
  let two := fun (f : Nat → Nat → Step) => match rest.splitOn ":" with
    | [a, b] => match a.toNat?, b.toNat? with | some a, some b => some (f a b) | _, _ => none
    | _ => none
  if t.startsWith "S" then rest.toNat?.map .susp
  else if t.startsWith "D" then two .delay
  else if t.startsWith "U" then two .until_
  else if t == "E" then some .enter
  else if t.startsWith "Ts" then ((t.drop 2).toString.toNat?).map (fun n => .setSys (.susp n))
  else if t == "Tc" then some (.setSys .callback)
  else if t == "Tt" then some (.setSys .timeout)
  else if t == "Te" then some (.setSys .exec)
  else if t == "W" then some .wrongSys
  else if t == "X" then some .exit
  else if t == "C" then some .cancel
  else if t.startsWith "P" then rest.toNat?.map .panic
  else if t.startsWith "R" then rest.toNat?.map .ret
  else none

def parseProg (s : String) : List Step :=
  if s.trimAscii.toString == "-" then [] else (s.trimAscii.toString.splitOn ",").filterMap parseStep

structure D where
  th : Th := { now := 1000 }
  cos : List Co
  outs : List String := []
  fails : List (String × String) := []
  labels : List String := []

def kvOf (impl k : String) : String :=
  match (words impl).find? (fun w => w.startsWith (k ++ "=")) with
  | some w => (w.drop (k.length + 1)).toString
  | none => ""

/-- per-coroutine observation state for the specs evaluated on the implementation's outputs -/
structure Obs where
  lastState : String := "Ready"      -- state after the previous resume of this coroutine
  terminal : Bool := false
  ranBody : Nat := 0                  -- resumes that reached the body (got one more parameter)

def drive (body impl : String) : Verdict :=
  let parts := splitTrim body ";"
  let progsS := parts.dropLast
  let sched := words ((parts.getLastD "").replace "sched:" "")
  let outs := splitTrim impl "|"
  let d0 : D := { cos := progsS.map (fun p => { prog := parseProg p }) }
  let step := fun (acc : D × List Obs) (eo : String × String) =>
    let (d, obs) := acc
    let (ent, io) := eo
    match (ent.splitOn ":").map String.toNat? with
    | [some c, some p, some adv] =>
      match d.cos[c]? with
      | none => ({ d with outs := d.outs ++ ["BADOP"] }, obs)
      | some co =>
        let th := { d.th with now := min U64MAX (d.th.now + adv) }
        let ev0 := co.events.length
        let (g0, l0) := (co.got.length, co.log.length)
        let (th', co', res) := resume th co p
        let mout := s!"res={showRes res} st={showSt co'.state} ev={joinWith ";" ((co'.events.drop ev0).map showEv)} got={joinWith "," ((co'.got.drop g0).map toString)} log={joinWith "," (co'.log.drop l0)} cur=0"
        -- specs on the implementation's own output `io`
        let o := obs.getD c {}
        let iev := kvOf io "ev"
        let ires := kvOf io "res"
        let ist := kvOf io "st"
        let igot := kvOf io "got"
        let abn := (words io).any (fun w => w == "HANG" || w == "ABORT") || io == ""
        -- C07: a finished coroutine reports nothing more, runs no user code, keeps its state
        let ievs := (iev.splitOn ";").filter (· ≠ "")
        let pairs := ievs.map (fun e => match ((e.splitOn ":").headD "").splitOn ">" with | [a, b] => (a, b) | _ => ("?", "?"))
        let chainBad := (pairs.zip (o.lastState :: pairs.map (·.2))).filter (fun (pr, prev) => pr.1 != prev)
        let f07 : List String :=
          (pairs.filter (fun pr => !legalStr pr.1 pr.2)).map (fun pr => s!"[illegal-edge] resume {ent}: reported change {pr.1} -> {pr.2} is not in the documented graph") ++
          -- the edge Suspend -> Ready/Running exists only once the wake-up time has come (the clock is the case's input)
          ((pairs.filter (fun pr => pr.1.startsWith "Susp(" && (pr.2 == "Running" || pr.2 == "Ready") &&
              (match (((pr.1.drop 5).toString.replace ")" "").splitOn ",") with
               | [_, t] => decide ((t.toNat?.getD 0) > th.now)
               | _ => false))).map (fun pr => s!"[left-suspend-early] resume {ent} at time {th.now}: reported change {pr.1} -> {pr.2} before the wake-up time")) ++
          (if chainBad.isEmpty ∨ abn then [] else [s!"[broken-chain] resume {ent}: reported changes do not link up: {iev} after state {o.lastState}"]) ++
          (if !abn ∧ ist ≠ (pairs.getLast?.map (·.2)).getD o.lastState then [s!"[unreported-change] resume {ent}: state is {ist} but the last reported state is {(pairs.getLast?.map (·.2)).getD o.lastState}"] else []) ++
          (if o.terminal ∧ (iev ≠ "" ∨ igot ≠ "" ∨ ist ≠ o.lastState) then [s!"[terminal-left] resume {ent}: finished coroutine changed: {io}"] else []) ++
          (if abn then [s!"[abort] resume {ent}: {io}"] else [])
        -- C08: the value passed to resume is what the body receives (exactly one per resume that runs the body)
        let f08 : List String :=
          (if igot ≠ "" ∧ igot ≠ toString p then [s!"[param] resume {ent}: body received {igot}, resumed with {p}"] else []) ++
          (if ires == "PANIC" ∧ res ≠ .panic then [s!"[unwound] resume {ent} unwound into the caller"] else []) ++
          -- what the body yields is what the resume reports: value and wake-up time of a timed yield
          (match co.prog.head?, (if co.done ∨ co.inCancel then none else some ()) with
           | some (.until_ y ts), some _ =>
             if res == .state (.suspend y ts) ∧ th.ts = [] ∧ th.cn = [] ∧ ires.startsWith "Susp" ∧ ires ≠ s!"Susp({y},{ts})" then
               [s!"[yield-misreported] resume {ent}: the body yielded until_with({y}, {ts}), the resume reported {ires}"] else []
           | some (.delay y dl), some _ =>
             if res == .state (.suspend y (min U64MAX (th.now + dl))) ∧ th.ts = [] ∧ th.cn = [] ∧ ires.startsWith "Susp" ∧ ires ≠ s!"Susp({y},{min U64MAX (th.now + dl)})" then
               [s!"[yield-misreported] resume {ent}: the body yielded delay_with({y}, {dl}) at time {th.now}, the resume reported {ires}"] else []
           | _, _ => []) ++
          -- outside coroutines the thread has no current suspender — also after a body panicked
          (if (words io).contains "cur=1" then [s!"[stale-current-suspender] after resume {ent} ({ires}) the thread still has a current suspender although no coroutine is running"] else [])
        -- C09: a plain suspend reports time 0 and not cancelled; a timed one its own time
        let f09 : List String :=
          match co.prog.head?, (if co.done ∨ co.inCancel then none else some ()) with
          | some (.susp y), some _ =>
            -- only when this resume really reaches that step first (no non-yield steps before it)
            if res == .state (.suspend y (th.ts.headD 0)) ∧ th.ts = [] ∧ th.cn = [] ∧ ires ≠ s!"Susp({y},0)" ∧ ires.startsWith "Susp" then
              [s!"[foreign-request] resume {ent}: plain suspend reported {ires}"] else []
          | _, _ => []
        let f09 := f09 ++ (if ires == "Canc" ∧ res ≠ .state .cancelled then [s!"[foreign-cancel] resume {ent}: reported cancelled without requesting it ({io})"] else [])
        let o' : Obs := { lastState := ist, terminal := ist.startsWith "Comp" || ist.startsWith "Err(" || ist == "Canc",
                          ranBody := o.ranBody + (if igot ≠ "" then 1 else 0) }
        let obs' := if c < obs.length then obs.set c o' else obs
        let lab := match res with
          | .state (.suspend _ t) => if t = 0 then "suspend.plain" else "suspend.timed"
          | .state (.syscall _ _ _) => "yield.in-syscall"
          | .state .cancelled => "cancelled"
          | .state (.complete _) => if co.state == co'.state then "terminal.again" else "complete"
          | .state (.error _) => if co.state == co'.state then "terminal.again" else "error"
          | .err => "err" | .panic => "panic" | _ => "other"
        ({ d with th := th', cos := d.cos.set c co', outs := d.outs ++ [mout],
                  fails := d.fails ++ (f07.map (("C07", ·))) ++ (f08.map (("C08", ·))) ++ (f09.map (("C09", ·))) ++
                           -- C13 at the level of the coroutines that run the tasks: a cancel consumed by another coroutine
                           ((f09.filter (·.startsWith "[foreign-cancel]")).map (("C13", ·))),
                  labels := lab :: d.labels }, obs')
    | _ => ({ d with outs := d.outs ++ ["BADOP"] }, obs)
  let outsP := outs ++ List.replicate (sched.length - outs.length) ""
  let (d, _) := (sched.zip outsP).foldl step (d0, List.replicate d0.cos.length {})
  -- C07 on the implementation's event strings: every reported change is an edge of the graph and links up
  let props := ["C07", "C08", "C09", "C13"]
  { modelOut := joinWith " | " d.outs,
    -- a disagreement of this component is about the coroutine itself, not about task cancellation
    blame := some ["C07", "C08", "C09"],
    spec := props.map (fun p => let fs := d.fails.filter (·.1 == p); (p, fs.isEmpty, joinWith " ; " (fs.map (fun f => f.2)))),
    labels := d.labels.eraseDups }

end Oc.Driver.Co
