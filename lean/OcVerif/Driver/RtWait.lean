import OcVerif.Util
/-! Driver for the wall-clock smoke `rtwait` (C14, implementation-vs-oracle only): the oracle is
`requested ≤ elapsed ≤ requested + slack` as measured by the harness. -/
namespace Oc.Driver.RtWait
open Oc
def drive (body impl : String) : Verdict :=
  let bad := if impl == "within" then [] else
    if impl.startsWith "early" then [s!"[rt-early] {body}: returned {impl} ns before the requested timeout"]
    else [s!"[rt-late-or-abnormal] {body}: {impl}"]
  { modelOut := "within", spec := [("C14", bad.isEmpty, joinWith " ; " bad)], labels := (words body).take 1 ++ [if (words body).length == 3 then (if (words body).getD 2 "" == "co1" then "coroutine-caller" else "coroutine-caller-several-loops") else "thread-caller"], blame := some [] }
end Oc.Driver.RtWait
