import OcVerif.Util
import OcVerif.Model.TimeLimitCache
/-! Line-protocol driver for `tlcache` (C19). Descriptor numbers and the kernel's stored option
values are environment facts taken from the implementation's outputs. -/
namespace Oc.Driver.TLCache
open Oc Oc.TLCache

structure D where
  st : St := {}
  slots : List (Nat × Nat × Nat) := []     -- slot, fd, peer fd
  outs : List String := []
  fails : List String := []
  labels : List String := []

def kvOf (impl k : String) : Option String :=
  ((words impl).find? (fun w => w.startsWith (k ++ "="))).map (fun w => (w.drop (k.length + 1)).toString)

def stepOp (d : D) (o impl : String) : D :=
  let push (d : D) (s : String) : D := { d with outs := d.outs ++ [s] }
  if d.fails.any (fun f => f.startsWith "[abort]") then push d "?" else
  if impl.startsWith "ABORT" || impl.startsWith "HANG" || impl.startsWith "EXIT" then
    push { d with fails := d.fails ++ [s!"[abort] {o}: {impl}"] } "?"
  else
  match words o with
  | ["open", s] =>
    let s := s.toNat?.getD 0
    match (kvOf impl "fd").map (fun v => v.splitOn ",") with
    | some [a, b] =>
      let (a, b) := (a.toNat?.getD 0, b.toNat?.getD 0)
      let st := (step (step d.st (.openFd a)).1 (.openFd b)).1
      let reused := d.labels.contains "close"
      push { d with st := st, slots := (s, a, b) :: d.slots.filter (·.1 != s), labels := (if reused then "open.after-close" else "open") :: d.labels } impl
    | _ => push d "NOSOCK"
  | ["set", s, w, _, _] =>
    let s := s.toNat?.getD 0
    match d.slots.find? (·.1 == s) with
    | none => push d "NOSLOT"
    | some (_, fd, _) =>
      let ok := kvOf impl "r" == some "0"
      let kval := ((kvOf impl "k").bind String.toNat?).getD 0
      let st := (step d.st (.setOpt fd (w == "rcv") ok kval)).1
      let again := d.labels.contains s!"set.{s}.{w}"
      push { d with st := st, labels := (if again then "set.repeat" else s!"set.{s}.{w}") :: d.labels } impl
  | ["io", s, w] =>
    let s := s.toNat?.getD 0
    match d.slots.find? (·.1 == s) with
    | none => push d "NOSLOT"
    | some (_, fd, _) =>
      let r := step d.st (.io fd (w == "rcv"))
      let k := ((kvOf impl "k").bind String.toNat?).getD 0
      let lim := (kvOf impl "limit").bind String.toNat?
      -- Spec on the implementation: the applied limit is the kernel's current option value
      let d := if lim == some k then d else
        { d with fails := d.fails ++ [s!"[stale-limit] {o}: applied {lim} but the socket's option value is {k}"] }
      let hit := (d.st.cache (fd, w == "rcv")).isSome
      push { d with st := r.1, labels := (if hit then "io.cached" else "io.miss") :: d.labels } s!"limit={r.2.getD 0} k={k}"
  | ["close", s] =>
    let s := s.toNat?.getD 0
    match d.slots.find? (·.1 == s) with
    | none => push d "NOSLOT"
    | some (_, a, b) =>
      let st := (step (step d.st (.close a)).1 (.close b)).1
      push { d with st := st, slots := d.slots.filter (·.1 != s), labels := "close" :: d.labels } impl
  | _ => push d "BADOP"

def drive (body impl : String) : Verdict :=
  let ops := splitTrim body "|"
  let outs := splitTrim impl "|"
  let outs := outs ++ List.replicate (ops.length - outs.length) ""
  let d := (ops.zip outs).foldl (fun d oi => stepOp d oi.1 oi.2) ({} : D)
  { modelOut := joinWith " | " d.outs,
    spec := [("C19", d.fails.isEmpty, joinWith " ; " d.fails)],
    labels := d.labels.eraseDups.filter (fun l => !l.startsWith "set.0" && !l.startsWith "set.1" && !l.startsWith "set.2" && !l.startsWith "set.3") }

end Oc.Driver.TLCache
