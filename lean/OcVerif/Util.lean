/-! Small parsing / printing helpers for the line protocol (core Lean only). -/
namespace Oc

def splitTrim (s : String) (sep : String) : List String :=
  (s.splitOn sep).map (fun x => x.trimAscii.toString)

def words (s : String) : List String :=
  (s.trimAscii.toString.splitOn " ").filter (fun w => w ≠ "")

def joinWith (sep : String) (xs : List String) : String :=
  String.intercalate sep xs

/-- result of running one case through a component driver -/
structure Verdict where
  /-- the model's canonical output for the same case body -/
  modelOut : String
  /-- `(property id, holds on the implementation's history, detail)` -/
  spec : List (String × Bool × String) := []
  /-- branch labels hit by the model on this case -/
  labels : List String := []
  /-- if the model's and the implementation's outputs differ: the properties whose correspondence
  that difference breaks (`none` = every property this component serves) -/
  blame : Option (List String) := none

end Oc

namespace Oc
/-- run-length encode a list of naturals as `v*n,v*n;` -/
def rleAux : List Nat → Option (Nat × Nat) → List String → List String
  | [], none, acc => acc.reverse
  | [], some (v, n), acc => (s!"{v}*{n}" :: acc).reverse
  | x :: xs, none, acc => rleAux xs (some (x, 1)) acc
  | x :: xs, some (v, n), acc =>
    if x = v then rleAux xs (some (v, n + 1)) acc else rleAux xs (some (x, 1)) (s!"{v}*{n}" :: acc)

def rle (l : List Nat) : String := String.intercalate "," (rleAux l none []) ++ ";"

/-- decode `v*n,v*n;` -/
def unrle (s : String) : Option (List Nat) :=
  let body := (s.trimAscii.toString.splitOn ";").headD ""
  if body = "" then some [] else
  (body.splitOn ",").foldl (fun acc seg =>
    match acc, seg.splitOn "*" with
    | some l, [v, n] => match v.toNat?, n.toNat? with
      | some v, some n => some (l ++ List.replicate n v)
      | _, _ => none
    | _, _ => none) (some [])

def boolStr (b : Bool) : String := if b then "1" else "0"
end Oc
