/-!
Model of the producer side of the io_uring submission queue as `core/src/net/operator/linux/mod.rs`
uses it (`push_sq`, the backlog loop of `do_select`): every push goes through its own
`submission_shared()` view, which copies the shared tail when it is created, writes the entry at its
*local* tail, and publishes the local tail when it is dropped.

`Step.create/push/sync` are the three parts of one `push_sq`; the code after the repair runs them
under the backlog lock (`pushLocked`: nothing of another producer in between), the code before it
let the parts of different threads interleave freely.
-/
namespace Oc.UringSq

structure Ring where
  /-- published tail: entries below it are what the kernel will submit -/
  tail : Nat := 0
  /-- slot contents: index ↦ entry -/
  slots : List (Nat × Nat) := []
  /-- per producer (thread): the local tail of its open view -/
  views : List (Nat × Nat) := []
deriving Repr, DecidableEq

def slotAt (r : Ring) (i : Nat) : Option Nat := (r.slots.find? (·.1 == i)).map (·.2)
def viewOf (r : Ring) (p : Nat) : Option Nat := (r.views.find? (·.1 == p)).map (·.2)

inductive Step where
  | create (p : Nat)            -- `submission_shared()`: local tail := shared tail
  | push (p : Nat) (e : Nat)    -- write the entry at the local tail, advance it
  | sync (p : Nat)              -- drop of the view: shared tail := local tail
deriving Repr, DecidableEq

def step (r : Ring) : Step → Ring
  | .create p => { r with views := (p, r.tail) :: r.views.filter (·.1 != p) }
  | .push p e =>
    match viewOf r p with
    | some t => { r with slots := (t, e) :: r.slots.filter (·.1 != t), views := (p, t + 1) :: r.views.filter (·.1 != p) }
    | none => r
  | .sync p =>
    match viewOf r p with
    | some t => { r with tail := t, views := r.views.filter (·.1 != p) }
    | none => r

def run (r : Ring) (ss : List Step) : Ring := ss.foldl step r

/-- one whole `push_sq` with nothing in between (what the backlog lock guarantees) -/
def pushLocked (r : Ring) (pe : Nat × Nat) : Ring := run r [.create pe.1, .push pe.1 pe.2, .sync pe.1]

/-- the entries the kernel will see, in order -/
def submitted (r : Ring) : List (Option Nat) := (List.range r.tail).map (slotAt r)

end Oc.UringSq
