/-!
Model of the io_uring result routing (`core/src/net/event_loop.rs`: `impl_io_uring!`,
`adapt_io_uring`, `syscall_wait_table`; `core/src/syscall/unix/mod.rs`: `impl_io_uring*`):

* a call registers an empty result slot under its token, then hands the request (tagged with the
  token) to the kernel — two separate steps, other threads may run in between;
* the kernel completes pending requests in any order, at any time after they were handed over,
  with any result (`≥ 0` a count, `< 0` a negated errno);
* the loop thread takes a completion: if a slot is registered under its token it removes the slot
  from the table, fills it and wakes the caller — otherwise the completion is dropped;
* the caller, once its slot is filled, returns: a negative result becomes `-1` with `errno = -result`.

`slotFirst = false` is the order the code had before the `fix:` commit (submit, then register).
A token identifies one caller (a coroutine id, or thread × call name), and a caller has at most one
call in flight — that is what `Call.caller` being the token expresses.
-/
namespace Oc.Uring

/-- where a call is -/
inductive Pc where
  | start | half | waiting | returned (ret : Int) (errno : Nat)
deriving Repr, DecidableEq

structure Sys where
  /-- registered result slots: token ↦ filled value -/
  table : List (Nat × Option Int) := []
  /-- slots already taken out of the table by the loop thread, filled: token ↦ value (the caller holds the Arc) -/
  filled : List (Nat × Int) := []
  /-- requests in the kernel: token -/
  kernel : List Nat := []
  /-- completions dropped because no slot was registered -/
  dropped : List (Nat × Int) := []
  /-- ghost: every completion the loop thread has taken, (token, result) -/
  answered : List (Nat × Int) := []
  /-- per caller (token): program counter -/
  pcs : List (Nat × Pc) := []
  slotFirst : Bool := true
deriving Repr, DecidableEq

def pcOf (σ : Sys) (t : Nat) : Pc := ((σ.pcs.find? (·.1 == t)).map (·.2)).getD .start
def setPc (σ : Sys) (t : Nat) (p : Pc) : Sys := { σ with pcs := (t, p) :: σ.pcs.filter (·.1 != t) }

def keys {α : Type} (l : List (Nat × α)) : List Nat := l.map (·.1)

inductive Act where
  | call (t : Nat)                 -- caller `t` takes its next step
  | complete (t : Nat) (res : Int) -- the kernel completes `t`'s request and the loop thread takes the completion
deriving Repr, DecidableEq

def toRet (res : Int) : Pc := if res < 0 then .returned (-1) (-res).toNat else .returned res 0

def step (σ : Sys) : Act → Option Sys
  | .call t =>
    match pcOf σ t with
    | .start =>
      if σ.slotFirst then some (setPc { σ with table := (t, none) :: σ.table } t .half)
      else some (setPc { σ with kernel := t :: σ.kernel } t .half)
    | .half =>
      if σ.slotFirst then some (setPc { σ with kernel := t :: σ.kernel } t .waiting)
      else some (setPc { σ with table := (t, none) :: σ.table } t .waiting)
    | .waiting =>
      match σ.filled.find? (·.1 == t) with
      | some (_, v) => some (setPc { σ with filled := σ.filled.filter (·.1 != t) } t (toRet v))
      | none => none          -- blocked until its slot is filled
    | .returned _ _ => none
  | .complete t res =>
    if σ.kernel.contains t then
      if σ.table.any (·.1 == t) then
        some { σ with kernel := σ.kernel.erase t, table := σ.table.filter (·.1 != t), filled := (t, res) :: σ.filled, answered := (t, res) :: σ.answered }
      else some { σ with kernel := σ.kernel.erase t, dropped := (t, res) :: σ.dropped, answered := (t, res) :: σ.answered }
    else none

inductive Reach (σ0 : Sys) : Sys → Prop
  | refl : Reach σ0 σ0
  | step {σ σ' : Sys} (a : Act) : Reach σ0 σ → step σ a = some σ' → Reach σ0 σ'

def run (σ : Sys) : List Act → Option Sys
  | [] => some σ
  | a :: as => match step σ a with
    | none => none
    | some σ' => run σ' as

end Oc.Uring
