/-!
Model of signal-based preemption (`core/src/monitor.rs`, feature `preemptive`, unix):

* `MonitorListener::on_state_changed`: a coroutine becoming `Running` on thread `th` at time `now`
  inserts the node `(now + SLICE, th)` into the notify queue; becoming `Suspend`, `Syscall`,
  `Cancelled`, `Complete` or `Error` removes that coroutine's node;
* the monitor thread scans the queue (about every millisecond) and sends SIGURG to the thread of
  every node whose time has come — it only reads the queue;
* `sigurg_handler` on the signalled thread: nothing unless the thread's current coroutine is in the
  `Running` state; then it suspends that coroutine (which goes back to the ready queue).

Time is a parameter (`now`), signal delivery may be late (a signal can arrive after the coroutine
has changed state), several scheduling threads share the one queue.
-/
namespace Oc.Preempt

def SLICE : Nat := 10000000

inductive CState where
  | ready | running | suspended | syscall | done
deriving Repr, DecidableEq

structure Node where
  ts : Nat
  th : Nat
deriving Repr, DecidableEq

/-- per scheduling thread: the state of its current coroutine and that coroutine's node -/
structure Th where
  st : CState := .ready
  node : Option Node := none
  /-- how often the handler has suspended this thread's coroutine -/
  preempted : Nat := 0
deriving Repr, DecidableEq

structure Sys where
  queue : List Node := []
  ths : List Th
deriving Repr, DecidableEq

def remove (q : List Node) (n : Node) : List Node := q.filter (· != n)
def insert (q : List Node) (n : Node) : List Node := if q.contains n then q else n :: q

/-- the listener: the current coroutine of thread `t` changes to state `s` at time `now` -/
def change (σ : Sys) (t : Nat) (s : CState) (now : Nat) : Sys :=
  match σ.ths[t]? with
  | none => σ
  | some x =>
    match s with
    | .ready => { σ with ths := σ.ths.set t { x with st := .ready } }
    | .running =>
      { queue := insert σ.queue ⟨now + SLICE, t⟩, ths := σ.ths.set t { x with st := .running, node := some ⟨now + SLICE, t⟩ } }
    | s' =>
      { queue := match x.node with | some n => remove σ.queue n | none => σ.queue,
        ths := σ.ths.set t { x with st := s' } }

/-- one scan of the monitor thread: the threads it signals -/
def scan (σ : Sys) (now : Nat) : List Nat := (σ.queue.filter (fun n => decide (n.ts ≤ now))).map (·.th)

/-- the signal handler on thread `t` (whenever the signal is delivered) -/
def handler (σ : Sys) (t : Nat) : Sys :=
  match σ.ths[t]? with
  | none => σ
  | some x =>
    if x.st = .running then
      -- `suspender.suspend()`: the coroutine yields; `raw_resume` reports Suspend, the listener removes its node
      { queue := match x.node with | some n => remove σ.queue n | none => σ.queue,
        ths := σ.ths.set t { x with st := .suspended, preempted := x.preempted + 1 } }
    else σ

/-- a computation cut into units of work; `preempt` lists, per unit, whether a preemption hits right
before it. The value is a fold over the units — what a coroutine computes. -/
def runUnits (f : Nat → Nat → Nat) : Nat → List Nat → List Bool → Nat × Nat
  | acc, [], _ => (acc, 0)
  | acc, u :: us, [] => runUnits f (f acc u) us []
  | acc, u :: us, p :: ps =>
    -- a preemption parks the coroutine and later resumes it at the same point, with the same locals
    let r := runUnits f (f acc u) us ps
    (r.1, r.2 + (if p then 1 else 0))

end Oc.Preempt
