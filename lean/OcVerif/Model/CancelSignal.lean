/-!
Model of cancelling a task that is in progress (`CoroutinePool::try_cancel_task`, the `SIGVTALRM` handler
in `core/src/coroutine/mod.rs`, the cancel set of `Scheduler::do_schedule`) on one scheduling thread.

* `cancel c`: a request for coroutine `c`. After the repair it is recorded in the scheduler's cancel set
  and, if `c` is on the CPU right now, `c` is written to the target word and a signal is sent. Before the
  repair a running `c` only got the signal, a parked one only the cancel set.
* `switch x`: the thread moves on to coroutine `x` (or to none); a coroutine that is popped while it is in
  the cancel set is dropped instead of resumed.
* `deliver`: a signal that was sent arrives — whenever the kernel delivers it. The handler after the repair
  ends the current coroutine only if it is the one in the target word; before, it ended whatever was current.
-/
namespace Oc.CancelSignal

structure S where
  current : Option Nat := none
  target : Option Nat := none
  deferred : List Nat := []
  inflight : Nat := 0
  cancelled : List Nat := []
  requested : List Nat := []      -- ghost: every coroutine a cancel was ever asked for
  checked : Bool := true          -- the handler compares with the target word (the repaired code)
deriving Repr, DecidableEq

inductive Act where
  | cancel (c : Nat)
  | switch (x : Option Nat)
  | deliver
deriving Repr, DecidableEq

def step (s : S) : Act → S
  | .cancel c =>
    let s := { s with requested := c :: s.requested }
    if s.checked then
      let s := { s with deferred := c :: s.deferred }
      if s.current = some c then { s with target := some c, inflight := s.inflight + 1 } else s
    else
      if s.current = some c then { s with inflight := s.inflight + 1 } else { s with deferred := c :: s.deferred }
  | .switch x =>
    match x with
    | some c =>
      if c ∈ s.cancelled then s                         -- a finished coroutine is never scheduled again
      else if c ∈ s.deferred then { s with current := none, deferred := s.deferred.filter (· != c), cancelled := c :: s.cancelled }
      else { s with current := some c }
    | none => { s with current := none }
  | .deliver =>
    if s.inflight = 0 then s else
    let s := { s with inflight := s.inflight - 1 }
    match s.current with
    | none => s
    | some c =>
      if s.checked then
        if s.target = some c then
          { s with current := none, target := none, deferred := s.deferred.filter (· != c), cancelled := c :: s.cancelled }
        else s
      else { s with current := none, cancelled := c :: s.cancelled }

def run (s : S) (as : List Act) : S := as.foldl step s

end Oc.CancelSignal
