/-!
Model of `Coroutine::maybe_grow_with` (`core/src/coroutine/korosensei.rs`): the bookkeeping of
grown stack segments for the coroutine path (`stack_infos`, RAII guard) and for the plain-thread
path (`STACK_INFOS` thread-local, RAII guard since the `fix:` commit).

A *chain* is a nest of calls: level k burns some stack and calls level k+1 through
`maybe_grow_with(red, size)`; the innermost callback returns 7 or panics; a level may catch what
unwinds out of the call it makes. The number of registered grown segments is `depth`.
-/
namespace Oc.Stack

structure Level where
  red : Nat
  size : Nat
  catch_ : Bool
  /-- stack left below sp on the current segment when the call is made (bytes) -/
  remaining : Nat
deriving Repr, DecidableEq

/-- the growth decision: the thread path always grows when it has no registered segment (it cannot
measure the OS thread stack), otherwise both paths grow iff less than the red zone is left -/
def grows (isCo : Bool) (depth : Nat) (l : Level) : Bool :=
  (!isCo && depth == 0) || decide (l.remaining < l.red)

/-- how a (sub)chain ends -/
inductive Out where
  | value (v : Nat)
  | unwinding
deriving Repr, DecidableEq

/-- one observed callback entry: depth before the call, grew?, depth inside, room ≥ red inside? -/
structure Entry where
  before : Nat
  grew : Bool
  inside : Nat
  roomOk : Bool
deriving Repr, DecidableEq

/-- Run a chain from `depth`. Returns the log of callback entries, the catch points (depth seen by
the catching frame), the depth when the chain is done, and its outcome.
`usable s` = what a fresh segment of size `s` offers the callback. -/
def run (isCo : Bool) (usable : Nat → Nat) : Nat → List Level → Bool → List Entry × List Nat × Nat × Out
  | depth, [], panics => ([], [], depth, if panics then .unwinding else .value 7)
  | depth, l :: rest, panics =>
    let g := grows isCo depth l
    let inside := if g then depth + 1 else depth
    let e : Entry := { before := depth, grew := g, inside := inside,
                       roomOk := if g then decide (l.red ≤ usable l.size) else decide (l.red ≤ l.remaining) }
    let r := run isCo usable inside rest panics
    -- leaving the call pops the segment it pushed: on return and (RAII guard) on unwinding
    match r.2.2.2 with
    | .value v => (e :: r.1, r.2.1, depth, .value v)
    | .unwinding =>
      if l.catch_ then (e :: r.1, r.2.1 ++ [depth], depth, .value 99)
      else (e :: r.1, r.2.1, depth, .unwinding)

/-- the pre-fix thread path: the segment is popped on normal return only -/
def runOldThread (usable : Nat → Nat) : Nat → List Level → Bool → Nat × Out
  | depth, [], panics => (depth, if panics then .unwinding else .value 7)
  | depth, l :: rest, panics =>
    let g := grows false depth l
    let r := runOldThread usable (if g then depth + 1 else depth) rest panics
    match r.2 with
    | .value v => (if g then r.1 - 1 else r.1, .value v)
    | .unwinding => if l.catch_ then (r.1, .value 99) else (r.1, .unwinding)

end Oc.Stack
