import OcVerif.Model.Queue.Ordered
/-!
Model of `core/src/co_pool/mod.rs` (+ `creator.rs`, `state.rs`, the parts of `scheduler.rs` it
drives) for a pool with `min_size = 0`, `keep_alive_time = 0` used from one thread: task queue
(priority FIFO), worker coroutines running the worker loop, growth by the `CoroutineCreator`
listener, results / waiters, the two cancel sets, the pool state and `stop(0)`.
A worker is not a fixed program: it runs whatever the task queue gives it.
-/
namespace Oc.Pool
open Oc.Queue

inductive TStep where
  | susp | delay (d : Nat) | panic | ret (v : Nat)
  | cancelSelf      -- the running task's coroutine is cancelled (`suspender.cancel()`, what the cancel signal does)
  | nest            -- the task submits a further task (`R77`, priority 0) to its own pool from inside its body
deriving Repr, DecidableEq

inductive PState where
  | running | stopping | stopped
deriving Repr, DecidableEq

inductive Outcome where
  | ok (v : Nat) | none_ | err (m : String)
deriving Repr, DecidableEq

structure Worker where
  task : Option Nat := none        -- the task it is in the middle of
  rest : List TStep := []
  alive : Bool := true             -- has not returned from its loop
  plain : Bool := false            -- a user coroutine submitted with `submit_co`: returns at its first resumption
deriving Repr, DecidableEq

structure Pool where
  now : Nat := 1000
  state : PState := .running
  running : Nat := 0
  maxSize : Nat
  tasks : PQ := []
  progs : List (List TStep) := []
  workers : List Worker := []
  ready : List Nat := []
  suspend : List (Nat × Nat) := []
  cancelTasks : List Nat := []
  cancelCos : List Nat := []
  runningTasks : List (Nat × Nat) := []
  results : List (Nat × Outcome) := []
  waits : List Nat := []
  /-- tasks whose result nobody wants (`clean_task_result`, i.e. a dropped join handle) -/
  noWaits : List Nat := []
  /-- workers dropped by a cancel request while parked (their exit is never accounted) -/
  dropped : List Nat := []
  /-- tasks that were in progress inside a worker when it was dropped -/
  droppedTasks : List Nat := []
  /-- tasks whose body has started, in order -/
  started : List Nat := []
  /-- submissions made by task bodies: (submitting task, accepted?) in order -/
  nested : List (Nat × Bool) := []
deriving Repr

def U64MAX : Nat := 18446744073709551615

/-- `submit_task` called from inside the body of task `t` (same acceptance rule as from outside; a
rejected submission still consumes an id, as in `submit`) -/
def nestSubmit (p : Pool) (t : Nat) : Pool :=
  match p.state with
  | .running => { p with tasks := p.tasks.push 0 p.progs.length, progs := p.progs ++ [[.ret 77]], nested := p.nested ++ [(t, true)] }
  | _ => { p with progs := p.progs ++ [[]], nested := p.nested ++ [(t, false)] }

/-- `try_grow`: one more worker if there is queued work and room -/
def tryGrow (p : Pool) : Pool :=
  if p.tasks.vals = [] then p
  else if p.running ≥ p.maxSize then p
  else { p with workers := p.workers ++ [{}], ready := p.ready ++ [p.workers.length], running := p.running + 1 }

def setResult (p : Pool) (t : Nat) (o : Outcome) : Pool :=
  -- results.insert + notify (the waiter entry is removed)
  { p with results := (t, o) :: p.results.filter (fun e => e.1 != t), waits := p.waits.filter (· != t) }

/-- a task is over (finished or skipped for a cancel): publish its result unless nobody wants it -/
def finish (p : Pool) (t : Nat) (o : Outcome) : Pool :=
  if p.noWaits.contains t then { p with noWaits := p.noWaits.filter (· != t) } else setResult p t o

def setWorker (p : Pool) (w : Nat) (x : Worker) : Pool := { p with workers := p.workers.set w x }

/-- one resumption of worker `w`: run until it yields or leaves its loop. `fuel` bounds the steps. -/
def resumeWorker : Nat → Pool → Nat → Pool
  | 0, p, _ => p
  | f + 1, p, w =>
    match p.workers[w]? with
    | none => p
    | some x =>
      if !x.alive then p else      -- a worker that has returned is never scheduled again
      if x.plain then
        -- a user coroutine: it completes, the listener decrements `running`
        setWorker { p with running := p.running - 1 } w { x with alive := false }
      else
      match x.task with
      | some t =>
        match x.rest with
        | [] =>
          resumeWorker f (setWorker (finish { p with runningTasks := p.runningTasks.filter (fun e => e.1 != t) } t .none_) w { x with task := none }) w
        | .susp :: r =>
          -- yield; the listener tries to grow; a plain yield goes back to the ready queue
          let p := tryGrow (setWorker p w { x with rest := r })
          { p with ready := p.ready ++ [w] }
        | .delay d :: r =>
          let p := tryGrow (setWorker p w { x with rest := r })
          let ts := min U64MAX (d + p.now)
          if ts > p.now then { p with suspend := (ts, w) :: p.suspend } else { p with ready := p.ready ++ [w] }
        | .panic :: _ =>
          resumeWorker f (setWorker (finish { p with runningTasks := p.runningTasks.filter (fun e => e.1 != t) } t (.err "boom")) w { x with task := none, rest := [] }) w
        | .ret v :: _ =>
          resumeWorker f (setWorker (finish { p with runningTasks := p.runningTasks.filter (fun e => e.1 != t) } t (.ok v)) w { x with task := none, rest := [] }) w
        | .nest :: r =>
          resumeWorker f (nestSubmit (setWorker p w { x with rest := r }) t) w
        | .cancelSelf :: _ =>
          -- the worker coroutine ends as Cancelled in the middle of the task: the listener gives
          -- its slot back and tries to grow; the task never produces a result
          tryGrow (setWorker { p with running := p.running - 1, droppedTasks := t :: p.droppedTasks } w { x with alive := false })
      | none =>
        match p.tasks.popMin with
        | none =>
          -- nothing to do: with keep_alive 0 / min 0 the worker returns; the listener decrements `running`
          setWorker { p with running := p.running - 1 } w { x with alive := false }
        | some (_, t, q') =>
          let p := { p with tasks := q' }
          if p.cancelTasks.contains t then
            resumeWorker f (finish { p with cancelTasks := p.cancelTasks.filter (· != t) } t (.err "The task was cancelled")) w
          else
            resumeWorker f (setWorker { p with runningTasks := (t, w) :: p.runningTasks, started := p.started ++ [t] } w
              { x with task := some t, rest := p.progs.getD t [] }) w

def minDue (l : List (Nat × Nat)) (now : Nat) : Option (Nat × Nat) :=
  (l.filter (fun e => e.1 ≤ now)).foldl (fun acc e => match acc with
    | none => some e
    | some a => if e.1 < a.1 then some e else some a) none

def wake : Nat → Pool → Pool
  | 0, p => p
  | f + 1, p =>
    match minDue p.suspend p.now with
    | none => p
    | some (ts, w) => wake f { p with suspend := p.suspend.filter (fun e => e != (ts, w)), ready := p.ready ++ [w] }

def stepFuel (p : Pool) : Nat := (p.progs.map (fun l => l.length + 3)).sum + p.workers.length * 2 + 8

/-- The scheduler pops worker `w` and finds a cancel request for it: the coroutine is dropped without
running again.  Its listeners are told (`on_cancel` with its parked state): the slot goes back, the
task it was in the middle of gets the result "cancelled" (and its waiter is woken), the pool may
grow again for the remaining work. -/
def dropParked (p : Pool) (w : Nat) : Pool :=
  let p := { p with cancelCos := p.cancelCos.filter (· != w), dropped := w :: p.dropped }
  match p.workers[w]? with
  | none => p
  | some x =>
    if !x.alive then p else
    let p1 := setWorker { p with running := p.running - 1 } w { x with alive := false, task := none, rest := [] }
    match x.task with
    | some t => tryGrow (finish { p1 with runningTasks := p1.runningTasks.filter (fun e => e.1 != t), droppedTasks := t :: p1.droppedTasks } t (.err "The task was cancelled"))
    | none => tryGrow p1

/-- the scheduler loop of one pass -/
def schedLoop : Nat → Pool → Pool
  | 0, p => p
  | f + 1, p =>
    let p := wake (p.suspend.length + 1) p
    match p.ready with
    | [] => p
    | w :: rest =>
      let p := { p with ready := rest }
      if p.cancelCos.contains w then schedLoop f (dropParked p w)
      else schedLoop f (resumeWorker (stepFuel p) p w)

/-- `try_schedule_task`: `none` = Err (pool stopped) -/
def pass (p : Pool) : Option Pool :=
  match p.state with
  | .stopped => none
  | _ => some (schedLoop (stepFuel p + p.tasks.len + 4) (tryGrow p))

def submit (p : Pool) (prog : List TStep) (prio : Int) : Pool × Bool :=
  match p.state with
  | .running => ({ p with tasks := p.tasks.push prio p.progs.length, progs := p.progs ++ [prog] }, true)
  | _ => ({ p with progs := p.progs ++ [[]] }, false)

/-- `try_cancel_task` (called between passes: no coroutine is being resumed) -/
def cancelTask (p : Pool) (t : Nat) : Pool :=
  match p.runningTasks.find? (fun e => e.1 == t) with
  | some (_, w) => { p with cancelCos := if p.cancelCos.contains w then p.cancelCos else w :: p.cancelCos }
  | none => { p with cancelTasks := if p.cancelTasks.contains t then p.cancelTasks else t :: p.cancelTasks }

/-- `submit_co`: a user coroutine takes one of the pool's slots; `false` = rejected (pool full) -/
def submitCo (p : Pool) : Pool × Bool :=
  if p.state ≠ .running then (p, false)
  else if p.running ≥ p.maxSize then (p, false)
  else ({ p with workers := p.workers ++ [{ plain := true }], ready := p.ready ++ [p.workers.length], running := p.running + 1 }, true)

/-- `clean_task_result` (a dropped join handle): take the result if it is there, else remember that
nobody wants it -/
def cleanResult (p : Pool) (t : Nat) : Pool :=
  if p.results.any (fun e => e.1 == t) then { p with results := p.results.filter (fun e => e.1 != t) }
  else { p with noWaits := if p.noWaits.contains t then p.noWaits else t :: p.noWaits }

def doClean (p : Pool) : Pool :=
  p.waits.foldl (fun p t => setResult p t (.err "The coroutine pool has stopped")) p

/-- `stop(Duration::ZERO)` on a pool that is not stopped yet: Running → Stopping; the zero-timeout
pass only gets as far as `try_grow`; success only if nothing is left to do -/
def stopLive (p : Pool) : Pool × Bool :=
  if (tryGrow { p with state := .stopping }).running > 0 ∨ (tryGrow { p with state := .stopping }).tasks.vals ≠ [] then
    (tryGrow { p with state := .stopping }, false)
  else (doClean { tryGrow { p with state := .stopping } with state := .stopped }, true)

/-- `stop(Duration::ZERO)`: returns whether it reported success -/
def stop (p : Pool) : Pool × Bool :=
  if p.state = .stopped then (doClean p, true) else stopLive p

inductive WaitRes where
  | got (o : Outcome) | timeout | failed
deriving Repr, DecidableEq

/-- `wait_task_result` from a plain thread with a short timeout and nobody scheduling meanwhile -/
def wait (p : Pool) (t : Nat) : Pool × WaitRes :=
  match p.results.find? (fun e => e.1 == t) with
  | some (_, o) => ({ p with results := p.results.filter (fun e => e.1 != t), waits := p.waits.filter (· != t) }, .got o)
  | none =>
    if p.state = .stopped then (p, .failed)
    else ({ p with waits := if p.waits.contains t then p.waits else t :: p.waits }, .timeout)

end Oc.Pool
