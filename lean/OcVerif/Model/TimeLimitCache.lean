/-!
Model of the socket time-limit cache: `SEND_TIME_LIMIT` / `RECV_TIME_LIMIT` in
`core/src/syscall/unix/mod.rs`, `setsockopt.rs` and `close.rs`.

`kernel` is the kernel's own (converted) option value per open socket and direction — the truth
the cache must agree with; `cache` is the runtime's map. Keys are `(fd, isRecv)`.
-/
namespace Oc.TLCache

def U64MAX : Nat := 2 ^ 64 - 1
abbrev Key := Nat × Bool

def upd (f : Key → Option Nat) (k : Key) (v : Option Nat) : Key → Option Nat :=
  fun k' => if k' = k then v else f k'

structure St where
  kernel : Key → Option Nat := fun _ => none
  cache : Key → Option Nat := fun _ => none

inductive Op where
  /-- the OS hands out descriptor number `fd` for a new socket (option value 0 = unlimited) -/
  | openFd (fd : Nat)
  /-- hooked `setsockopt(SO_RCVTIMEO|SO_SNDTIMEO)`; `ok` = the kernel accepted it and now stores `kval` -/
  | setOpt (fd : Nat) (recv : Bool) (ok : Bool) (kval : Nat)
  /-- a hooked call asks for the limit: `recv_time_limit(fd)` / `send_time_limit(fd)` -/
  | io (fd : Nat) (recv : Bool)
  /-- hooked `close(fd)` -/
  | close (fd : Nat)
deriving Repr, DecidableEq

def step (s : St) : Op → St × Option Nat
  | .openFd fd =>
    ({ s with kernel := upd (upd s.kernel (fd, true) (some U64MAX)) (fd, false) (some U64MAX) }, none)
  | .setOpt fd w ok kval =>
    if ok then ({ kernel := upd s.kernel (fd, w) (some kval), cache := upd s.cache (fd, w) none }, none)
    else (s, none)
  | .io fd w =>
    match s.cache (fd, w) with
    | some v => (s, some v)
    | none =>
      match s.kernel (fd, w) with
      | some v => ({ s with cache := upd s.cache (fd, w) (some v) }, some v)   -- getsockopt, then cache
      | none => (s, none)
  | .close fd =>
    ({ kernel := upd (upd s.kernel (fd, true) none) (fd, false) none,
       cache := upd (upd s.cache (fd, true) none) (fd, false) none }, none)

/-- what the OS guarantees about an operation in state `s` -/
def Op.wf (s : St) : Op → Prop
  | .openFd fd => s.kernel (fd, true) = none ∧ s.kernel (fd, false) = none   -- a fresh number
  | _ => True

/-- run a history, collecting the `io` answers together with the kernel's value at that moment -/
def run : St → List Op → List (Option Nat × Option Nat)
  | _, [] => []
  | s, o :: os =>
    match o with
    | .io fd w => ((step s o).2, s.kernel (fd, w)) :: run (step s o).1 os
    | _ => run (step s o).1 os

def WF : St → List Op → Prop
  | _, [] => True
  | s, o :: os => o.wf s ∧ WF (step s o).1 os

end Oc.TLCache
