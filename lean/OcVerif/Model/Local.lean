/-!
Model of coroutine-local storage (`core/src/coroutine/local.rs`): one map per coroutine from key
to the id of the stored value, and the global log of dropped values. Value ids are unique per
created value (the harness numbers them).
-/
namespace Oc.Local

abbrev Slot := Nat × Nat            -- (coroutine, key)

structure St where
  store : List (Slot × Nat) := []   -- association list, at most one entry per slot
  dead : List Nat := []             -- dropped coroutines
  drops : List Nat := []            -- values dropped so far (by the caller or by the storage)
deriving Repr, DecidableEq

def slookup (s : List (Slot × Nat)) (k : Slot) : Option Nat :=
  (s.find? (fun e => e.1 == k)).map (·.2)

def serase (s : List (Slot × Nat)) (k : Slot) : List (Slot × Nat) := s.filter (fun e => e.1 != k)

inductive Op where
  | put (c k v : Nat)          -- `co.put(key, v)`; the previous value is returned to (and dropped by) the caller
  | get (c k : Nat)
  | getMutSet (c k v : Nat)    -- `*co.get_mut(key)? = v`
  | remove (c k : Nat)
  | dropCo (c : Nat)
deriving Repr, DecidableEq

/-- output: the value id the call returns / observes -/
def step (s : St) : Op → St × Option Nat
  | .put c k v =>
    if c ∈ s.dead then (s, none) else
    ({ s with store := ((c, k), v) :: serase s.store (c, k), drops := s.drops ++ (slookup s.store (c, k)).toList },
     slookup s.store (c, k))
  | .get c k => if c ∈ s.dead then (s, none) else (s, slookup s.store (c, k))
  | .getMutSet c k v =>
    if c ∈ s.dead then (s, none) else
    match slookup s.store (c, k) with
    | some old => ({ s with store := ((c, k), v) :: serase s.store (c, k), drops := s.drops ++ [old] }, some old)
    | none => ({ s with drops := s.drops ++ [v] }, none)         -- the caller drops the unused new value
  | .remove c k =>
    if c ∈ s.dead then (s, none) else
    ({ s with store := serase s.store (c, k), drops := s.drops ++ (slookup s.store (c, k)).toList }, slookup s.store (c, k))
  | .dropCo c =>
    if c ∈ s.dead then (s, none) else
    ({ store := s.store.filter (fun e => e.1.1 != c), dead := c :: s.dead,
       drops := s.drops ++ (s.store.filter (fun e => e.1.1 == c)).map (·.2) }, none)

/-- values created by an operation (only when the target coroutine is alive) -/
def created (s : St) : Op → List Nat
  | .put c _ v => if c ∈ s.dead then [] else [v]
  | .getMutSet c _ v => if c ∈ s.dead then [] else [v]
  | _ => []

def run : St → List Op → St × List Nat   -- final state, all values created
  | s, [] => (s, [])
  | s, o :: os => ((run (step s o).1 os).1, created s o ++ (run (step s o).1 os).2)

end Oc.Local
