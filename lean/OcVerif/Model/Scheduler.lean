import OcVerif.Model.Coroutine
import OcVerif.Model.Queue.Ordered
/-!
Model of `core/src/scheduler.rs` on top of the coroutine model: ready queue (priority FIFO: the
ordered local queue without overflow), the suspend heap, the syscall table with its timeout heap,
the global cancel set, `check_ready`, `do_schedule`, `try_resume`, `try_cancel_coroutine`.
Wake-up times in one heap are assumed distinct (`BinaryHeap` order among equal keys is unspecified).
-/
namespace Oc.Sched
open Oc.Co Oc.Queue

inductive Outcome where
  | ok (r : Nat)
  | err (m : String)
deriving Repr, DecidableEq

structure Sch where
  th : Th
  cos : List Co := []
  prios : List Int := []
  ready : PQ := []
  suspend : List (Nat × Nat) := []     -- (wake-up time, coroutine)
  syscall : List Nat := []
  sysSusp : List (Nat × Nat) := []
  cancel : List Nat := []
  dropped : List Nat := []             -- coroutines dropped by a cancel request
deriving Repr

/-- `suspend -> ready` (`Coroutine::ready`) -/
def toReady (c : Co) (now : Nat) : Option Co :=
  match c.state with
  | .ready => some c
  | .suspend _ ts => if ts ≤ now then some (c.change .ready "ready") else none
  | _ => none

/-- entry with the smallest time among those that are due -/
def minDue (l : List (Nat × Nat)) (now : Nat) : Option (Nat × Nat) :=
  (l.filter (fun e => e.1 ≤ now)).foldl (fun acc e => match acc with
    | none => some e
    | some a => if e.1 < a.1 then some e else some a) none

def setCo (s : Sch) (i : Nat) (c : Co) : Sch := { s with cos := s.cos.set i c }
def prioOf (s : Sch) (i : Nat) : Int := s.prios.getD i 0

/-- `check_ready`, first loop: due entries of the suspend heap, earliest first -/
def wakeSuspended : Nat → Sch → Sch
  | 0, s => s
  | f + 1, s =>
    match minDue s.suspend s.th.now with
    | none => s
    | some (ts, i) =>
      let s := { s with suspend := s.suspend.filter (fun e => e != (ts, i)) }
      match s.cos[i]? with
      | none => wakeSuspended f s
      | some c =>
        match toReady c s.th.now with
        | none => wakeSuspended f s          -- (`?` would propagate an error; unreachable for due entries)
        | some c' => wakeSuspended f { setCo s i c' with ready := s.ready.push (prioOf s i) i }

/-- `check_ready`, second loop: timed-out system calls -/
def wakeSyscalls : Nat → Sch → Sch
  | 0, s => s
  | f + 1, s =>
    match minDue s.sysSusp s.th.now with
    | none => s
    | some (ts, i) =>
      let s := { s with sysSusp := s.sysSusp.filter (fun e => e != (ts, i)) }
      if s.syscall.contains i then
        let s := { s with syscall := s.syscall.filter (· != i) }
        match s.cos[i]? with
        | some c =>
          match c.state with
          | .syscall _ n (.susp _) =>
            (match c.toSyscall n .timeout with
             | some c' => wakeSyscalls f { setCo s i c' with ready := s.ready.push (prioOf s i) i }
             | none => wakeSyscalls f s)
          | _ => wakeSyscalls f s
        | none => wakeSyscalls f s
      else wakeSyscalls f s

def checkReady (s : Sch) : Sch :=
  wakeSyscalls (s.sysSusp.length + 1) (wakeSuspended (s.suspend.length + 1) s)

structure PassOut where
  resumed : List Nat := []
  results : List (Nat × Outcome) := []
  failed : Bool := false

/-- what one iteration of the `do_schedule` loop does with the coroutine it popped -/
inductive Did where
  | idle                       -- ready queue empty: the pass ends
  | dropped (i : Nat)          -- popped `i`, found it in the cancel set, dropped it without resuming
  | resumed (i : Nat) (r : Res)
  | failed
deriving Repr

/-- where the scheduler puts coroutine `i` after `resume` reported `res` -/
def park (s : Sch) (o : PassOut) (i : Nat) (res : Res) : Sch × PassOut × Did :=
  match res with
  | .state (.syscall y n (.susp ts)) =>
    ({ s with syscall := if s.syscall.contains i then s.syscall else i :: s.syscall, sysSusp := (ts, i) :: s.sysSusp }, o,
     .resumed i (.state (.syscall y n (.susp ts))))
  | .state (.syscall y n st) =>
    ({ s with syscall := if s.syscall.contains i then s.syscall else i :: s.syscall }, o, .resumed i (.state (.syscall y n st)))
  | .state (.suspend y ts) =>
    if ts > s.th.now then ({ s with suspend := (ts, i) :: s.suspend }, o, .resumed i (.state (.suspend y ts)))
    else ({ s with ready := s.ready.push (prioOf s i) i }, o, .resumed i (.state (.suspend y ts)))
  | .state .cancelled => ({ s with cancel := s.cancel.filter (· != i) }, o, .resumed i (.state .cancelled))   -- a request recorded for the scheduler as well is served
  | .state (.complete r') => (s, { o with results := o.results ++ [(i, .ok r')] }, .resumed i (.state (.complete r')))
  | .state (.error m) => (s, { o with results := o.results ++ [(i, .err m)] }, .resumed i (.state (.error m)))
  | _ => (s, { o with failed := true }, .failed)

/-- cancel requests issued by the body during the slice (`Scheduler::try_cancel_coroutine` from
inside a coroutine) are in the process-wide cancel set from then on -/
def absorb (s : Sch) : Sch :=
  { s with cancel := s.cancel ++ s.th.req.filter (fun j => decide (j < s.cos.length)), th := { s.th with req := [] } }

/-- one iteration of the `do_schedule` loop: `check_ready`, pop, (cancel check), resume, re-park -/
def iter (s0 : Sch) (o : PassOut) : Sch × PassOut × Did :=
  match (checkReady s0).ready.popMin with
  | none => (checkReady s0, o, .idle)
  | some (_, i, q') =>
    if i ∈ (checkReady s0).cancel then
      ({ checkReady s0 with ready := q', cancel := (checkReady s0).cancel.filter (· != i), dropped := i :: (checkReady s0).dropped }, o, .dropped i)
    else
    match (checkReady s0).cos[i]? with
    | none => ({ checkReady s0 with ready := q' }, { o with failed := true }, .failed)
    | some c =>
      park (absorb { checkReady s0 with ready := q', cos := (checkReady s0).cos.set i (resume (checkReady s0).th c 0).2.1, th := (resume (checkReady s0).th c 0).1 })
        (if (resume (checkReady s0).th c 0).2.1.got.length > c.got.length then { o with resumed := o.resumed ++ [i] } else o)
        i (resume (checkReady s0).th c 0).2.2

/-- `do_schedule` (without a timeout): `fuel` bounds the number of iterations -/
def passLoop : Nat → Sch → PassOut → Sch × PassOut
  | 0, s, o => (s, o)
  | f + 1, s, o =>
    match (iter s o).2.2 with
    | .idle => ((iter s o).1, (iter s o).2.1)
    | .failed => ((iter s o).1, (iter s o).2.1)
    | _ => passLoop f (iter s o).1 (iter s o).2.1

def passFuel (s : Sch) : Nat := (s.cos.map (fun c => c.prog.length + 3)).sum + 10

def pass (s : Sch) : Sch × PassOut := passLoop (passFuel s) s {}

def submit (s : Sch) (prog : List Step) (prio : Int) : Sch :=
  { s with cos := s.cos ++ [{ prog := prog }], prios := s.prios ++ [prio], ready := s.ready.push prio s.cos.length }

def cancelCo (s : Sch) (i : Nat) : Sch := { s with cancel := if s.cancel.contains i then s.cancel else i :: s.cancel }

/-- `try_resume` -/
def tryResume (s : Sch) (i : Nat) : Sch :=
  if s.syscall.contains i then
    let s := { s with syscall := s.syscall.filter (· != i) }
    match s.cos[i]? with
    | some c =>
      match c.state with
      | .syscall _ n (.susp _) =>
        (match c.toSyscall n .callback with
         | some c' => { setCo s i c' with ready := s.ready.push (prioOf s i) i }
         | none => s)
      | _ => s
    | none => s
  else s

def advance (s : Sch) (d : Nat) : Sch := { s with th := { s.th with now := min U64MAX (s.th.now + d) } }

end Oc.Sched
