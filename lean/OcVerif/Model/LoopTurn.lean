/-!
Model of one turn of the event-loop thread (`core/src/net/event_loop.rs`: `wait_event`, `wait_just`,
`resume`) at the granularity that matters for waking waiters:

* the scheduling part (`try_timed_schedule_task`) runs ready coroutines for at most a slice; what they
  do is abstract: any set of them may park as waiters (`parks`), any may stay ready or finish
  (`stay`), and the slice may or may not be used up (`left = 0`);
* then `wait_just(left)` polls the selector — with a zero timeout when nothing is left — and every
  event whose token belongs to a parked waiter moves that waiter to the ready queue (`try_resume`).

`skipWhenUsedUp = true` is a loop that saves the zero-timeout poll when the slice was used up.
-/
namespace Oc.LoopTurn

structure Loop where
  ready : List Nat := []                 -- coroutine ids
  waiting : List (Nat × Nat) := []       -- (descriptor, coroutine id) parked in a wait for readiness
deriving Repr, DecidableEq

/-- the poll: every waiter whose descriptor is reported ready moves to the ready queue -/
def poll (l : Loop) (readyFds : List Nat) : Loop :=
  { ready := l.ready ++ ((l.waiting.filter (fun w => readyFds.contains w.1)).map (·.2)),
    waiting := l.waiting.filter (fun w => !readyFds.contains w.1) }

/-- one turn: the scheduling part leaves `stay` in the ready queue and parks `parks`; then the poll -/
def turn (l : Loop) (stay : List Nat) (parks : List (Nat × Nat)) (usedUp : Bool) (readyFds : List Nat)
    (skipWhenUsedUp : Bool := false) : Loop :=
  let l1 : Loop := { ready := stay, waiting := l.waiting ++ parks }
  if skipWhenUsedUp && usedUp then l1 else poll l1 readyFds

end Oc.LoopTurn
