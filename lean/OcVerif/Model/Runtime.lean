import OcVerif.Model.Queue.Run
/-!
The runtime's task path (C01): `n` event loops, each with a pool whose local task queue is one
local queue of the process-wide ordered work-steal queue (`TASK_GLOBAL_QUEUE_BEAN`).

* `submit i p`  — `EventLoops::submit_task` routed to loop `i` (`CoroutinePool::submit_raw_task`:
  a local push, overflow spills to the shared queue); the task gets the next id
* `take i st`   — one `CoroutinePool::try_run` of loop `i`: a local pop (local, else steal from the
  siblings starting at `st`, else shared); a task found in `CANCEL_TASKS` is skipped, any other runs
* `cancel id`   — `try_cancel_task` of a task that is not executing: `CANCEL_TASKS.insert`

Queue calls are atomic steps here (their linearisation is the queue's own business: C03, C04, C06
and, for a pool's single-owner local queue, the push/pop lock of `co_pool/mod.rs`); the fields
`hist`, `taken`, `creq` are ghost history.
-/
namespace Oc.Rt
open Oc.Queue

inductive ROp where
  | submit (i : Nat) (p : Int)
  | take (i start : Nat)
  | cancel (id : Nat)
deriving Repr, DecidableEq

def has : List Nat → Nat → Bool
  | [], _ => false
  | y :: ys, x => if y = x then true else has ys x

def remove : List Nat → Nat → List Nat
  | [], _ => []
  | y :: ys, x => if y = x then remove ys x else y :: remove ys x

structure Rt where
  q : Sys
  nextId : Nat := 0
  cancelled : List Nat := []
  ran : List Nat := []
  skipped : List Nat := []
  hist : List Op := []
  taken : List Item := []
  creq : List Nat := []
deriving Repr, DecidableEq

def init (n cap : Nat) : Rt := { q := mk n cap }

def step (r : Rt) : ROp → Option Rt
  | .submit i p =>
    match Queue.step r.q (.lpush i p r.nextId) with
    | none => none
    | some s => some { r with q := s.1, nextId := r.nextId + 1, hist := r.hist ++ [.lpush i p r.nextId] }
  | .take i start =>
    match Queue.step r.q (.lpop i start) with
    | none => none
    | some s =>
      match s.2 with
      | none => some { r with q := s.1, hist := r.hist ++ [.lpop i start] }
      | some x =>
        if has r.cancelled x then
          some { r with q := s.1, hist := r.hist ++ [.lpop i start], taken := r.taken ++ [x],
                        cancelled := remove r.cancelled x, skipped := r.skipped ++ [x] }
        else
          some { r with q := s.1, hist := r.hist ++ [.lpop i start], taken := r.taken ++ [x],
                        ran := r.ran ++ [x] }
  | .cancel id => some { r with cancelled := id :: r.cancelled, creq := id :: r.creq }

def ROp.valid (n : Nat) : ROp → Bool
  | .submit i _ => decide (i < n)
  | .take i _ => decide (i < n)
  | .cancel _ => true

inductive Reach (n cap : Nat) : Rt → Prop
  | init : Reach n cap (init n cap)
  | step {r r' : Rt} (o : ROp) : Reach n cap r → step r o = some r' → Reach n cap r'

def run (r : Rt) : List ROp → Option Rt
  | [] => some r
  | o :: os => match step r o with
    | none => none
    | some r' => run r' os

/-- scheduling passes of loop `i`, one per element of `starts` (the random steal start of each) -/
def drain (i : Nat) : List Nat → Rt → Option Rt
  | [], r => some r
  | st :: sts, r => match step r (.take i st) with
    | none => none
    | some r' => drain i sts r'

end Oc.Rt
