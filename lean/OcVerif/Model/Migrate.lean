/-!
Model of the thread-local "current" stacks (`impl_current_for!`: COROUTINE, SUSPENDER, …; the
TIMESTAMP / CANCEL request stacks of `suspender.rs`) when coroutines migrate between threads
(`Suspender::suspend_with`, `Coroutine::resume_with`; ready coroutines are stolen between schedulers).

`suspend t`: the coroutine running on thread `t` pops its entry from `t`'s stack and switches out.
`resume t c`: thread `t` resumes the parked coroutine `c`; its entry is pushed again when it continues.
`fresh = true` is the code after the repair (the accessor is a call, the address is `t`'s); with
`fresh = false` the continuation reuses the address it computed before the switch — the stack of the
thread it was suspended on.
-/
namespace Oc.Migrate

structure S where
  running : Nat → Option Nat := fun _ => none     -- thread ↦ the coroutine it executes
  stack : Nat → List Nat := fun _ => []            -- thread ↦ its "current" stack
  parkedOn : Nat → Option Nat := fun _ => none     -- coroutine ↦ thread on which it last suspended
  fresh : Bool := true

inductive Act where
  | resume (t c : Nat)
  | suspend (t : Nat)
deriving Repr, DecidableEq

def upd {α : Type} (f : Nat → α) (k : Nat) (v : α) : Nat → α := fun x => if x = k then v else f x

def step (s : S) : Act → S
  | .resume t c =>
    match s.running t with
    | some _ => s                                   -- the thread is busy
    | none =>
      let where_ := if s.fresh then t else (s.parkedOn c).getD t
      { s with running := upd s.running t (some c), stack := upd s.stack where_ (c :: s.stack where_) }
  | .suspend t =>
    match s.running t with
    | none => s
    | some c => { s with running := upd s.running t none, stack := upd s.stack t (s.stack t).tail, parkedOn := upd s.parkedOn c (some t) }

def run (s : S) (as : List Act) : S := as.foldl step s

end Oc.Migrate
