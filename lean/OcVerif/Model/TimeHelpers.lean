/-!
Model of `core/src/common/mod.rs::{get_timeout_time, get_slices}` and
`core/src/syscall/unix/mod.rs::get_time_limit`, statement by statement.
Times are `Nat` nanoseconds; `U64MAX` saturation is explicit.
-/
namespace Oc.Time

def U64MAX : Nat := 2 ^ 64 - 1

/-- `get_timeout_time(dur)`: `u64::try_from(dur.as_nanos()).map_or(u64::MAX, |d| d.saturating_add(now()))` -/
def deadline (durNs now : Nat) : Nat :=
  if durNs ≤ U64MAX then min U64MAX (durNs + now) else U64MAX

/-- the `while left_total > slice` loop of `get_slices`, with fuel -/
def slicesLoop : Nat → Nat → Nat → List Nat
  | 0, left, _ => [left]
  | fuel + 1, left, slice =>
    if left > slice then slice :: slicesLoop fuel (left - slice) slice else [left]

/-- `get_slices(total, slice)`; `none` = the Rust loop never terminates (`slice = 0 < total`) -/
def slices (total slice : Nat) : Option (List Nat) :=
  if total = 0 then some []
  else if slice = 0 then none
  else some (slicesLoop total total slice)

/-- `get_time_limit(tv)`; `none` = `u64::try_from(..).expect("overflow")` panics (negative field) -/
def timeLimit (sec usec : Int) : Option Nat :=
  if sec < 0 ∨ usec < 0 then none
  else
    let a := min U64MAX (sec.toNat * 1000000000)
    let b := min U64MAX (usec.toNat * 1000)
    let t := min U64MAX (a + b)
    some (if t = 0 then U64MAX else t)

end Oc.Time
