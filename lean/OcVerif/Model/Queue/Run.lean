import OcVerif.Model.Queue.Ordered
/-! Operation histories on the ordered queue system (what the harness' `oq` component executes). -/
namespace Oc.Queue

inductive Op where
  | gpush (p : Int) (x : Item)
  | gpop
  | lpush (i : Nat) (p : Int) (x : Item)
  | lpop (i start : Nat)
deriving Repr, DecidableEq

/-- the handle index exists (Rust: a handle always refers to one of the `n` local queues) -/
def Op.valid (n : Nat) : Op → Bool
  | .lpush i _ _ => decide (i < n)
  | .lpop i _ => decide (i < n)
  | _ => true

def Op.pushed : Op → List Item
  | .gpush _ x => [x]
  | .lpush _ _ x => [x]
  | _ => []

/-- one API call; `none` = invalid handle index, or the push loop ran out of fuel (= spins) -/
def step (s : Sys) : Op → Option (Sys × Option Item)
  | .gpush p x => some (pushShared s p x, none)
  | .gpop => some (popShared s)
  | .lpush i p x => (pushLocal (pushFuel s i) s i p x).map (fun s' => (s', none))
  | .lpop i start => if i < s.locals.length then some (popLocal s i start) else none

/-- run a history; returns the final state and every popped item in order -/
def run : Sys → List Op → Option (Sys × List Item)
  | s, [] => some (s, [])
  | s, o :: os =>
    match step s o with
    | none => none
    | some (s', r) =>
      match run s' os with
      | none => none
      | some (s'', outs) => some (s'', r.toList ++ outs)

def pushedOf (ops : List Op) : List Item := ops.flatMap Op.pushed

end Oc.Queue
