/-!
Sequential model of `core/src/common/ordered_work_steal.rs` (`OrderedWorkStealQueue` +
`OrderedLocalQueue`), statement by statement.

* `SkipMap<priority, Injector|Worker>` is an association list with strictly ascending keys whose
  entries persist when they become empty (as in the Rust).
* a st3 `Worker` is a FIFO list with capacity `nextPow2 cap`.
* the local length is *derived* from the workers (`Σ capacity − spare_capacity`).
* `rand::rng().random_range(0..num)` is the `start` argument of `popLocal`.
-/
namespace Oc.Queue

abbrev Item := Nat
/-- priority-keyed FIFO map; keys strictly ascending; empty entries persist -/
abbrev PQ := List (Int × List Item)

def PQ.push : PQ → Int → Item → PQ
  | [], p, x => [(p, [x])]
  | (k, l) :: r, p, x =>
    if p < k then (p, [x]) :: (k, l) :: r
    else if p = k then (k, l ++ [x]) :: r
    else (k, l) :: PQ.push r p x

/-- number of items in the worker of priority `p` -/
def PQ.wlen : PQ → Int → Nat
  | [], _ => 0
  | (k, l) :: r, p => if k = p then l.length else PQ.wlen r p

def PQ.len : PQ → Nat
  | [] => 0
  | (_, l) :: r => l.length + PQ.len r

/-- all items, in pop order, with their priority -/
def PQ.items : PQ → List (Int × Item)
  | [] => []
  | (k, l) :: r => l.map (fun x => (k, x)) ++ PQ.items r

/-- pop the head of the first non-empty entry (ascending key order) -/
def PQ.popMin : PQ → Option (Int × Item × PQ)
  | [] => none
  | (k, []) :: r => (PQ.popMin r).map fun (p, x, r') => (p, x, (k, []) :: r')
  | (k, x :: l) :: r => some (k, x, (k, l) :: r)

/-- one pass of `for entry in self.queue.iter().rev()` inside `push_to_global`: at most one item
per entry, highest key first. The input is already reversed. Returns (entries, moved, done). -/
def passRev : List (Int × List Item) → Nat → Nat → (List (Int × List Item) × List (Int × Item) × Nat)
  | [], done, _ => ([], [], done)
  | (k, l) :: r, done, count =>
    if done ≥ count then ((k, l) :: r, [], done)
    else match l with
      | [] => let t := passRev r done count; ((k, []) :: t.1, t.2.1, t.2.2)
      | x :: l' => let t := passRev r (done + 1) count; ((k, l') :: t.1, (k, x) :: t.2.1, t.2.2)

structure Local where
  q : PQ := []
  tick : Nat := 0
deriving Repr, DecidableEq

structure Sys where
  cap : Nat
  shared : PQ := []
  /-- the `len` counter of the shared queue -/
  slen : Nat := 0
  locals : List Local
deriving Repr, DecidableEq

def U32MAX : Nat := 2 ^ 32 - 1

def pow2Ge : Nat → Nat → Nat → Nat      -- fuel, target, candidate
  | 0, _, c => c
  | f + 1, n, c => if c ≥ n then c else pow2Ge f n (2 * c)
/-- st3 rounds capacities up to a power of two (`0 ↦ 1`) -/
def nextPow2 (n : Nat) : Nat := pow2Ge (n + 1) n 1
def Sys.wcap (s : Sys) : Nat := nextPow2 s.cap

/-- `OrderedWorkStealQueue::push_with_priority` -/
def pushShared (s : Sys) (p : Int) (x : Item) : Sys :=
  { s with shared := s.shared.push p x, slen := s.slen + 1 }

/-- `OrderedWorkStealQueue::pop` (fast path on the counter, then first non-empty injector) -/
def popShared (s : Sys) : Sys × Option Item :=
  if s.slen = 0 then (s, none) else
  match s.shared.popMin with
  | none => (s, none)
  | some (_, x, q') => ({ s with shared := q', slen := s.slen - 1 }, some x)

def setLocal (s : Sys) (i : Nat) (l : Local) : Sys := { s with locals := s.locals.set i l }

/-- the `while done < count` loop of `push_to_global` on the local map, with fuel; a pass that
moves nothing ends the loop. `none` = fuel exhausted. Returns the new local map and the moved
items in the order they are pushed to the shared queue. -/
def moveLoop : Nat → PQ → Nat → Nat → Option (PQ × List (Int × Item))
  | 0, _, _, _ => none
  | fuel + 1, q, done, count =>
    if done ≥ count then some (q, []) else
    if (passRev q.reverse done count).2.2 = done then
      some ((passRev q.reverse done count).1.reverse, (passRev q.reverse done count).2.1)
    else (moveLoop fuel (passRev q.reverse done count).1.reverse (passRev q.reverse done count).2.2 count).map
      fun r => (r.1, (passRev q.reverse done count).2.1 ++ r.2)

def pushAllShared (s : Sys) (m : List (Int × Item)) : Sys :=
  m.foldl (fun s kx => pushShared s kx.1 kx.2) s

/-- `push_to_global`: half of the local items go to the shared queue, then the new item -/
def pushToGlobal (fuel : Nat) (s : Sys) (i : Nat) (p : Int) (x : Item) : Option Sys :=
  match s.locals[i]? with
  | none => none
  | some l =>
    match moveLoop fuel l.q 0 (l.q.len / 2) with
    | none => none
    | some (q', moved) =>
      some (pushShared (pushAllShared (setLocal s i { l with q := q' }) moved) p x)

/-- `OrderedLocalQueue::push_with_priority` -/
def pushLocal (fuel : Nat) (s : Sys) (i : Nat) (p : Int) (x : Item) : Option Sys :=
  match s.locals[i]? with
  | none => none
  | some l =>
    if l.q.len ≥ s.cap then pushToGlobal fuel s i p x            -- is_local_full
    else if l.q.wlen p ≥ s.wcap then pushToGlobal fuel s i p x   -- Worker::push -> Err
    else some (setLocal s i { l with q := l.q.push p x })

/-- fuel that always suffices for `pushLocal` (theorem `C04_push_terminates`) -/
def pushFuel (s : Sys) (i : Nat) : Nat :=
  match s.locals[i]? with
  | none => 1
  | some l => l.q.len / 2 + 1

/-- `pop_local` -/
def popLocalOnly (s : Sys) (i : Nat) : Sys × Option Item :=
  match s.locals[i]? with
  | none => (s, none)
  | some l => match l.q.popMin with
    | none => (s, none)
    | some (_, x, q') => (setLocal s i { l with q := q' }, some x)

/-- `tick()`: (stored value, returned value) -/
def nextTick (t : Nat) : Nat × Nat := if t ≥ U32MAX then (0, 0) else (t + 1, t + 1)

def pushMany (q : PQ) (p : Int) (xs : List Item) : PQ := xs.foldl (fun q x => q.push p x) q

/-- all items without their priority, in pop order -/
def PQ.vals : PQ → List Item
  | [] => []
  | (_, l) :: r => l ++ PQ.vals r

/-- `for entry in another { … steal … }` on the victim's map: the first entry whose st3 steal
succeeds. Returns (priority, stolen batch, victim's map afterwards).
`count_fn(n) = n.min(max_steal).min((n+1)/2)`, clamped by st3 to the destination's free capacity. -/
def stealPick (cap wcap : Nat) (thief : PQ) : PQ → Option (Int × List Item × PQ)
  | [] => none
  | (k, w) :: rest =>
    let n := w.length
    let maxSteal := (cap + 1) / 2 - thief.len
    let want := min (min n maxSteal) ((n + 1) / 2)
    let cnt := min (min want (wcap - thief.wlen k)) n
    if cnt = 0 then
      (stealPick cap wcap thief rest).map fun r => (r.1, r.2.1, (k, w) :: r.2.2)
    else some (k, w.take cnt, (k, w.drop cnt) :: rest)

def stealFrom (s : Sys) (i j : Nat) : Option Sys :=
  match s.locals[i]?, s.locals[j]? with
  | some li, some lj =>
    match stealPick s.cap s.wcap li.q lj.q with
    | none => none
    | some (k, taken, qj') =>
      match (setLocal s j { lj with q := qj' }).locals[i]? with
      | some li1 => some (setLocal (setLocal s j { lj with q := qj' }) i { li1 with q := pushMany li1.q k taken })
      | none => none
  | _, _ => none

/-- `for i in 0..num { let i = (start + i) % num; … }`; `k` = iterations left -/
def stealLoop (s : Sys) (i start : Nat) : Nat → Option Sys
  | 0 => none
  | k + 1 =>
    let num := s.locals.length
    let j := (start + (num - (k + 1))) % num
    match s.locals[i]?, s.locals[j]? with
    | some li, some _ =>
      if ¬ (li.q.len < (s.cap + 1) / 2) then none          -- !can_steal → break
      else match stealFrom s i j with
        | some s' => some s'
        | none => stealLoop s i start k
    | _, _ => none

/-- the part of `OrderedLocalQueue::pop` after the tick check: own queue, then steal, then shared -/
def popLocalRest (s : Sys) (i start : Nat) : Sys × Option Item :=
  if (popLocalOnly s i).2.isSome then popLocalOnly s i else
  match stealLoop s i start s.locals.length with
  | some s3 => popLocalOnly s3 i
  | none => popShared s

/-- `OrderedLocalQueue::pop` -/
def popLocal (s : Sys) (i start : Nat) : Sys × Option Item :=
  match s.locals[i]? with
  | none => (s, none)
  | some l =>
    if (nextTick l.tick).2 % 61 = 0 then
      if (popShared (setLocal s i { l with tick := (nextTick l.tick).1 })).2.isSome then
        popShared (setLocal s i { l with tick := (nextTick l.tick).1 })
      else popLocalRest (setLocal s i { l with tick := (nextTick l.tick).1 }) i start
    else popLocalRest (setLocal s i { l with tick := (nextTick l.tick).1 }) i start

def mk (n cap : Nat) : Sys := { cap := cap, locals := List.replicate n {} }

/-- every item currently held, shared first then local queues in order -/
def Sys.resident (s : Sys) : List Item :=
  s.shared.vals ++ s.locals.flatMap (fun l => l.q.vals)

end Oc.Queue
