import OcVerif.Model.Queue.Ordered
/-!
Sequential model of `core/src/common/work_steal.rs` (`WorkStealQueue` + `LocalQueue`).
A local queue is one st3 worker of capacity `nextPow2 cap`; the shared queue is one injector
with the `len` counter.
-/
namespace Oc.Queue.Plain
open Oc.Queue

structure PLocal where
  items : List Item := []
  tick : Nat := 0
deriving Repr, DecidableEq

structure PSys where
  cap : Nat
  shared : List Item := []
  slen : Nat := 0
  locals : List PLocal
deriving Repr, DecidableEq

def PSys.wcap (s : PSys) : Nat := nextPow2 s.cap

def pushShared (s : PSys) (x : Item) : PSys := { s with shared := s.shared ++ [x], slen := s.slen + 1 }

def popShared (s : PSys) : PSys × Option Item :=
  if s.slen = 0 then (s, none) else
  match s.shared with
  | [] => (s, none)
  | x :: r => ({ s with shared := r, slen := s.slen - 1 }, some x)

def setLocal (s : PSys) (i : Nat) (l : PLocal) : PSys := { s with locals := s.locals.set i l }

/-- `LocalQueue::push`: on a full worker move `len/2` items, then the new one, to the shared queue -/
def pushLocal (s : PSys) (i : Nat) (x : Item) : Option PSys :=
  match s.locals[i]? with
  | none => none
  | some l =>
    if l.items.length < s.wcap then some (setLocal s i { l with items := l.items ++ [x] })
    else
      let count := l.items.length / 2
      let s1 := setLocal s i { l with items := l.items.drop count }
      let s2 := (l.items.take count).foldl pushShared s1
      some (pushShared s2 x)

def popOwn (s : PSys) (i : Nat) : PSys × Option Item :=
  match s.locals[i]? with
  | none => (s, none)
  | some l => match l.items with
    | [] => (s, none)
    | x :: r => (setLocal s i { l with items := r }, some x)

def stealLoop (s : PSys) (i start : Nat) : Nat → Option PSys
  | 0 => none
  | k + 1 =>
    let num := s.locals.length
    let j := (start + (num - (k + 1))) % num
    match s.locals[i]?, s.locals[j]? with
    | some li, some lj =>
      if ¬ (s.wcap - li.items.length ≥ (s.wcap + 1) / 2) then none      -- !can_steal → break
      else if lj.items.isEmpty then stealLoop s i start k
      else
        let n := lj.items.length
        let maxSteal := (s.wcap + 1) / 2 - li.items.length
        let want := min (min n maxSteal) ((n + 1) / 2)
        let cnt := min (min want (s.wcap - li.items.length)) n
        if cnt = 0 then stealLoop s i start k
        else
          let s1 := setLocal s j { lj with items := lj.items.drop cnt }
          match s1.locals[i]? with
          | some li1 => some (setLocal s1 i { li1 with items := li1.items ++ lj.items.take cnt })
          | none => none
    | _, _ => none

/-- `LocalQueue::pop` -/
def popLocal (s : PSys) (i start : Nat) : PSys × Option Item :=
  match s.locals[i]? with
  | none => (s, none)
  | some l =>
    let t := nextTick l.tick
    let s := setLocal s i { l with tick := t.1 }
    let r1 := if t.2 % 61 = 0 then popShared s else (s, none)
    if r1.2.isSome then r1 else
    let r2 := popOwn s i
    if r2.2.isSome then r2 else
    match stealLoop s i start s.locals.length with
    | some s3 => popOwn s3 i
    | none => popShared s

def mk (n cap : Nat) : PSys := { cap := cap, locals := List.replicate n {} }

def PSys.resident (s : PSys) : List Item := s.shared ++ s.locals.flatMap (·.items)

/-- operation histories on the plain queue system (what the `pq` component executes) -/
inductive POp where
  | gpush (x : Item) | gpop | lpush (i : Nat) (x : Item) | lpop (i start : Nat)
deriving Repr, DecidableEq

def POp.valid (n : Nat) : POp → Bool
  | .lpush i _ => decide (i < n)
  | .lpop i _ => decide (i < n)
  | _ => true

def POp.pushed : POp → List Item
  | .gpush x => [x] | .lpush _ x => [x] | _ => []

def pstep (s : PSys) : POp → Option (PSys × Option Item)
  | .gpush x => some (pushShared s x, none)
  | .gpop => some (popShared s)
  | .lpush i x => (pushLocal s i x).map (fun s' => (s', none))
  | .lpop i start => if i < s.locals.length then some (popLocal s i start) else none

def prun : PSys → List POp → Option (PSys × List Item)
  | s, [] => some (s, [])
  | s, o :: os =>
    match pstep s o with
    | none => none
    | some (s', r) =>
      match prun s' os with
      | none => none
      | some (s'', outs) => some (s'', r.toList ++ outs)

def ppushedOf (ops : List POp) : List Item := ops.flatMap POp.pushed

end Oc.Queue.Plain
