/-!
Model of the worker accounting of several `CoroutinePool`s of one process
(`core/src/co_pool/mod.rs` `submit_worker_co`, `core/src/co_pool/creator.rs`).

The schedulers of all pools share one work-stealing ready queue, so a worker coroutine that was
created (and counted) by pool `home` may be resumed, and may return, be cancelled or fail, while
pool `on` is the thread's current pool.  `step` is the code after the repair (the listener carries
its creator's counter), `stepOld` the code before it (the current pool's counter is decremented,
saturating at 0).
-/
namespace Oc.MPool

structure W where
  home : Nat
  alive : Bool := true
deriving Repr, DecidableEq

structure St where
  running : Nat → Nat := fun _ => 0     -- reported running size per pool
  ws : List W := []

inductive Ev where
  | create (p : Nat)               -- pool `p` creates a worker coroutine: `running[p] += 1`
  | finish (w : Nat) (on : Nat)    -- worker `w` leaves (Complete / Cancelled / Error) while pool `on` is current
deriving Repr, DecidableEq

def bump (r : Nat → Nat) (p : Nat) : Nat → Nat := fun q => if q = p then r q + 1 else r q
def drop (r : Nat → Nat) (p : Nat) : Nat → Nat := fun q => if q = p then r q - 1 else r q

def step (s : St) : Ev → St
  | .create p => { running := bump s.running p, ws := s.ws ++ [{ home := p }] }
  | .finish w _ =>
    match s.ws[w]? with
    | some x => if x.alive then { running := drop s.running x.home, ws := s.ws.set w { x with alive := false } } else s
    | none => s

def stepOld (s : St) : Ev → St
  | .create p => { running := bump s.running p, ws := s.ws ++ [{ home := p }] }
  | .finish w on =>
    match s.ws[w]? with
    | some x => if x.alive then { running := drop s.running on, ws := s.ws.set w { x with alive := false } } else s
    | none => s

def run (evs : List Ev) : St := evs.foldl step {}
def runOld (evs : List Ev) : St := evs.foldl stepOld {}

/-- number of live worker coroutines created by pool `p` -/
def live (ws : List W) (p : Nat) : Nat := ws.countP (fun x => x.alive && x.home == p)

end Oc.MPool
