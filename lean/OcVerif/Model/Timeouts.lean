/-!
Model of the hooked timed waits (`core/src/syscall/unix/{sleep,usleep,nanosleep,poll,select,
pthread_cond_timedwait}.rs`) for a caller on a plain thread, and of the event loop's
`timed_wait_just` slicing (`core/src/net/event_loop.rs`).

Each call is a function from its arguments and the environment (how many "nothing ready" /
ETIMEDOUT answers the inner zero-timeout probe gives before it succeeds) to the list of waits it
requests from `EventLoops::wait_event` (nanoseconds) and its result.
-/
namespace Oc.Timeouts

def U64MAX : Nat := 18446744073709551615
def INTMAX : Nat := 2147483647
def EINVAL : Nat := 22
def ETIMEDOUT : Nat := 110
def MS : Nat := 1000000

structure Res where
  ret : Int
  errno : Nat := 0
  waits : List Nat := []        -- requested timeouts, ns
  probes : Nat := 0
  inner : List Nat := []        -- cond: relative deadlines handed to the inner pthread_cond_timedwait
deriving Repr, DecidableEq

def sleepCall (secs : Nat) : Res := { ret := 0, waits := [secs * 1000000000] }
def usleepCall (us : Nat) : Res := { ret := 0, waits := [us * 1000] }

def nanosleepCall (sec nsec : Int) : Res :=
  if sec < 0 ∨ nsec < 0 ∨ nsec > 999999999 then { ret := -1, errno := EINVAL }
  else { ret := 0, waits := [sec.toNat * 1000000000 + nsec.toNat] }

/-- `poll`: `n` = number of "nothing ready" answers the probe still gives; `t` ms left
(`INTMAX` = infinite), `x` = current step in ms -/
def pollLoop : Nat → Nat → Nat → Res → Res
  | 0, _, _, acc => { acc with ret := 1, probes := acc.probes + 1 }
  | n + 1, t, x, acc =>
    if t = 0 then { acc with ret := 0, probes := acc.probes + 1 }
    else pollLoop n (if t ≠ INTMAX then (if t > x then t - x else 0) else t) (if x < 16 then 2 * x else x)
      { acc with probes := acc.probes + 1, waits := acc.waits ++ [min t x * MS] }

def pollCall (timeoutMs : Int) (n : Nat) : Res :=
  pollLoop n (if timeoutMs < 0 then INTMAX else timeoutMs.toNat) 1 { ret := 0 }

/-- `select` timeout in milliseconds, rounded up; `none` = invalid (EINVAL) -/
def selectMsNat (sec usec : Nat) : Nat := min U64MAX (min U64MAX (sec * 1000) + (usec + 999) / 1000)

def selectMs (sec usec : Int) : Option Nat :=
  if sec < 0 ∨ usec < 0 then none else some (selectMsNat sec.toNat usec.toNat)

def selectLoop : Nat → Nat → Nat → Res → Res
  | 0, _, _, acc => { acc with ret := 1, probes := acc.probes + 1 }
  | n + 1, t, x, acc =>
    if t = 0 then { acc with ret := 0, probes := acc.probes + 1 }
    else selectLoop n (if t ≠ U64MAX then t - x else t) (if x < 16 then 2 * x else x)
      { acc with probes := acc.probes + 1, waits := acc.waits ++ [min t x * MS] }

/-- `tv = none`: null timeout pointer (wait forever) -/
def selectCall (tv : Option (Int × Int)) (n : Nat) : Res :=
  match tv with
  | none => selectLoop n U64MAX 1 { ret := 0 }
  | some (sec, usec) =>
    match selectMs sec usec with
    | none => { ret := -1, errno := EINVAL }
    | some t => selectLoop n t 1 { ret := 0 }

def slice10 (left : Nat) : Nat := if left > 10000000 then 10000000 else left

/-- `pthread_cond_timedwait`: `n` = ETIMEDOUT answers of the inner call before it returns 0;
returns (result, final clock) -/
def condLoop : Nat → Nat → Nat → Res → Res × Nat
  | n, now, abst, acc =>
    if abst - now = 0 then ({ acc with ret := ETIMEDOUT }, now)
    else match n with
      | 0 => ({ acc with ret := 0, probes := acc.probes + 1, inner := acc.inner ++ [slice10 (abst - now)] }, now)
      | n + 1 =>
        condLoop n (min U64MAX (now + slice10 (abst - now))) abst
          { acc with probes := acc.probes + 1, inner := acc.inner ++ [slice10 (abst - now)],
                     waits := acc.waits ++ [slice10 (abst - now)] }

/-- `abst = none`: null abstime (no timeout); invalid timespecs are rejected before the loop -/
def condCall (abstime : Option (Int × Int)) (now : Nat) (n : Nat) : Res × Nat :=
  match abstime with
  | none => condLoop n now U64MAX { ret := 0 }
  | some (sec, nsec) =>
    if sec < 0 ∨ nsec < 0 ∨ nsec > 999999999 then ({ ret := EINVAL }, now)
    else condLoop n now (min U64MAX (sec.toNat * 1000000000 + nsec.toNat)) { ret := 0 }

/-- the virtual clock after the recorded waits (each wait elapses exactly; u64 saturation) -/
def clockAfter (now : Nat) (waits : List Nat) : Nat :=
  waits.foldl (fun t w => min U64MAX (t + min w U64MAX)) now

/-- `EventLoop::timed_wait_just(Some d)`: 10 ms slices until the deadline. The environment grants
each slice an actual duration `d + e` with the slack `e` taken from `slack` (0 when exhausted).
Returns the final clock. -/
def timedWaitJust (now deadline : Nat) (slack : List Nat) : Nat :=
  if deadline ≤ now then now
  else timedWaitJust (now + min (deadline - now) 10000000 + slack.headD 0) deadline slack.tail
termination_by deadline - now
decreasing_by omega

end Oc.Timeouts
