/-!
Interleaving model of `BeanFactory::get_or_default` (`core/src/common/beans.rs`): any number of
threads, each with a list of bean names to look up; one atomic action per step; any thread may move.

After the `fix:` commit a lookup is `map.get(name)` (fast path) followed, on a miss, by
`map.entry(name).or_insert_with(create)` — the entry call is atomic per key (DashMap shard lock).
The pre-fix protocol (`get`, then `insert` of a freshly created instance) is kept as `stepOld`.
-/
namespace Oc.Conc.Beans

abbrev Name := Nat
abbrev Inst := Nat

inductive Pc where
  | idle
  | missed (n : Name)             -- fast path saw no entry, about to call entry().or_insert_with
  | created (n : Name) (i : Inst) -- (old protocol) instance created, about to insert it
deriving Repr, DecidableEq

structure Th where
  pc : Pc := .idle
  todo : List Name
  got : List (Name × Inst) := []
deriving Repr, DecidableEq

structure Cfg where
  map : List (Name × Inst) := []
  next : Inst := 1
  ths : List Th
deriving Repr, DecidableEq

def find (m : List (Name × Inst)) (n : Name) : Option Inst := (m.find? (fun e => e.1 == n)).map (·.2)

/-- one atomic step of a thread (fixed protocol) -/
def stepTh (map : List (Name × Inst)) (next : Inst) (t : Th) : Option (List (Name × Inst) × Inst × Th) :=
  match t.pc, t.todo with
  | .idle, [] => none
  | .idle, n :: r =>
    match find map n with
    | some i => some (map, next, { t with todo := r, got := (n, i) :: t.got })   -- fast path hit
    | none => some (map, next, { t with pc := .missed n, todo := r })
  | .missed n, _ =>
    -- entry(n).or_insert_with(create): atomic
    match find map n with
    | some i => some (map, next, { t with pc := .idle, got := (n, i) :: t.got })
    | none => some ((n, next) :: map, next + 1, { t with pc := .idle, got := (n, next) :: t.got })
  | .created _ _, _ => none

inductive Step : Cfg → Cfg → Prop
  | mk (c : Cfg) (k : Nat) (h : k < c.ths.length) (m' : List (Name × Inst)) (nx' : Inst) (t' : Th)
      (hs : stepTh c.map c.next c.ths[k] = some (m', nx', t')) : Step c ⟨m', nx', c.ths.set k t'⟩

inductive Reach (c0 : Cfg) : Cfg → Prop
  | refl : Reach c0 c0
  | step {c c'} : Reach c0 c → Step c c' → Reach c0 c'

/-- pre-fix protocol: get; on a miss create an instance, then insert it unconditionally and use it -/
def stepOld (map : List (Name × Inst)) (next : Inst) (t : Th) : Option (List (Name × Inst) × Inst × Th) :=
  match t.pc, t.todo with
  | .idle, [] => none
  | .idle, n :: r =>
    match find map n with
    | some i => some (map, next, { t with todo := r, got := (n, i) :: t.got })
    | none => some (map, next + 1, { t with pc := .created n next, todo := r })
  | .created n i, _ => some ((n, i) :: map, next, { t with pc := .idle, got := (n, i) :: t.got })
  | .missed _, _ => none

def runOld : List (Name × Inst) × Inst × List Th → List Nat → Option (List (Name × Inst) × Inst × List Th)
  | c, [] => some c
  | (m, nx, ths), k :: sched =>
    match ths[k]? with
    | none => none
    | some t => match stepOld m nx t with
      | none => none
      | some (m', nx', t') => runOld (m', nx', ths.set k t') sched

end Oc.Conc.Beans
