/-!
Interleaving model of the shared queue's length protocol
(`WorkStealQueue::{push,pop}` / `OrderedWorkStealQueue::{push_with_priority,pop}`):

  push:  len.fetch_add(1);  injector.push(item)
  pop :  if len == 0 { return None };  injector.steal() → Success ⇒ len.fetch_sub(1)

Any number of threads, each with an arbitrary list of operations; one atomic operation per step;
any thread may move. The injector itself is a linearizable object (trusted): only its size matters.
-/
namespace Oc.Conc.Len

inductive Op | push | pop
deriving DecidableEq, Repr

inductive Pc | idle | pushPut | popSteal | popDec
deriving DecidableEq, Repr

structure Th where
  pc : Pc
  todo : List Op
deriving Repr, DecidableEq

structure Cfg where
  inj : Nat
  len : Nat
  ths : List Th
deriving Repr, DecidableEq

/-- one atomic step of a thread against the shared (inj, len) -/
def stepTh (inj len : Nat) (t : Th) : Option (Nat × Nat × Th) :=
  match t.pc, t.todo with
  | .idle, [] => none
  | .idle, .push :: r => some (inj, len + 1, ⟨.pushPut, r⟩)            -- len.fetch_add(1)
  | .pushPut, r => some (inj + 1, len, ⟨.idle, r⟩)                      -- injector.push
  | .idle, .pop :: r => if len = 0 then some (inj, len, ⟨.idle, r⟩)      -- fast path: None
                        else some (inj, len, ⟨.popSteal, r⟩)
  | .popSteal, r => if inj = 0 then some (inj, len, ⟨.idle, r⟩)          -- Steal::Empty
                    else some (inj - 1, len, ⟨.popDec, r⟩)               -- Steal::Success
  | .popDec, r => some (inj, len - 1, ⟨.idle, r⟩)                       -- len.fetch_sub(1)

inductive Step : Cfg → Cfg → Prop
  | mk (c : Cfg) (i : Nat) (h : i < c.ths.length) (inj' len' : Nat) (t' : Th)
      (hs : stepTh c.inj c.len c.ths[i] = some (inj', len', t')) :
      Step c ⟨inj', len', c.ths.set i t'⟩

inductive Reach (c0 : Cfg) : Cfg → Prop
  | refl : Reach c0 c0
  | step {c c'} : Reach c0 c → Step c c' → Reach c0 c'

/-- threads that have counted an item not (yet / any more) in the injector -/
def pend (t : Th) : Bool := t.pc == .pushPut || t.pc == .popDec

def Inv (c : Cfg) : Prop := c.len = c.inj + c.ths.countP pend

def quiescent (c : Cfg) : Prop := ∀ t ∈ c.ths, t.pc = .idle

/-- the protocol as it was before the `fix:` commit: `len.store(len.load() ± 1)` after the
injector operation — two steps with a thread-local register. Used for the counterexample. -/
inductive PcOld | idle | pushLoad | pushStore (v : Nat) | popSteal | popLoad | popStore (v : Nat)
deriving DecidableEq, Repr

structure ThOld where
  pc : PcOld
  todo : List Op
deriving Repr, DecidableEq

def stepOld (inj len : Nat) (t : ThOld) : Option (Nat × Nat × ThOld) :=
  match t.pc, t.todo with
  | .idle, [] => none
  | .idle, .push :: r => some (inj + 1, len, ⟨.pushLoad, r⟩)           -- injector.push
  | .pushLoad, r => some (inj, len, ⟨.pushStore len, r⟩)                -- len.load()
  | .pushStore v, r => some (inj, v + 1, ⟨.idle, r⟩)                    -- len.store(v+1)
  | .idle, .pop :: r => if len = 0 then some (inj, len, ⟨.idle, r⟩) else some (inj, len, ⟨.popSteal, r⟩)
  | .popSteal, r => if inj = 0 then some (inj, len, ⟨.idle, r⟩) else some (inj - 1, len, ⟨.popLoad, r⟩)
  | .popLoad, r => some (inj, len, ⟨.popStore len, r⟩)
  | .popStore v, r => some (inj, v - 1, ⟨.idle, r⟩)

/-- run a schedule (list of thread indices) on the old protocol -/
def runOld : Nat × Nat × List ThOld → List Nat → Option (Nat × Nat × List ThOld)
  | c, [] => some c
  | (inj, len, ths), i :: sched =>
    match ths[i]? with
    | none => none
    | some t => match stepOld inj len t with
      | none => none
      | some (inj', len', t') => runOld (inj', len', ths.set i t') sched

end Oc.Conc.Len
