/-!
Interleaving model of joining a task: `CoroutinePool::wait_task_result` (a plain-thread waiter)
against `try_run`'s completion (`results.insert` then `notify`), at the granularity of the code's
own atomic steps. One task, one waiter, one completer, plus the environment letting the waiter's
deadline pass; all state is keyed by the task id in the code, so other tasks are a frame.

waiter:    w1 take result? → w2 register waiter (pending := true) → w2' take result? (the re-check
           added by the `fix:` commit) → w3 blocked while pending ∧ ¬expired → w4 take result?
completer: c1 results.insert(outcome) → c2 notify: remove the waiter entry, pending := false
-/
namespace Oc.Conc.Join

inductive Outcome where
  | value (v : Nat) | panicked (m : String)
deriving Repr, DecidableEq

inductive WPc where
  | start | atRegister | atRecheck | blocked | atFinalTake
  | returned (r : Option Outcome)        -- `none` = TimedOut
deriving Repr, DecidableEq

inductive CPc where
  | start | atNotify | done
deriving Repr, DecidableEq

structure Cfg where
  res : Option Outcome := none      -- the results map entry
  registered : Bool := false        -- the waits map entry
  pending : Bool := true            -- the flag inside the registered waiter
  expired : Bool := false           -- the waiter's deadline has passed
  wpc : WPc := .start
  cpc : CPc := .start
  outcome : Outcome                 -- what the task produces
  /-- with the re-check after registration (`true` = the code after the fix) -/
  recheck : Bool := true
deriving Repr, DecidableEq

inductive Act where
  | waiter | completer | expire
deriving Repr, DecidableEq

/-- one atomic step; `none` = that thread cannot move now -/
def step (c : Cfg) : Act → Option Cfg
  | .expire => some { c with expired := true }
  | .completer =>
    match c.cpc with
    | .start => some { c with res := some c.outcome, cpc := .atNotify }
    | .atNotify => some { c with registered := false, pending := if c.registered then false else c.pending, cpc := .done }
    | .done => none
  | .waiter =>
    match c.wpc with
    | .start =>
      match c.res with
      | some r => some { c with res := none, wpc := .returned (some r) }
      | none => some { c with wpc := .atRegister }
    | .atRegister =>
      if c.recheck then some { c with registered := true, pending := true, wpc := .atRecheck }
      else some { c with registered := true, pending := true, wpc := .blocked }
    | .atRecheck =>
      match c.res with
      | some r => some { c with res := none, registered := false, wpc := .returned (some r) }
      | none => some { c with wpc := .blocked }
    | .blocked => if c.pending && !c.expired then none else some { c with wpc := .atFinalTake }
    | .atFinalTake =>
      match c.res with
      | some r => some { c with res := none, registered := false, wpc := .returned (some r) }
      | none => some { c with wpc := .returned none }
    | .returned _ => none

inductive Reach (c0 : Cfg) : Cfg → Prop
  | refl : Reach c0 c0
  | step {c c' : Cfg} (a : Act) : Reach c0 c → step c a = some c' → Reach c0 c'

def run (c : Cfg) : List Act → Cfg
  | [] => c
  | a :: as => run ((step c a).getD c) as

end Oc.Conc.Join
