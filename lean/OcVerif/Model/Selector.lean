/-!
Model of the readiness-interest bookkeeping (`core/src/net/selector/mod.rs`, the `Selector` trait
over one poller) together with the kernel's epoll table:

* runtime records: `R`/`W` (READABLE/WRITABLE_RECORDS), `RT`/`WT` (…_TOKEN_RECORDS), `TF` (TOKEN_FD)
* kernel table `K : fd ↦ (read?, write?, token)` with Linux `epoll_ctl` semantics
  (ADD fails on a present fd, MOD and DEL fail on an absent one, closing the fd removes the entry).
-/
namespace Oc.Sel

abbrev Fd := Nat
abbrev Tok := Nat

structure KEnt where
  r : Bool
  w : Bool
  tok : Tok
deriving Repr, DecidableEq

structure St where
  R : List Fd := []
  W : List Fd := []
  RT : List (Fd × Tok) := []
  WT : List (Fd × Tok) := []
  TF : List (Tok × Fd) := []
  K : List (Fd × KEnt) := []
  /-- descriptors whose epoll entry was (re)armed since the last poll (edge-triggered EPOLLOUT) -/
  armed : List Fd := []
deriving Repr, DecidableEq

/-- membership as a plain recursive Bool function (keeps proofs free of `simp` normal forms) -/
def has : List Nat → Nat → Bool
  | [], _ => false
  | y :: r, x => if x = y then true else has r x

def aget {α : Type} (l : List (Nat × α)) (k : Nat) : Option α := (l.find? (fun e => e.1 == k)).map (·.2)
def adel {α : Type} (l : List (Nat × α)) (k : Nat) : List (Nat × α) := l.filter (fun e => e.1 != k)
def aset {α : Type} (l : List (Nat × α)) (k : Nat) (v : α) : List (Nat × α) := (k, v) :: adel l k

/-- `register` = EPOLL_CTL_ADD (+ TOKEN_FD insert on success) -/
def register (s : St) (fd : Fd) (tok : Tok) (r w : Bool) : Option St :=
  match aget s.K fd with
  | some _ => none
  | none => some { s with K := aset s.K fd ⟨r, w, tok⟩, TF := aset s.TF tok fd, armed := s.armed.filter (· != fd) ++ [fd] }

/-- `reregister` = EPOLL_CTL_MOD -/
def reregister (s : St) (fd : Fd) (tok : Tok) (r w : Bool) : Option St :=
  match aget s.K fd with
  | none => none
  | some _ => some { s with K := aset s.K fd ⟨r, w, tok⟩, TF := aset s.TF tok fd, armed := s.armed.filter (· != fd) ++ [fd] }

/-- `deregister` = EPOLL_CTL_DEL -/
def deregister (s : St) (fd : Fd) (tok : Tok) : Option St :=
  match aget s.K fd with
  | none => none
  | some _ => some { s with K := adel s.K fd, TF := adel s.TF tok, armed := s.armed.filter (· != fd) }

def addRead (s : St) (fd : Fd) (tok : Tok) : St × Bool :=
  if has s.R fd then
    if aget s.RT fd = some tok then (s, true) else
    -- another waiter (or the event was already delivered): point the registration at this waiter
    match reregister s fd tok true (has s.W fd) with
    | none => (s, false)
    | some s' => ({ s' with RT := aset s'.RT fd tok }, true)
  else
  match (if has s.W fd then (reregister s fd tok true true).orElse (fun _ => register s fd tok true true)
         else register s fd tok true false) with
  | none => (s, false)
  | some s' => ({ s' with R := fd :: s'.R, RT := aset s'.RT fd tok }, true)

def addWrite (s : St) (fd : Fd) (tok : Tok) : St × Bool :=
  if has s.W fd then
    if aget s.WT fd = some tok then (s, true) else
    match reregister s fd tok (has s.R fd) true with
    | none => (s, false)
    | some s' => ({ s' with WT := aset s'.WT fd tok }, true)
  else
  match (if has s.R fd then (reregister s fd tok true true).orElse (fun _ => register s fd tok true true)
         else register s fd tok false true) with
  | none => (s, false)
  | some s' => ({ s' with W := fd :: s'.W, WT := aset s'.WT fd tok }, true)

def delEvent (s : St) (fd : Fd) : St × Bool :=
  if has s.R fd || has s.W fd then
    -- `READABLE_TOKEN_RECORDS.remove(fd).or(WRITABLE_TOKEN_RECORDS.remove(fd))`: both are removed
    let tok := ((aget s.RT fd).orElse (fun _ => aget s.WT fd)).getD 0
    let s1 := { s with RT := adel s.RT fd, WT := adel s.WT fd }
    match deregister s1 fd tok with
    | none => (s1, false)
    | some s2 => ({ s2 with R := s2.R.filter (· != fd), W := s2.W.filter (· != fd) }, true)
  else (s, true)

def delRead (s : St) (fd : Fd) : St × Bool :=
  if has s.R fd then
    if has s.W fd then
      match reregister s fd ((aget s.WT fd).getD 0) false true with
      | none => (s, false)
      | some s' => ({ s' with R := s'.R.filter (· != fd), RT := adel s'.RT fd }, true)
    else delEvent s fd
  else (s, true)

def delWrite (s : St) (fd : Fd) : St × Bool :=
  if has s.W fd then
    if has s.R fd then
      match reregister s fd ((aget s.RT fd).getD 0) true false with
      | none => (s, false)
      | some s' => ({ s' with W := s'.W.filter (· != fd), WT := adel s'.WT fd }, true)
    else delEvent s fd
  else (s, true)

/-- hooked `close(fd)`: drop the interest, then the kernel closes the descriptor (its epoll entry goes) -/
def closeFd (s : St) (fd : Fd) : St × Bool :=
  ({ (delEvent s fd).1 with K := adel (delEvent s fd).1.K fd, armed := (delEvent s fd).1.armed.filter (· != fd) }, (delEvent s fd).2)

/-- `select` bookkeeping for one delivered event -/
def onEvent (s : St) (tok : Tok) (readable writable : Bool) : St :=
  let fd := (aget s.TF tok).getD 0
  { s with TF := adel s.TF tok,
           RT := if readable then adel s.RT fd else s.RT,
           WT := if writable then adel s.WT fd else s.WT }

/-- the descriptor becomes readable (one edge) and the poller is polled: the kernel reports, per
ready entry, the entry's token with the ready interests — the target if it has read interest, and
every freshly armed entry with write interest (a socket is always writable). Returns the tokens of
the *readable* events. -/
def evStep (armed : List Fd) (fd : Fd) (acc : St × List Tok) (f : Fd) : St × List Tok :=
  match aget acc.1.K f with
  | none => acc
  | some e =>
    if (f == fd && e.r) || (e.w && has armed f) then
      (onEvent acc.1 e.tok (f == fd && e.r) (e.w && ((e.w && has armed f) || (f == fd && e.r))),
       if (f == fd && e.r) then acc.2 ++ [e.tok] else acc.2)
    else acc

/-- the order in which the kernel hands out the events of one poll: entries are queued when they
become ready — armed entries with write interest at arming time, the target's readability last -/
def pollOrder (s : St) (fd : Fd) : List Fd :=
  s.armed.filter (fun f => (aget s.K f).any (·.w)) ++
    (if has s.armed fd && (aget s.K fd).any (·.w) then [] else [fd])

def readyRead (s : St) (fd : Fd) : St × List Tok :=
  ({ ((pollOrder s fd).foldl (evStep s.armed fd) (s, [])).1 with armed := [] },
   ((pollOrder s fd).foldl (evStep s.armed fd) (s, [])).2)

/-- the tokens of the events of that same poll that carry the *writable* flag: every entry that
gets an event (the target if it has read interest, every freshly armed entry with write interest)
reports writable iff it has write interest (a socket is always writable) -/
def writableToks (s : St) (fd : Fd) : List Tok :=
  (pollOrder s fd).filterMap (fun f =>
    match aget s.K f with
    | none => none
    | some e => if ((f == fd && e.r) || (e.w && has s.armed f)) && e.w then some e.tok else none)

inductive Op where
  | addRead (fd : Fd) (tok : Tok) | addWrite (fd : Fd) (tok : Tok)
  | delRead (fd : Fd) | delWrite (fd : Fd) | del (fd : Fd) | close (fd : Fd) | ev (fd : Fd)
deriving Repr, DecidableEq

def step (s : St) : Op → St × Bool × List Tok
  | .addRead fd t => ((addRead s fd t).1, (addRead s fd t).2, [])
  | .addWrite fd t => ((addWrite s fd t).1, (addWrite s fd t).2, [])
  | .delRead fd => ((delRead s fd).1, (delRead s fd).2, [])
  | .delWrite fd => ((delWrite s fd).1, (delWrite s fd).2, [])
  | .del fd => ((delEvent s fd).1, (delEvent s fd).2, [])
  | .close fd => ((closeFd s fd).1, (closeFd s fd).2, [])
  | .ev fd => ((readyRead s fd).1, true, (readyRead s fd).2)

end Oc.Sel
