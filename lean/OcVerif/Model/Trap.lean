/-!
Model of fault handling in coroutines (`core/src/coroutine/korosensei.rs::trap_handler`,
`coroutine/mod.rs::stack_ptr_in_bounds`): a fault inside a coroutine ends that coroutine with
`Error(msg)`; `msg` is "stack overflow" exactly when the faulting stack pointer is outside every
registered segment `[bottom, top)`.
-/
namespace Oc.Trap

structure Seg where
  top : Nat
  bottom : Nat
deriving Repr, DecidableEq

/-- `stack_ptr_in_bounds` -/
def inBounds (segs : List Seg) (sp : Nat) : Bool := segs.any (fun s => decide (s.bottom ≤ sp) && decide (sp < s.top))

def trapMsg (segs : List Seg) (sp : Nat) : String :=
  if inBounds segs sp then "invalid memory reference" else "stack overflow"

inductive Step where
  | susp
  | ret (r : Nat)
  | fault (sp : Nat)      -- a memory fault with this stack pointer
deriving Repr, DecidableEq

inductive TSt where
  | alive | complete (r : Nat) | error (msg : String)
deriving Repr, DecidableEq

structure TCo where
  segs : List Seg
  prog : List Step
  st : TSt := .alive
deriving Repr, DecidableEq

inductive TRes where
  | susp | complete (r : Nat) | error (msg : String)
deriving Repr, DecidableEq

/-- one resume of one coroutine -/
def resume1 (c : TCo) : TCo × TRes :=
  match c.st with
  | .complete r => (c, .complete r)
  | .error m => (c, .error m)
  | .alive =>
    match c.prog with
    | [] => ({ c with st := .complete 0 }, .complete 0)
    | .susp :: rest => ({ c with prog := rest }, .susp)
    | .ret r :: _ => ({ c with prog := [], st := .complete r }, .complete r)
    | .fault sp :: _ => ({ c with prog := [], st := .error (trapMsg c.segs sp) }, .error (trapMsg c.segs sp))

/-- resume coroutine `i` of a thread's coroutines -/
def resumeAt (cos : List TCo) (i : Nat) : List TCo × Option TRes :=
  match cos[i]? with
  | none => (cos, none)
  | some c => (cos.set i (resume1 c).1, some (resume1 c).2)

def runSched : List TCo → List Nat → List (Option TRes)
  | _, [] => []
  | cos, i :: is => (resumeAt cos i).2 :: runSched (resumeAt cos i).1 is

end Oc.Trap
