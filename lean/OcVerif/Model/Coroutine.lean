/-!
Model of the coroutine state machine: `core/src/coroutine/state.rs` (guarded transitions +
`change_state` + listener broadcast), `coroutine/mod.rs::resume_with`,
`coroutine/korosensei.rs::raw_resume`, `coroutine/suspender.rs` (the thread-local `TIMESTAMP` /
`CANCEL` request stacks) and the `catch!` macro. Several coroutines share one thread.

A coroutine body is a list of steps; payloads are naturals.
-/
namespace Oc.Co

def U64MAX : Nat := 18446744073709551615

inductive SysSt where
  | exec | susp (ts : Nat) | timeout | callback
deriving Repr, DecidableEq

inductive St where
  | ready | running
  | suspend (y ts : Nat)
  | syscall (y : Nat) (name : String) (s : SysSt)
  | cancelled
  | complete (r : Nat)
  | error (msg : String)
deriving Repr, DecidableEq

inductive Step where
  | susp (y : Nat)             -- suspender.suspend_with(y)
  | delay (y d : Nat)          -- suspender.delay_with(y, d ns)
  | until_ (y ts : Nat)        -- suspender.until_with(y, ts)
  | enter                      -- co.syscall(0, nanosleep, Executing)
  | setSys (s : SysSt)         -- co.syscall(0, nanosleep, s)
  | wrongSys                   -- co.syscall(0, sleep, Executing)
  | exit                       -- co.running()
  | cancel                     -- suspender.cancel()
  | req (j : Nat)              -- Scheduler::try_cancel_coroutine(id of coroutine j), from inside the body
  | panic (k : Nat)            -- 0: panic!("boom") (&'static str), k>0: panic!("boom{k}") (String)
  | ret (r : Nat)
deriving Repr, DecidableEq

/-- one reported change: old state, new state, the specific callback (with its argument) -/
structure Ev where
  old : St
  new : St
  cb : String
deriving Repr, DecidableEq

structure Co where
  state : St := .ready
  prog : List Step
  started : Bool := false
  /-- the body has returned or panicked (the underlying context is finished) -/
  done : Bool := false
  /-- the body is parked inside `suspender.cancel()` (resuming it hits `unreachable!()`) -/
  inCancel : Bool := false
  events : List Ev := []
  got : List Nat := []
  log : List String := []
deriving Repr, DecidableEq

/-- `change_state` + `on_state_changed` + the specific callback -/
def Co.change (c : Co) (new : St) (cb : String) : Co :=
  { c with state := new, events := c.events ++ [{ old := c.state, new := new, cb := cb }] }

/-- `running()`: `none` = `Err` -/
def Co.toRunning (c : Co) (now : Nat) : Option Co :=
  match c.state with
  | .running => some c
  | .ready => some (c.change .running "running")
  | .syscall _ _ .exec => some (c.change .running "running")
  | .suspend _ ts => if ts ≤ now then some (c.change .running "running") else none
  | .syscall _ _ .callback => some c
  | .syscall _ _ .timeout => some c
  | _ => none

/-- `syscall(0, name, s)`: `none` = `Err` -/
def Co.toSyscall (c : Co) (name : String) (s : SysSt) : Option Co :=
  match c.state with
  | .running => some (c.change (.syscall 0 name s) "syscall")
  | .syscall _ orig _ => if orig = name then some (c.change (.syscall 0 name s) "syscall") else none
  | _ => none

def Co.toSuspend (c : Co) (y ts : Nat) : Option Co :=
  if c.state = .running then some (c.change (.suspend y ts) "suspend") else none
def Co.toCancelled (c : Co) : Option Co :=
  if c.state = .running then some (c.change .cancelled "cancel") else none
def Co.toComplete (c : Co) (r : Nat) : Option Co :=
  if c.state = .running then some (c.change (.complete r) s!"complete({r})") else none
def Co.toError (c : Co) (m : String) : Option Co :=
  if c.state = .running then some (c.change (.error m) s!"error({m})") else none

/-- the thread-local request stacks and the clock -/
structure Th where
  ts : List Nat := []
  cn : List Bool := []
  now : Nat
  /-- cancel requests for other coroutines issued by bodies during their slices (the process-wide
  `CANCEL_COROUTINES` insertions the scheduler will see at its next pop) -/
  req : List Nat := []
deriving Repr, DecidableEq

/-- how a slice of body execution ends -/
inductive End where
  | yielded (y : Nat)
  | returned (r : Nat)
  | panicked (msg : String)
deriving Repr, DecidableEq

def okStr : Option Co → String
  | some _ => "ok"
  | none => "err"

/-- message kept by `catch!`: `&'static str` and `String` payloads -/
def panicMsg (k : Nat) : String :=
  if k = 0 then "boom"
  else if k < 1000 then s!"boom{k}"
  -- long formatted messages with multi-byte characters: whatever their length they are kept whole
  else s!"boom{k}-" ++ String.ofList (List.replicate (k - 1000) 'é')

def Co.withLog (c : Co) (l : String) : Co := { c with log := c.log ++ [l] }

/-- run body steps until the next yield / return / panic (structural on the program) -/
def runBody (th : Th) (c : Co) : List Step → Th × Co × End
  | [] => (th, { c with prog := [], done := true }, .returned 0)
  | .susp y :: rest => (th, { c with prog := rest }, .yielded y)
  | .delay y d :: rest =>
    ({ th with ts := (if d ≤ U64MAX then min U64MAX (d + th.now) else U64MAX) :: th.ts }, { c with prog := rest }, .yielded y)
  | .until_ y t :: rest => ({ th with ts := t :: th.ts }, { c with prog := rest }, .yielded y)
  | .enter :: rest =>
    runBody th (((c.toSyscall "nanosleep" .exec).getD c).withLog ("E:" ++ okStr (c.toSyscall "nanosleep" .exec))) rest
  | .setSys s :: rest =>
    runBody th (((c.toSyscall "nanosleep" s).getD c).withLog ("T:" ++ okStr (c.toSyscall "nanosleep" s))) rest
  | .wrongSys :: rest =>
    runBody th (((c.toSyscall "sleep" .exec).getD c).withLog ("W:" ++ okStr (c.toSyscall "sleep" .exec))) rest
  | .exit :: rest =>
    runBody th (((c.toRunning th.now).getD c).withLog ("X:" ++ okStr (c.toRunning th.now))) rest
  | .cancel :: rest => ({ th with cn := true :: th.cn }, { c with prog := rest, inCancel := true }, .yielded 0)
  | .req j :: rest => runBody { th with req := th.req ++ [j] } c rest
  | .panic k :: _ => (th, { c with prog := [], done := true }, .panicked (panicMsg k))
  | .ret r :: _ => (th, { c with prog := [], done := true }, .returned r)

/-- the result reported by `resume_with` -/
inductive Res where
  | state (s : St)
  | err
  | panic
deriving Repr, DecidableEq

/-- `raw_resume` after the context switch came back with `e` -/
def afterSwitch (th : Th) (c : Co) (e : End) : Th × Co × Res :=
  match e with
  | .yielded y =>
    match c.state with
    | .running =>
      -- `is_cancel()` pops the CANCEL stack, then `timestamp()` pops the TIMESTAMP stack
      if th.cn.headD false then
        match c.toCancelled with
        | some c' => ({ th with cn := th.cn.tail }, c', .state .cancelled)
        | none => ({ th with cn := th.cn.tail }, c, .err)
      else
        match c.toSuspend y (th.ts.headD 0) with
        | some c' => ({ th with cn := th.cn.tail, ts := th.ts.tail }, c', .state (.suspend y (th.ts.headD 0)))
        | none => ({ th with cn := th.cn.tail, ts := th.ts.tail }, c, .err)
    | .syscall y' n s =>
      -- requests queued by a yield made in syscall state are dropped
      ({ th with cn := th.cn.tail, ts := th.ts.tail }, c, .state (.syscall y' n s))
    | _ => (th, c, .err)
  | .returned r =>
    match c.toComplete r with
    | some c' => (th, c', .state (.complete r))
    | none => (th, c, .err)
  | .panicked m =>
    match c.toError m with
    | some c' => (th, c', .state (.error m))
    | none => (th, c, .err)

/-- `resume_with(p)` -/
def resume (th : Th) (c : Co) (p : Nat) : Th × Co × Res :=
  match c.state with
  | .complete r => (th, c, .state (.complete r))
  | .error m => (th, c, .state (.error m))
  | _ =>
    match c.toRunning th.now with
    | none => (th, c, .err)
    | some c1 =>
      if c1.done then (th, c1, .panic)        -- resuming a finished context panics
      else if c1.inCancel then
        -- the body continues inside `cancel()` and reaches `unreachable!()`
        afterSwitch th { c1 with prog := [], done := true, inCancel := false }
          (.panicked "internal error: entered unreachable code")
      else
        afterSwitch (runBody th { c1 with started := true, got := c1.got ++ [p] } c1.prog).1
          (runBody th { c1 with started := true, got := c1.got ++ [p] } c1.prog).2.1
          (runBody th { c1 with started := true, got := c1.got ++ [p] } c1.prog).2.2

end Oc.Co
