/-!
Model of how `EventLoops::stop` learns that every event loop has finished
(`core/src/net/mod.rs` `stop`, `core/src/net/event_loop.rs` `start` and the loop thread's prologue and
epilogue): a shared count of running loops; `stop` succeeds when it reads zero.

A loop is `created`, then `spawned` (`start()` has returned, the thread exists but may not have been
scheduled yet), then `running` (the thread executes its loop: it runs the accepted tasks until the
state is not Running and nothing is left), then `exited`.  `countAtStart = true` is the code after the
repair (the count is raised in `start()`), `false` the code before it (raised by the thread itself
when it first runs).
-/
namespace Oc.LoopStop

inductive Pc where
  | created | spawned | running | exited
deriving Repr, DecidableEq

structure S where
  count : Nat := 0
  pcs : List Pc := []
  countAtStart : Bool := true
deriving Repr, DecidableEq

inductive Act where
  | start (i : Nat)      -- `EventLoop::start` for loop `i`
  | thread (i : Nat)     -- the next step of loop `i`'s thread
deriving Repr, DecidableEq

def step (s : S) : Act → S
  | .start i =>
    match s.pcs[i]? with
    | some .created => { s with pcs := s.pcs.set i .spawned, count := if s.countAtStart then s.count + 1 else s.count }
    | _ => s
  | .thread i =>
    match s.pcs[i]? with
    | some .spawned => { s with pcs := s.pcs.set i .running, count := if s.countAtStart then s.count else s.count + 1 }
    | some .running => { s with pcs := s.pcs.set i .exited, count := s.count - 1 }
    | _ => s

def run (s : S) (as : List Act) : S := as.foldl step s

/-- what `stop` sees: no loop is counted as running -/
def stopSeesZero (s : S) : Bool := s.count == 0

/-- loops whose thread exists and has not finished -/
def alive (s : S) : Nat := s.pcs.countP (fun p => p == .spawned || p == .running)

end Oc.LoopStop
