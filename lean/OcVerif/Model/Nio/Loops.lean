/-!
Model of the hooked socket I/O retry loops in `core/src/syscall/unix/mod.rs`:

* `impl_nio_read_buf!`  (recv, read, recvfrom, pread)        — `Kind.readBuf`
* `impl_nio_write_buf!` (send, write, sendto, pwrite)        — `Kind.writeBuf`
* `impl_nio_read!`      (readv, preadv, recvmsg, accept…)    — `Kind.readVec`
* `impl_nio_write!`     (writev, pwritev, sendmsg)           — `Kind.writeVec`

The kernel is a parameter: `calls` answers the inner (non-blocking) system calls in order,
`waits` answers `EventLoops::wait_{read,write}_event` in order. Time is virtual nanoseconds.
-/
namespace Oc.Nio

def U64MAX : Nat := 2 ^ 64 - 1
def SLICE : Nat := 10000000          -- 10 ms
def EAGAIN : Nat := 11
def EINTR : Nat := 4
def ECONNRESET : Nat := 104

/-- answer of one inner system call -/
inductive CResp where
  | moved (n : Nat)       -- transferred n bytes (clamped to the request)
  | again                 -- -1 / EAGAIN
  | intr                  -- -1 / EINTR
  | err (e : Nat)         -- -1 / errno e  (e ∉ {EAGAIN, EINTR})
deriving Repr, DecidableEq

/-- answer of one readiness wait -/
inductive WResp where
  | full                  -- nothing happened, the whole timeout elapsed
  | ev (ns : Nat)         -- readiness after `ns` (clamped to the timeout)
  | fail                  -- the wait itself failed
deriving Repr, DecidableEq

inductive Kind | readBuf | writeBuf | readVec | writeVec
deriving Repr, DecidableEq

def Kind.isVec : Kind → Bool
  | .readVec | .writeVec => true
  | _ => false

/-- one request handed to the inner call: byte ranges relative to the caller's concatenated
buffers, and the element count reported alongside -/
structure Req where
  ranges : List (Nat × Nat)      -- (offset, length)
  count : Nat
deriving Repr, DecidableEq

structure Out where
  ret : Int
  errno : Nat
  reqs : List Req
  waits : List Nat              -- requested timeouts, ns
  blockingAfter : Bool
  elapsed : Nat
  moved : Nat                   -- Σ bytes the kernel reported as transferred
  /-- errno of the last failing inner call, if any -/
  lastErr : Option Nat
deriving Repr, DecidableEq

/-- the caller's buffers: segment lengths (a plain buffer is one segment) -/
abbrev Shape := List Nat

def Shape.total (s : Shape) : Nat := s.sum

def rangesFrom : Nat → Shape → List (Nat × Nat)
  | _, [] => []
  | off, l :: r => (off, l) :: rangesFrom (off + l) r

structure St where
  received : Nat := 0
  r : Int := -1
  errno : Nat := 0
  now : Nat
  left : Nat
  waits : List WResp
  reqs : List Req := []
  wlog : List Nat := []
  moved : Nat := 0
  lastErr : Option Nat := none

/-- the request issued by one loop iteration -/
def request (k : Kind) (shape : Shape) (received : Nat) : Req :=
  if k.isVec then { ranges := rangesFrom 0 shape, count := shape.length }
  else { ranges := [(received, shape.total - received)], count := 1 }

def requested (k : Kind) (shape : Shape) (received : Nat) : Nat :=
  if k.isVec then shape.total else shape.total - received

def addReq (k : Kind) (shape : Shape) (st : St) : St :=
  { st with reqs := st.reqs ++ [request k shape st.received] }

/-- an inner call failed with errno `e` -/
def failWith (st : St) (e : Nat) : St := { st with r := -1, errno := e, lastErr := some e }

/-- an inner call transferred `n` bytes (clamped). A success always ends the loop: either the
explicit `break`, or errno = 0 is neither `WouldBlock` nor `Interrupted`. -/
def onMoved (k : Kind) (shape : Shape) (st : St) (n : Nat) : St :=
  { st with
    received := st.received + min n (requested k shape st.received),
    r := if k.isVec then Int.ofNat (min n (requested k shape st.received))
         else if st.received + min n (requested k shape st.received) ≥ shape.total ∨
                 (k = .readBuf ∧ min n (requested k shape st.received) = 0)
              then Int.ofNat (st.received + min n (requested k shape st.received))
              else Int.ofNat (min n (requested k shape st.received)),
    errno := 0,
    moved := st.moved + min n (requested k shape st.received) }

def leftTime (start limit now : Nat) : Nat := (min U64MAX (start + limit)) - now
def waitTime (start limit now : Nat) : Nat := min (leftTime start limit now) SLICE

/-- `left_time = …; wait_time = …;` and the wait is issued -/
def prepWait (start limit : Nat) (st : St) : St :=
  { st with left := leftTime start limit st.now, wlog := st.wlog ++ [waitTime start limit st.now] }

/-- the wait itself failed: the buffer loops report `received`, the others keep -1 -/
def waitFailed (k : Kind) (st : St) : St := if k.isVec then st else { st with r := Int.ofNat st.received }

/-- the retry loop; structural recursion on the script of inner-call answers (an exhausted
script answers `ECONNRESET`, which ends every loop) -/
def loop (k : Kind) (shape : Shape) (blocking : Bool) (start limit : Nat) : List CResp → St → St
  | calls, st =>
    if st.left = 0 then st else
    match calls with
    | [] => failWith (addReq k shape st) ECONNRESET
    | .moved n :: _ => onMoved k shape (addReq k shape st) n
    | .err e :: _ => failWith (addReq k shape st) e
    | .intr :: rest => loop k shape blocking start limit rest (failWith (addReq k shape st) EINTR)
    | .again :: rest =>
      if !blocking then failWith (addReq k shape st) EAGAIN else
      match st.waits with
      | [] => waitFailed k (prepWait start limit (failWith (addReq k shape st) EAGAIN))
      | .fail :: _ => waitFailed k (prepWait start limit (failWith (addReq k shape st) EAGAIN))
      | .full :: ws =>
        loop k shape blocking start limit rest
          { prepWait start limit (failWith (addReq k shape st) EAGAIN) with
            now := st.now + waitTime start limit st.now, waits := ws }
      | .ev ns :: ws =>
        loop k shape blocking start limit rest
          { prepWait start limit (failWith (addReq k shape st) EAGAIN) with
            now := st.now + min ns (waitTime start limit st.now), waits := ws }

/-- the loop's final state for a whole call -/
def final (k : Kind) (shape : Shape) (blockingBefore : Bool) (limit : Nat) (start : Nat)
    (calls : List CResp) (waits : List WResp) : St :=
  loop k shape blockingBefore start limit calls { now := start, left := limit, waits := waits }

/-- a whole hooked call on a socket: switch to non-blocking, loop, restore -/
def call (k : Kind) (shape : Shape) (blockingBefore : Bool) (limit : Nat) (start : Nat)
    (calls : List CResp) (waits : List WResp) : Out :=
  { ret := (final k shape blockingBefore limit start calls waits).r,
    errno := (final k shape blockingBefore limit start calls waits).errno,
    reqs := (final k shape blockingBefore limit start calls waits).reqs,
    waits := (final k shape blockingBefore limit start calls waits).wlog,
    -- `if blocking { set_blocking(fd) }` after `if blocking { set_non_blocking(fd) }`
    blockingAfter := if blockingBefore then true else (if blockingBefore then false else blockingBefore),
    elapsed := (final k shape blockingBefore limit start calls waits).now - start,
    moved := (final k shape blockingBefore limit start calls waits).moved,
    lastErr := (final k shape blockingBefore limit start calls waits).lastErr }

/-! ### hooked `connect` (`core/src/syscall/unix/connect.rs`)

One inner `connect`; on a blocking descriptor an answer that means "under way" (EINPROGRESS,
EALREADY, EWOULDBLOCK, EINTR) is followed by one wait for writability of at most a slice, after which
the socket's own state (`getpeername`, `SO_ERROR`) decides. `peerOk` is that state as the environment
presents it after the wait: connected without a pending error (the harness uses a connected pair). -/

def EINPROGRESS : Nat := 115
def EALREADY : Nat := 114

def underWay (e : Nat) : Bool := e == EINPROGRESS || e == EALREADY || e == EAGAIN || e == EINTR

def errnoOf : CResp → Nat
  | .again => EINPROGRESS     -- the script's "would block" token means EINPROGRESS for connect
  | .intr => EINTR
  | .err e => e
  | .moved _ => 0

def ETIMEDOUT : Nat := 110

/-- `if r == -1 && errno == ETIMEDOUT { set_errno(EINPROGRESS) }` at the end of the hooked connect -/
def remapTimeout (o : Out) : Out := if o.ret = -1 ∧ o.errno = ETIMEDOUT then { o with errno := EINPROGRESS } else o

/-- what the socket says once the wait is over: `pending = some e` is an asynchronous failure
(`SO_ERROR`, e.g. ECONNREFUSED), `none` a connection -/
def afterWait (o : Out) (pending : Option Nat) : Out :=
  match pending with
  | some e => { o with ret := -1, errno := e }
  | none => o

def connectCore (blocking : Bool) (limit : Nat) (start : Nat) (first : CResp) (waits : List WResp) (pending : Option Nat := none) : Out :=
  let base : Out := { ret := 0, errno := 0, reqs := [⟨[], 1⟩], waits := [], blockingAfter := blocking, elapsed := 0, moved := 0, lastErr := none }
  match first with
  | .moved _ => base                                            -- connected at once
  | r =>
    if !blocking then { base with ret := -1, errno := errnoOf r, lastErr := some (errnoOf r) }
    else if !underWay (errnoOf r) then { base with ret := -1, errno := errnoOf r, lastErr := some (errnoOf r) }
    else
      match waits with
      | .fail :: _ => { base with ret := -1, errno := errnoOf r, lastErr := some (errnoOf r), waits := [waitTime start limit start] }
      | .full :: _ => afterWait { base with waits := [waitTime start limit start], elapsed := waitTime start limit start, lastErr := some (errnoOf r) } pending
      | .ev ns :: _ => afterWait { base with waits := [waitTime start limit start], elapsed := min ns (waitTime start limit start), lastErr := some (errnoOf r) } pending
      | [] => { base with ret := -1, errno := errnoOf r, lastErr := some (errnoOf r), waits := [waitTime start limit start] }

def connectCall (blocking : Bool) (limit : Nat) (start : Nat) (first : CResp) (waits : List WResp) (pending : Option Nat := none) : Out :=
  remapTimeout (connectCore blocking limit start first waits pending)

end Oc.Nio
