import OcVerif.Model.Nio.Loops
/-!
C16 / C17 / C18 as executable predicates over what was *observed* of one hooked call:
the kernel script, the caller's shape and mode, and the call's outputs.
-/
namespace Oc.Spec.Nio
open Oc.Nio

/-- observed facts of one hooked call -/
structure Obs where
  kind : Kind
  shape : Shape
  blockingBefore : Bool
  calls : List CResp
  ret : Int
  errno : Nat
  reqs : List (List (Option Nat × Nat) × Nat)   -- ranges (offset, none = outside the caller's buffers) and reported count
  waits : List Nat
  blockingAfter : Bool
  moved : Nat
  lastErr : Nat
  placedOk : Bool

def firstIsMoved (cs : List CResp) : Bool := match cs with | .moved _ :: _ => true | _ => false
def firstIsAgain (cs : List CResp) : Bool := match cs with | .again :: _ => true | _ => false

/-- C16: the return value is the number of bytes moved; -1 only if nothing moved, with the errno of
the failing call; moved bytes are the next bytes of the stream, in order, none twice; a
zero-length request returns 0. Returns the list of violated clauses. -/
def c16 (o : Obs) : List String :=
  (if o.moved > 0 ∧ o.ret ≠ Int.ofNat o.moved then [s!"[ret-not-total] returned {o.ret} but {o.moved} bytes were moved"] else []) ++
  (if o.ret = -1 ∧ o.moved > 0 then [s!"[minus-one-after-progress] returned -1 although {o.moved} bytes were moved"] else []) ++
  (if o.ret = -1 ∧ o.moved = 0 ∧ o.lastErr ≠ 0 ∧ o.errno ≠ o.lastErr then [s!"[errno] errno {o.errno} is not the failing call's errno {o.lastErr}"] else []) ++
  (if o.ret ≥ 0 ∧ o.ret ≠ Int.ofNat o.moved then [s!"[ret-not-total] returned {o.ret}, moved {o.moved}"] else []) ++
  (if o.ret < -1 then [s!"[ret-range] returned {o.ret}"] else []) ++
  (if !o.placedOk then ["[placement] moved bytes are not the next stream bytes in order in the caller's buffers"] else []) ++
  (if o.shape.total = 0 ∧ firstIsMoved o.calls ∧ o.ret ≠ 0 then [s!"[zero-length] zero-length request returned {o.ret}"] else [])

/-- bytes moved before the k-th request, from the script (each answer clamped to what was requested) -/
def movedBefore (k : Kind) (shape : Shape) : List CResp → Nat → Nat → Nat
  | _, 0, acc => acc
  | [], _, acc => acc
  | .moved n :: cs, j + 1, acc => movedBefore k shape cs j (acc + min n (shape.total - acc))
  | _ :: cs, j + 1, acc => movedBefore k shape cs j acc

/-- the byte positions a request covers, or none if a range is outside the caller's buffers -/
def positions : List (Option Nat × Nat) → Option (List Nat)
  | [] => some []
  | (none, l) :: r => if l = 0 then positions r else none
  | (some off, l) :: r => (positions r).map fun ps => (List.range l).map (· + off) ++ ps

/-- C17: every vectored request describes exactly the not-yet-transferred bytes of the caller's
buffers, in order, and the reported element count matches the array. -/
def c17 (o : Obs) : List String :=
  if !o.kind.isVec then [] else
  (o.reqs.zipIdx.flatMap fun (rq, idx) =>
    let m := movedBefore o.kind o.shape o.calls idx 0
    let want := (List.range (o.shape.total - m)).map (· + m)
    (match positions rq.1 with
      | none => [s!"[range-outside] request {idx} has a range outside the caller's buffers"]
      | some ps => if ps == want then [] else [s!"[range-not-unfilled] request {idx} covers {ps.take 12} but the unfilled bytes are {want.take 12}"]) ++
    (if rq.2 = rq.1.length then [] else [s!"[count] request {idx} reports {rq.2} elements for an array of {rq.1.length}"]))

/-- C18: the blocking mode is left as the caller set it; a non-blocking descriptor gets EAGAIN
immediately instead of waiting. -/
def c18 (o : Obs) : List String :=
  (if o.blockingAfter ≠ o.blockingBefore then [s!"[flag] blocking mode {o.blockingBefore} became {o.blockingAfter}"] else []) ++
  (if !o.blockingBefore ∧ firstIsAgain o.calls ∧ ¬(o.ret = -1 ∧ o.errno = EAGAIN ∧ o.waits = []) then
     [s!"[nonblocking-waited] non-blocking descriptor: ret={o.ret} errno={o.errno} waits={o.waits}"] else []) ++
  (if !o.blockingBefore ∧ o.waits ≠ [] then [s!"[nonblocking-waited] a wait was issued on a non-blocking descriptor"] else [])

/-- the observation the *model* produces for a call (what the theorems are about) -/
def ofModel (k : Kind) (shape : Shape) (blockingBefore : Bool) (calls : List CResp) (out : Out) : Obs :=
  { kind := k, shape := shape, blockingBefore := blockingBefore, calls := calls, ret := out.ret, errno := out.errno,
    reqs := out.reqs.map (fun r => (r.ranges.map (fun p => (some p.1, p.2)), r.count)),
    waits := out.waits, blockingAfter := out.blockingAfter, moved := out.moved,
    lastErr := out.lastErr.getD 0, placedOk := true }

end Oc.Spec.Nio
