import OcVerif.Model.Coroutine
/-! The documented coroutine state graph (C07), on model states and on rendered state strings. -/
namespace Oc.Spec.C07
open Oc.Co

/-- Ready→Running; Running→Suspend|Syscall|Complete|Error|Cancelled; Syscall→Running or Syscall of
the same call; Suspend→Ready|Running -/
def legal : St → St → Bool
  | .ready, .running => true
  | .running, .suspend _ _ => true
  | .running, .syscall _ _ _ => true
  | .running, .complete _ => true
  | .running, .error _ => true
  | .running, .cancelled => true
  | .syscall _ _ _, .running => true
  | .syscall _ n _, .syscall _ n' _ => n == n'
  | .suspend _ _, .ready => true
  | .suspend _ _, .running => true
  | _, _ => false

def isTerminal : St → Bool
  | .complete _ | .error _ | .cancelled => true
  | _ => false

/-- the same graph on the harness' rendering of states (`Ready`, `Running`, `Susp(y,t)`,
`Sys(y,name,st)`, `Canc`, `Comp(r)`, `Err(m)`) -/
def kind (s : String) : String :=
  if s == "Ready" then "ready" else if s == "Running" then "running" else if s == "Canc" then "cancelled"
  else if s.startsWith "Susp(" then "suspend" else if s.startsWith "Sys(" then "syscall"
  else if s.startsWith "Comp(" then "complete" else if s.startsWith "Err(" then "error" else "?"

def sysName (s : String) : String := ((s.splitOn ",").getD 1 "")

def legalStr (a b : String) : Bool :=
  match kind a, kind b with
  | "ready", "running" => true
  | "running", "suspend" | "running", "syscall" | "running", "complete" | "running", "error" | "running", "cancelled" => true
  | "syscall", "running" => true
  | "syscall", "syscall" => sysName a == sysName b
  | "suspend", "ready" | "suspend", "running" => true
  | _, _ => false

end Oc.Spec.C07
