import OcVerif.Model.TimeHelpers
/-!
C28 as an executable predicate over *observed* behaviour (inputs + the implementation's outputs).
-/
namespace Oc.Spec.C28
open Oc.Time

/-- deadlines saturate at the maximum time instead of wrapping -/
def deadlineOk (durNs now out : Nat) : Bool :=
  out == min U64MAX (durNs + now)

/-- pieces each fit in the (non-zero) slice and they sum exactly to the total -/
def slicesOk (total slice : Nat) (pieces : List Nat) : Bool :=
  pieces.all (fun p => decide (p ≤ slice)) && pieces.sum == total

/-- a zero socket time limit means unlimited; otherwise the saturated nanosecond value -/
def limitOk (sec usec : Nat) (out : Nat) : Bool :=
  if sec = 0 ∧ usec = 0 then out == U64MAX
  else out == min U64MAX (sec * 1000000000 + usec * 1000)

end Oc.Spec.C28
