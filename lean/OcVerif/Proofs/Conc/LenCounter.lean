import OcVerif.Model.Conc.LenCounter
namespace Oc.Conc.Len

theorem countP_set' {α : Type} (p : α → Bool) (l : List α) (i : Nat) (a : α) (h : i < l.length) :
    (l.set i a).countP p + (if p l[i] then 1 else 0) = l.countP p + (if p a then 1 else 0) := by
  induction l generalizing i with
  | nil => simp at h
  | cons x xs ih =>
    cases i with
    | zero => simp [List.countP_cons]; omega
    | succ j =>
      have := ih j (by simpa using h)
      simp [List.countP_cons] at this ⊢; omega

theorem step_inv {c c' : Cfg} (hi : Inv c) (hs : Step c c') : Inv c' := by
  cases hs with
  | mk i h inj' len' t' hs =>
    have hc := countP_set' pend c.ths i t' h
    unfold Inv at *
    simp only
    generalize hti : c.ths[i] = ti at hs hc
    obtain ⟨pc, todo⟩ := ti
    unfold stepTh at hs
    cases pc <;> cases todo <;> simp at hs
    all_goals (try (rename_i o r; cases o <;> simp at hs))
    all_goals (try split at hs)
    all_goals (try (simp at hs))
    all_goals (obtain ⟨rfl, rfl, rfl⟩ := hs; simp [pend] at hc ⊢; omega)

theorem reach_inv {c0 c : Cfg} (h0 : Inv c0) (hr : Reach c0 c) : Inv c := by
  induction hr with
  | refl => exact h0
  | step _ hs ih => exact step_inv ih hs

end Oc.Conc.Len
