import OcVerif.Proofs.Queue.PQ
/-! Order lemmas for `PQ`: refinement to a stable sorted list. Helper file. -/
namespace Oc.Queue
open List

/-- entry keys strictly ascending (the `SkipMap` order) -/
def KeysAsc (q : PQ) : Prop := q.Pairwise (fun a b => a.1 < b.1)

/-- the abstract priority queue: a list sorted by priority; insertion after all items whose
priority is not larger (FIFO among equals) -/
def insertStable : List (Int × Item) → Int → Item → List (Int × Item)
  | [], p, x => [(p, x)]
  | (k, y) :: r, p, x => if p < k then (p, x) :: (k, y) :: r else (k, y) :: insertStable r p x

theorem insertStable_head (xs : List (Int × Item)) (p : Int) (x : Item) (h : ∀ e ∈ xs, p < e.1) :
    insertStable xs p x = (p, x) :: xs := by
  cases xs with
  | nil => rfl
  | cons e r => obtain ⟨k, y⟩ := e; simp [insertStable, h (k, y) (by simp)]

theorem insertStable_append (a b : List (Int × Item)) (p : Int) (x : Item) (h : ∀ e ∈ a, e.1 ≤ p) :
    insertStable (a ++ b) p x = a ++ insertStable b p x := by
  induction a with
  | nil => rfl
  | cons e r ih =>
    obtain ⟨k, y⟩ := e
    have hk : ¬ p < k := by have := h (k, y) (by simp); simp only at this; omega
    simp only [List.cons_append, insertStable, hk, if_false]
    rw [ih (fun e he => h e (by simp [he]))]

theorem items_keys_gt (q : PQ) (k : Int) (h : ∀ e ∈ q, k < e.1) : ∀ e ∈ q.items, k < e.1 := by
  induction q with
  | nil => simp [PQ.items]
  | cons e r ih =>
    obtain ⟨k', l⟩ := e
    intro e' he'
    simp only [PQ.items, List.mem_append, List.mem_map] at he'
    rcases he' with ⟨y, _, rfl⟩ | he'
    · exact h (k', l) (by simp)
    · exact ih (fun e he => h e (by simp [he])) e' he'

/-- pushing into the map = stable insertion into the sorted item list -/
theorem items_push (q : PQ) (p : Int) (x : Item) (hq : KeysAsc q) :
    (q.push p x).items = insertStable q.items p x := by
  induction q with
  | nil => rfl
  | cons e r ih =>
    obtain ⟨k, l⟩ := e
    have hr : KeysAsc r := (List.pairwise_cons.mp hq).2
    have hgt : ∀ e ∈ r, k < e.1 := (List.pairwise_cons.mp hq).1
    unfold PQ.push
    split
    · rename_i hpk
      rw [insertStable_head]
      · rfl
      · intro e he
        simp only [PQ.items, List.mem_append, List.mem_map] at he
        rcases he with ⟨y, _, rfl⟩ | he
        · exact hpk
        · have := items_keys_gt r k hgt e he; omega
    · split
      · rename_i hnlt heq
        subst heq
        simp only [PQ.items, List.map_append, List.map_cons, List.map_nil, List.append_assoc]
        rw [insertStable_append _ _ _ _ (by intro e he; simp only [List.mem_map] at he; obtain ⟨y, _, rfl⟩ := he; exact Int.le_refl _)]
        rw [insertStable_head _ _ _ (items_keys_gt r p hgt)]
        rfl
      · rename_i hnlt hne
        simp only [PQ.items]
        rw [insertStable_append _ _ _ _ (by intro e he; simp only [List.mem_map] at he; obtain ⟨y, _, rfl⟩ := he; simp only; omega)]
        rw [ih hr]

theorem keysAsc_push (q : PQ) (p : Int) (x : Item) (hq : KeysAsc q) : KeysAsc (q.push p x) := by
  induction q with
  | nil => simp [PQ.push, KeysAsc]
  | cons e r ih =>
    obtain ⟨k, l⟩ := e
    have hr : KeysAsc r := (List.pairwise_cons.mp hq).2
    have hgt : ∀ e ∈ r, k < e.1 := (List.pairwise_cons.mp hq).1
    unfold PQ.push
    split
    · rename_i hpk
      refine List.pairwise_cons.mpr ⟨?_, hq⟩
      intro e he
      rcases List.mem_cons.mp he with rfl | he
      · exact hpk
      · have := hgt e he; omega
    · split
      · exact List.pairwise_cons.mpr ⟨hgt, hr⟩
      · rename_i hnlt hne
        refine List.pairwise_cons.mpr ⟨?_, ih hr⟩
        intro e he
        -- keys of `push r p x` are keys of r plus p
        have hk : ∀ (q : PQ) e, e ∈ q.push p x → e.1 = p ∨ ∃ e' ∈ q, e'.1 = e.1 := by
          intro q
          induction q with
          | nil => intro e he; simp [PQ.push] at he; left; rw [he]
          | cons e0 r0 ih0 =>
            obtain ⟨k0, l0⟩ := e0
            intro e he
            unfold PQ.push at he
            split at he
            · rcases List.mem_cons.mp he with rfl | he
              · left; rfl
              · right; exact ⟨e, he, rfl⟩
            · split at he
              · rcases List.mem_cons.mp he with rfl | he
                · right; exact ⟨(k0, l0), by simp, rfl⟩
                · right; exact ⟨e, by simp [he], rfl⟩
              · rcases List.mem_cons.mp he with rfl | he
                · right; exact ⟨(k0, l0), by simp, rfl⟩
                · rcases ih0 e he with h | ⟨e', he', h⟩
                  · left; exact h
                  · right; exact ⟨e', by simp [he'], h⟩
        rcases hk r e he with h | ⟨e', he', h⟩
        · simp only; omega
        · have := hgt e' he'; simp only at this ⊢; omega

/-- the sorted view: item priorities are non-decreasing in pop order -/
theorem items_sorted (q : PQ) (hq : KeysAsc q) : q.items.Pairwise (fun a b => a.1 ≤ b.1) := by
  induction q with
  | nil => simp [PQ.items]
  | cons e r ih =>
    obtain ⟨k, l⟩ := e
    have hr : KeysAsc r := (List.pairwise_cons.mp hq).2
    have hgt : ∀ e ∈ r, k < e.1 := (List.pairwise_cons.mp hq).1
    simp only [PQ.items]
    rw [List.pairwise_append]
    refine ⟨?_, ih hr, ?_⟩
    · rw [List.pairwise_map]; exact List.pairwise_of_forall (fun _ _ => Int.le_refl _) |>.imp (fun h => h)
    · intro a ha b hb
      simp only [List.mem_map] at ha
      obtain ⟨y, _, rfl⟩ := ha
      have := items_keys_gt r k hgt b hb
      simp only; omega

/-- `popMin` returns the head of the sorted item list, with its priority -/
theorem popMin_items {q : PQ} {p : Int} {x : Item} {q' : PQ} (h : q.popMin = some (p, x, q')) :
    q.items = (p, x) :: q'.items := by
  induction q generalizing q' with
  | nil => simp [PQ.popMin] at h
  | cons e r ih =>
    obtain ⟨k, l⟩ := e
    cases l with
    | nil =>
      simp only [PQ.popMin, Option.map_eq_some_iff] at h
      obtain ⟨⟨p1, x1, r1⟩, hr, heq⟩ := h
      simp only [Prod.mk.injEq] at heq
      obtain ⟨rfl, rfl, rfl⟩ := heq
      simp [PQ.items, ih hr]
    | cons y l' =>
      simp only [PQ.popMin, Option.some.injEq, Prod.mk.injEq] at h
      obtain ⟨rfl, rfl, rfl⟩ := h
      simp [PQ.items]

theorem popMin_keys {q : PQ} {p : Int} {x : Item} {q' : PQ} (h : q.popMin = some (p, x, q')) :
    q'.map (·.1) = q.map (·.1) := by
  induction q generalizing q' with
  | nil => simp [PQ.popMin] at h
  | cons e r ih =>
    obtain ⟨k, l⟩ := e
    cases l with
    | nil =>
      simp only [PQ.popMin, Option.map_eq_some_iff] at h
      obtain ⟨⟨p1, x1, r1⟩, hr, heq⟩ := h
      simp only [Prod.mk.injEq] at heq
      obtain ⟨rfl, rfl, rfl⟩ := heq
      simp [ih hr]
    | cons y l' =>
      simp only [PQ.popMin, Option.some.injEq, Prod.mk.injEq] at h
      obtain ⟨rfl, rfl, rfl⟩ := h
      simp

theorem keysAsc_of_keys_eq {q q' : PQ} (h : q'.map (·.1) = q.map (·.1)) (hq : KeysAsc q) : KeysAsc q' := by
  have : (q.map (·.1)).Pairwise (· < ·) := by simpa [KeysAsc, List.pairwise_map] using hq
  rw [← h] at this
  simpa [KeysAsc, List.pairwise_map] using this

/-- the abstract stable sort obtained by inserting one by one -/
def isort (xs : List (Int × Item)) : List (Int × Item) := xs.foldl (fun acc e => insertStable acc e.1 e.2) []

def pushAll (q : PQ) (xs : List (Int × Item)) : PQ := xs.foldl (fun q e => q.push e.1 e.2) q

theorem pushAll_spec (q : PQ) (xs : List (Int × Item)) (hq : KeysAsc q) :
    KeysAsc (pushAll q xs) ∧ (pushAll q xs).items = xs.foldl (fun acc e => insertStable acc e.1 e.2) q.items := by
  induction xs generalizing q with
  | nil => exact ⟨hq, rfl⟩
  | cons e r ih =>
    simp only [pushAll, List.foldl_cons] at ih ⊢
    have := ih (q.push e.1 e.2) (keysAsc_push q e.1 e.2 hq)
    rw [items_push q e.1 e.2 hq] at this
    exact this

/-- pop everything: `fuel` pops -/
def drainPQ : Nat → PQ → List (Int × Item)
  | 0, _ => []
  | f + 1, q => match q.popMin with
    | none => []
    | some (p, x, q') => (p, x) :: drainPQ f q'

theorem items_length (q : PQ) : q.items.length = q.vals.length := by
  rw [PQ.vals_eq_items]; simp

theorem drainPQ_items (q : PQ) (f : Nat) (hf : q.items.length ≤ f) : drainPQ f q = q.items := by
  induction f generalizing q with
  | zero => simp at hf; simp [drainPQ, hf]
  | succ f ih =>
    unfold drainPQ
    cases h : q.popMin with
    | none =>
      have := PQ.popMin_none h
      have hl : q.items.length = 0 := by rw [items_length, this]; rfl
      simp only
      exact (List.length_eq_zero_iff.mp hl).symm
    | some r =>
      obtain ⟨p, x, q'⟩ := r
      have hi := popMin_items h
      simp only
      rw [hi, ih q' (by rw [hi] at hf; simp at hf; omega)]

theorem insertStable_perm (xs : List (Int × Item)) (p : Int) (x : Item) : (insertStable xs p x).Perm ((p, x) :: xs) := by
  induction xs with
  | nil => exact Perm.refl _
  | cons e r ih =>
    obtain ⟨k, y⟩ := e
    unfold insertStable
    split
    · exact Perm.refl _
    · exact (Perm.cons _ ih).trans (Perm.swap _ _ _)

theorem insertStable_filter_eq (xs : List (Int × Item)) (p : Int) (x : Item) (k : Int) :
    (insertStable xs p x).filter (fun e => e.1 == k) =
      xs.filter (fun e => e.1 == k) ++ (if p == k then [(p, x)] else []) ∨
    ¬ xs.Pairwise (fun a b => a.1 ≤ b.1) := by
  induction xs with
  | nil => left; simp [insertStable, List.filter_cons]
  | cons e r ih =>
    obtain ⟨k0, y⟩ := e
    by_cases hs : ((k0, y) :: r).Pairwise (fun a b => a.1 ≤ b.1)
    · left
      have hr := (List.pairwise_cons.mp hs).2
      have hle := (List.pairwise_cons.mp hs).1
      unfold insertStable
      split
      · rename_i hlt
        -- p < k0 ≤ every key: if p = k nothing in the list has key k
        by_cases hpk : p = k
        · subst hpk
          have hnone : ((k0, y) :: r).filter (fun e => e.1 == p) = [] := by
            rw [List.filter_eq_nil_iff]
            intro e he
            rcases List.mem_cons.mp he with rfl | he
            · simp; omega
            · have := hle e he; simp at this ⊢; omega
          simp [hnone] at *
        · have : (p == k) = false := by simp [hpk]
          simp [List.filter_cons, this]
      · rcases ih with h | h
        · simp only [List.filter_cons]
          split <;> simp [h]
        · exact absurd hr h
    · right; exact hs

/-- stable: the items of one priority keep their push order (new item last) -/
theorem insertStable_stable (xs : List (Int × Item)) (p : Int) (x : Item) (k : Int)
    (hs : xs.Pairwise (fun a b => a.1 ≤ b.1)) :
    (insertStable xs p x).filter (fun e => e.1 == k) =
      xs.filter (fun e => e.1 == k) ++ (if p == k then [(p, x)] else []) := by
  rcases insertStable_filter_eq xs p x k with h | h
  · exact h
  · exact absurd hs h

theorem insertStable_sorted (xs : List (Int × Item)) (p : Int) (x : Item)
    (hs : xs.Pairwise (fun a b => a.1 ≤ b.1)) : (insertStable xs p x).Pairwise (fun a b => a.1 ≤ b.1) := by
  induction xs with
  | nil => simp [insertStable]
  | cons e r ih =>
    obtain ⟨k, y⟩ := e
    have hr := (List.pairwise_cons.mp hs).2
    have hle := (List.pairwise_cons.mp hs).1
    unfold insertStable
    split
    · rename_i hlt
      refine List.pairwise_cons.mpr ⟨?_, hs⟩
      intro e he
      rcases List.mem_cons.mp he with rfl | he
      · simp only; omega
      · have := hle e he; simp only at this ⊢; omega
    · rename_i hnlt
      refine List.pairwise_cons.mpr ⟨?_, ih hr⟩
      intro e he
      have hm := (insertStable_perm r p x).mem_iff.mp he
      rcases List.mem_cons.mp hm with rfl | hm
      · simp only; omega
      · exact hle e hm

end Oc.Queue
