import OcVerif.Proofs.Queue.Sys
/-! Frame facts: the number of local queues never changes; the shared counter equals the shared
queue's size (sequential histories). Helper file. -/
namespace Oc.Queue
open List

theorem pushShared_nlocals (s : Sys) (p : Int) (x : Item) : (pushShared s p x).locals.length = s.locals.length := rfl

theorem popShared_nlocals (s : Sys) : (popShared s).1.locals.length = s.locals.length := by
  unfold popShared; split
  · rfl
  · split <;> rfl

theorem pushAllShared_nlocals (s : Sys) (m : List (Int × Item)) :
    (pushAllShared s m).locals.length = s.locals.length := by rw [pushAllShared_locals]

theorem pushLocal_nlocals {fuel : Nat} {s s' : Sys} {i : Nat} {p : Int} {x : Item}
    (h : pushLocal fuel s i p x = some s') : s'.locals.length = s.locals.length := by
  have hg : ∀ s', pushToGlobal fuel s i p x = some s' → s'.locals.length = s.locals.length := by
    intro s' h
    unfold pushToGlobal at h
    split at h
    · simp at h
    · split at h
      · simp at h
      · simp only [Option.some.injEq] at h; subst h
        rw [pushShared_nlocals, pushAllShared_nlocals, setLocal_length]
  unfold pushLocal at h
  split at h
  · simp at h
  · split at h
    · exact hg _ h
    · split at h
      · exact hg _ h
      · simp only [Option.some.injEq] at h; subst h; exact setLocal_length _ _ _

theorem popLocalOnly_nlocals (s : Sys) (i : Nat) : (popLocalOnly s i).1.locals.length = s.locals.length := by
  unfold popLocalOnly
  split
  · rfl
  · split
    · rfl
    · exact setLocal_length _ _ _

theorem stealFrom_nlocals {s s' : Sys} {i j : Nat} (h : stealFrom s i j = some s') :
    s'.locals.length = s.locals.length := by
  unfold stealFrom at h
  split at h
  · split at h
    · simp at h
    · split at h
      · simp only [Option.some.injEq] at h; subst h
        rw [setLocal_length, setLocal_length]
      · simp at h
  · simp at h

theorem stealLoop_nlocals {s s' : Sys} {i start k : Nat} (h : stealLoop s i start k = some s') :
    s'.locals.length = s.locals.length := by
  induction k with
  | zero => simp [stealLoop] at h
  | succ k ih =>
    unfold stealLoop at h
    simp only at h
    split at h
    · split at h
      · simp at h
      · split at h
        · rename_i s1 hs1
          simp only [Option.some.injEq] at h; subst h
          exact stealFrom_nlocals hs1
        · exact ih h
    · simp at h

theorem popLocalRest_nlocals (s : Sys) (i start : Nat) :
    (popLocalRest s i start).1.locals.length = s.locals.length := by
  unfold popLocalRest
  split
  · exact popLocalOnly_nlocals s i
  · split
    · rename_i s3 hs3
      rw [popLocalOnly_nlocals, stealLoop_nlocals hs3]
    · exact popShared_nlocals s

theorem popLocal_nlocals (s : Sys) (i start : Nat) : (popLocal s i start).1.locals.length = s.locals.length := by
  unfold popLocal
  split
  · rfl
  · split
    · split
      · rw [popShared_nlocals, setLocal_length]
      · rw [popLocalRest_nlocals, setLocal_length]
    · rw [popLocalRest_nlocals, setLocal_length]

theorem step_nlocals {s s' : Sys} {o : Op} {r : Option Item} (h : step s o = some (s', r)) :
    s'.locals.length = s.locals.length := by
  cases o with
  | gpush p y => simp only [step, Option.some.injEq, Prod.mk.injEq] at h; obtain ⟨rfl, _⟩ := h; rfl
  | gpop =>
    simp only [step, Option.some.injEq] at h
    have := popShared_nlocals s; rw [h] at this; exact this
  | lpush i p y =>
    simp only [step, Option.map_eq_some_iff, Prod.mk.injEq] at h
    obtain ⟨s1, hs1, rfl, _⟩ := h
    exact pushLocal_nlocals hs1
  | lpop i start =>
    simp only [step] at h
    split at h
    · simp only [Option.some.injEq] at h
      have := popLocal_nlocals s i start; rw [h] at this; exact this
    · simp at h

/-- every valid call returns (the model's `none` never occurs for an existing handle) -/
theorem step_isSome (s : Sys) (o : Op) (hv : o.valid s.locals.length = true) : (step s o).isSome = true := by
  cases o with
  | gpush p y => rfl
  | gpop => rfl
  | lpush i p y =>
    simp only [Op.valid, decide_eq_true_eq] at hv
    simp only [step, Option.isSome_map]
    exact pushLocal_isSome s i p y hv
  | lpop i start =>
    simp only [Op.valid, decide_eq_true_eq] at hv
    simp [step, hv]

theorem run_isSome (s : Sys) (ops : List Op) (hv : ∀ o ∈ ops, o.valid s.locals.length = true) :
    (run s ops).isSome = true := by
  induction ops generalizing s with
  | nil => rfl
  | cons o os ih =>
    have h1 := step_isSome s o (hv o (by simp))
    unfold run
    cases hst : step s o with
    | none => simp [hst] at h1
    | some r =>
      obtain ⟨s1, r1⟩ := r
      have hn := step_nlocals hst
      have h2 := ih s1 (by intro o' ho'; rw [hn]; exact hv o' (by simp [ho']))
      simp only
      cases hr : run s1 os with
      | none => simp [hr] at h2
      | some r2 => rfl

/-! ### the shared counter (sequential) -/

def LenOk (s : Sys) : Prop := s.slen = s.shared.vals.length

theorem push_vals_length (q : PQ) (p : Int) (x : Item) : (q.push p x).vals.length = q.vals.length + 1 := by
  rw [(PQ.push_perm q p x).length_eq]; rfl

theorem lenOk_pushShared {s : Sys} (h : LenOk s) (p : Int) (x : Item) : LenOk (pushShared s p x) := by
  unfold LenOk pushShared at *; simp only [push_vals_length]; omega

theorem lenOk_pushAllShared {s : Sys} (h : LenOk s) (m : List (Int × Item)) : LenOk (pushAllShared s m) := by
  induction m generalizing s with
  | nil => exact h
  | cons e m ih => simp only [pushAllShared, List.foldl_cons] at ih ⊢; exact ih (lenOk_pushShared h _ _)

theorem lenOk_popShared {s : Sys} (h : LenOk s) : LenOk (popShared s).1 := by
  unfold popShared
  split
  · exact h
  · split
    · exact h
    · rename_i p y q' hq
      have := PQ.popMin_vals hq
      unfold LenOk at *; simp only; rw [this] at h; simp at h; omega

theorem lenOk_setLocal {s : Sys} (h : LenOk s) (i : Nat) (l : Local) : LenOk (setLocal s i l) := h

theorem lenOk_pushLocal {fuel : Nat} {s s' : Sys} {i : Nat} {p : Int} {x : Item} (h : LenOk s)
    (hp : pushLocal fuel s i p x = some s') : LenOk s' := by
  have hg : ∀ s', pushToGlobal fuel s i p x = some s' → LenOk s' := by
    intro s' hp
    unfold pushToGlobal at hp
    split at hp
    · simp at hp
    · split at hp
      · simp at hp
      · simp only [Option.some.injEq] at hp; subst hp
        exact lenOk_pushShared (lenOk_pushAllShared (lenOk_setLocal h _ _) _) _ _
  unfold pushLocal at hp
  split at hp
  · simp at hp
  · split at hp
    · exact hg _ hp
    · split at hp
      · exact hg _ hp
      · simp only [Option.some.injEq] at hp; subst hp; exact lenOk_setLocal h _ _

theorem lenOk_popLocalOnly {s : Sys} (h : LenOk s) (i : Nat) : LenOk (popLocalOnly s i).1 := by
  unfold popLocalOnly
  split
  · exact h
  · split
    · exact h
    · exact lenOk_setLocal h _ _

theorem lenOk_stealFrom {s s' : Sys} {i j : Nat} (h : LenOk s) (hs : stealFrom s i j = some s') : LenOk s' := by
  unfold stealFrom at hs
  split at hs
  · split at hs
    · simp at hs
    · split at hs
      · simp only [Option.some.injEq] at hs; subst hs
        exact lenOk_setLocal (lenOk_setLocal h _ _) _ _
      · simp at hs
  · simp at hs

theorem lenOk_stealLoop {s s' : Sys} {i start k : Nat} (h : LenOk s) (hs : stealLoop s i start k = some s') :
    LenOk s' := by
  induction k with
  | zero => simp [stealLoop] at hs
  | succ k ih =>
    unfold stealLoop at hs
    simp only at hs
    split at hs
    · split at hs
      · simp at hs
      · split at hs
        · rename_i s1 hs1
          simp only [Option.some.injEq] at hs; subst hs
          exact lenOk_stealFrom h hs1
        · exact ih hs
    · simp at hs

theorem lenOk_popLocalRest {s : Sys} (h : LenOk s) (i start : Nat) : LenOk (popLocalRest s i start).1 := by
  unfold popLocalRest
  split
  · exact lenOk_popLocalOnly h i
  · split
    · rename_i s3 hs3
      exact lenOk_popLocalOnly (lenOk_stealLoop h hs3) i
    · exact lenOk_popShared h

theorem lenOk_popLocal {s : Sys} (h : LenOk s) (i start : Nat) : LenOk (popLocal s i start).1 := by
  unfold popLocal
  split
  · exact h
  · split
    · split
      · exact lenOk_popShared (lenOk_setLocal h _ _)
      · exact lenOk_popLocalRest (lenOk_setLocal h _ _) i start
    · exact lenOk_popLocalRest (lenOk_setLocal h _ _) i start

theorem lenOk_step {s s' : Sys} {o : Op} {r : Option Item} (h : LenOk s) (hs : step s o = some (s', r)) :
    LenOk s' := by
  cases o with
  | gpush p y => simp only [step, Option.some.injEq, Prod.mk.injEq] at hs; obtain ⟨rfl, _⟩ := hs; exact lenOk_pushShared h _ _
  | gpop =>
    simp only [step, Option.some.injEq] at hs
    have := lenOk_popShared h; rw [hs] at this; exact this
  | lpush i p y =>
    simp only [step, Option.map_eq_some_iff, Prod.mk.injEq] at hs
    obtain ⟨s1, hs1, rfl, _⟩ := hs
    exact lenOk_pushLocal h hs1
  | lpop i start =>
    simp only [step] at hs
    split at hs
    · simp only [Option.some.injEq] at hs
      have := lenOk_popLocal h i start; rw [hs] at this; exact this
    · simp at hs

theorem lenOk_run {s s' : Sys} {ops : List Op} {outs : List Item} (h : LenOk s)
    (hr : run s ops = some (s', outs)) : LenOk s' := by
  induction ops generalizing s outs with
  | nil => simp only [run, Option.some.injEq, Prod.mk.injEq] at hr; obtain ⟨rfl, _⟩ := hr; exact h
  | cons o os ih =>
    unfold run at hr
    split at hr
    · simp at hr
    · rename_i s1 r hst
      split at hr
      · simp at hr
      · rename_i s2 outs2 hr2
        simp only [Option.some.injEq, Prod.mk.injEq] at hr; obtain ⟨rfl, _⟩ := hr
        exact ih (lenOk_step h hst) hr2

end Oc.Queue
