import OcVerif.Model.Queue.Ordered
/-! Lemmas about the priority map `PQ` (helper file; property theorems live in `Props/`). -/
namespace Oc.Queue
open List

@[simp] theorem PQ.vals_nil : PQ.vals [] = [] := rfl
@[simp] theorem PQ.vals_cons (k : Int) (l : List Item) (r : PQ) : PQ.vals ((k, l) :: r) = l ++ PQ.vals r := rfl

theorem PQ.vals_eq_items (q : PQ) : q.vals = q.items.map (·.2) := by
  induction q with
  | nil => rfl
  | cons e r ih => obtain ⟨k, l⟩ := e; simp [PQ.items, ih, Function.comp_def]

theorem PQ.len_eq (q : PQ) : q.len = q.vals.length := by
  induction q with
  | nil => rfl
  | cons e r ih => obtain ⟨k, l⟩ := e; simp [PQ.len, ih]

theorem PQ.vals_append (a b : PQ) : PQ.vals (a ++ b) = PQ.vals a ++ PQ.vals b := by
  induction a with
  | nil => rfl
  | cons e r ih => obtain ⟨k, l⟩ := e; simp [ih]

theorem PQ.vals_reverse_perm (q : PQ) : (PQ.vals q.reverse).Perm (PQ.vals q) := by
  induction q with
  | nil => exact Perm.refl _
  | cons e r ih =>
    obtain ⟨k, l⟩ := e
    rw [List.reverse_cons, PQ.vals_append]
    simp only [PQ.vals_cons, PQ.vals_nil, List.append_nil]
    exact (perm_append_comm).trans (Perm.append_left l ih)

/-- pushing adds exactly the new item -/
theorem PQ.push_perm (q : PQ) (p : Int) (x : Item) : (q.push p x).vals.Perm (x :: q.vals) := by
  induction q with
  | nil => simp [PQ.push]
  | cons e r ih =>
    obtain ⟨k, l⟩ := e
    unfold PQ.push
    split
    · simp
    · split
      · simp only [PQ.vals_cons, List.append_assoc, List.singleton_append]
        exact perm_middle
      · simp only [PQ.vals_cons]
        exact (Perm.append_left l ih).trans perm_middle

/-- `popMin` removes exactly the head of the value list -/
theorem PQ.popMin_vals {q : PQ} {p : Int} {x : Item} {q' : PQ} (h : q.popMin = some (p, x, q')) :
    q.vals = x :: q'.vals := by
  induction q generalizing q' with
  | nil => simp [PQ.popMin] at h
  | cons e r ih =>
    obtain ⟨k, l⟩ := e
    cases l with
    | nil =>
      simp only [PQ.popMin, Option.map_eq_some_iff] at h
      obtain ⟨⟨p1, x1, r1⟩, hr, heq⟩ := h
      simp only [Prod.mk.injEq] at heq
      obtain ⟨rfl, rfl, rfl⟩ := heq
      simp [ih hr]
    | cons y l' =>
      simp only [PQ.popMin, Option.some.injEq, Prod.mk.injEq] at h
      obtain ⟨rfl, rfl, rfl⟩ := h
      simp

theorem PQ.popMin_none {q : PQ} (h : q.popMin = none) : q.vals = [] := by
  induction q with
  | nil => rfl
  | cons e r ih =>
    obtain ⟨k, l⟩ := e
    cases l with
    | nil => simp only [PQ.popMin, Option.map_eq_none_iff] at h; simp [ih h]
    | cons y l' => simp [PQ.popMin] at h

theorem PQ.popMin_some_of_vals {q : PQ} (h : q.vals ≠ []) : ∃ r, q.popMin = some r := by
  cases hq : q.popMin with
  | none => exact absurd (PQ.popMin_none hq) h
  | some r => exact ⟨r, rfl⟩

/-- one reverse pass splits the values into the moved ones and the remaining ones -/
theorem passRev_perm (r : List (Int × List Item)) (done count : Nat) :
    (PQ.vals r).Perm ((passRev r done count).2.1.map (·.2) ++ PQ.vals (passRev r done count).1) := by
  induction r generalizing done with
  | nil => simp [passRev]
  | cons e r ih =>
    obtain ⟨k, l⟩ := e
    unfold passRev
    split
    · simp
    · cases l with
      | nil => simpa using ih done
      | cons x l' =>
        simp only [PQ.vals_cons, List.map_cons, List.cons_append]
        have := ih (done + 1)
        refine Perm.cons x ?_
        exact (Perm.append_left l' this).trans (by
          simpa [List.append_assoc] using (perm_append_comm_assoc l' _ _))

theorem passRev_done_ge (r : List (Int × List Item)) (done count : Nat) :
    done ≤ (passRev r done count).2.2 := by
  induction r generalizing done with
  | nil => simp [passRev]
  | cons e r ih =>
    obtain ⟨k, l⟩ := e
    unfold passRev
    split
    · simp
    · cases l with
      | nil => simpa using ih done
      | cons x l' => have := ih (done + 1); simp only; omega

theorem passRev_done_le (r : List (Int × List Item)) (done count : Nat) (h : done ≤ count) :
    (passRev r done count).2.2 ≤ count := by
  induction r generalizing done with
  | nil => simpa [passRev]
  | cons e r ih =>
    obtain ⟨k, l⟩ := e
    unfold passRev
    split
    · simpa
    · cases l with
      | nil => simpa using ih done h
      | cons x l' => exact ih (done + 1) (by omega)

end Oc.Queue
