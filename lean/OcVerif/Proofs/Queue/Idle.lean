import OcVerif.Proofs.Queue.Asc
/-! An idle local queue finds work: lemmas for `C06_idle`. Helper file. -/
namespace Oc.Queue
open List

theorem pow2Ge_pos (f n c : Nat) (hc : 0 < c) : 0 < pow2Ge f n c := by
  induction f generalizing c with
  | zero => simpa [pow2Ge]
  | succ f ih => unfold pow2Ge; split; exact hc; exact ih (2 * c) (by omega)

theorem nextPow2_pos (n : Nat) : 0 < nextPow2 n := pow2Ge_pos _ _ _ (by omega)

theorem wlen_le_len (q : PQ) (k : Int) : q.wlen k ≤ q.len := by
  induction q with
  | nil => simp [PQ.wlen, PQ.len]
  | cons e r ih => obtain ⟨k0, l⟩ := e; unfold PQ.wlen PQ.len; split <;> omega

/-- with an empty thief and capacity ≥ 1, `stealPick` fails only on a victim without items -/
theorem stealPick_none_vals {cap wcap : Nat} {thief v : PQ} (hc : 0 < cap) (hw : 0 < wcap)
    (ht : thief.len = 0) (h : stealPick cap wcap thief v = none) : v.vals = [] := by
  induction v with
  | nil => rfl
  | cons e r ih =>
    obtain ⟨k, w⟩ := e
    unfold stealPick at h
    simp only at h
    have hwl : thief.wlen k = 0 := by have := wlen_le_len thief k; omega
    split at h
    · rename_i hcnt
      simp only [Option.map_eq_none_iff] at h
      have hw0 : w.length = 0 := by
        rw [ht, hwl] at hcnt
        by_cases hz : w.length = 0
        · exact hz
        · exfalso
          have h1 : 1 ≤ (cap + 1) / 2 := by omega
          have h2 : 1 ≤ (w.length + 1) / 2 := by omega
          omega
      simp [List.length_eq_zero_iff.mp hw0, ih h]
    · simp at h

theorem stealPick_some_taken {cap wcap : Nat} {thief v : PQ} {k : Int} {taken : List Item} {v' : PQ}
    (h : stealPick cap wcap thief v = some (k, taken, v')) : taken ≠ [] := by
  induction v generalizing v' with
  | nil => simp [stealPick] at h
  | cons e r ih =>
    obtain ⟨k0, w⟩ := e
    unfold stealPick at h
    simp only at h
    generalize hc : (min (min (min (min w.length ((cap + 1) / 2 - thief.len)) ((w.length + 1) / 2)) (wcap - thief.wlen k0)) w.length) = c at h
    split at h
    · simp only [Option.map_eq_some_iff] at h
      obtain ⟨⟨k1, t1, r1⟩, hr, heq⟩ := h
      simp only [Prod.mk.injEq] at heq
      obtain ⟨rfl, rfl, rfl⟩ := heq
      exact ih hr
    · rename_i hne
      simp only [Option.some.injEq, Prod.mk.injEq] at h
      obtain ⟨rfl, rfl, rfl⟩ := h
      intro ht
      have : (w.take c).length = 0 := by rw [ht]; rfl
      rw [List.length_take] at this
      omega

theorem pushMany_vals_ne (q : PQ) (k : Int) (xs : List Item) (h : xs ≠ []) : (pushMany q k xs).vals ≠ [] := by
  intro hv
  have := congrArg List.length hv
  have hc : ∀ x, count x (pushMany q k xs).vals = count x q.vals + count x xs := pushMany_count q k xs
  cases xs with
  | nil => exact h rfl
  | cons y ys =>
    have := hc y
    rw [hv] at this
    simp at this

/-- after a successful steal the thief holds something -/
theorem stealFrom_thief_nonempty {s s' : Sys} {i j : Nat} (h : stealFrom s i j = some s') :
    ∃ l, s'.locals[i]? = some l ∧ l.q.vals ≠ [] := by
  unfold stealFrom at h
  split at h
  · split at h
    · simp at h
    · rename_i k taken qj' hp
      split at h
      · rename_i li1 hli1
        simp only [Option.some.injEq] at h; subst h
        obtain ⟨hi, _⟩ := getElem?_some_lt hli1
        refine ⟨{ li1 with q := pushMany li1.q k taken }, ?_, pushMany_vals_ne li1.q k taken (stealPick_some_taken hp)⟩
        rw [List.getElem?_eq_getElem (by rw [setLocal_length]; exact hi)]
        simp [setLocal]
      · simp at h
  · simp at h

theorem stealLoop_thief_nonempty {s s' : Sys} {i start k : Nat} (h : stealLoop s i start k = some s') :
    ∃ l, s'.locals[i]? = some l ∧ l.q.vals ≠ [] := by
  induction k with
  | zero => simp [stealLoop] at h
  | succ k ih =>
    unfold stealLoop at h
    simp only at h
    split at h
    · split at h
      · simp at h
      · split at h
        · rename_i s1 hs1
          simp only [Option.some.injEq] at h; subst h
          exact stealFrom_thief_nonempty hs1
        · exact ih h
    · simp at h

theorem popLocalOnly_none_iff {s : Sys} {i : Nat} {l : Local} (hl : s.locals[i]? = some l) :
    (popLocalOnly s i).2 = none ↔ l.q.vals = [] := by
  unfold popLocalOnly
  simp only [hl]
  cases hq : l.q.popMin with
  | none => simp [PQ.popMin_none hq]
  | some r =>
    obtain ⟨p, x, q'⟩ := r
    simp [PQ.popMin_vals hq]

/-- a failed steal loop (thief empty, capacity ≥ 1) has visited every local queue and found it empty -/
theorem stealLoop_none_all {s : Sys} {i start : Nat} {li : Local} (hli : s.locals[i]? = some li)
    (hc : 0 < s.cap) (hempty : li.q.len = 0) (k : Nat) (hk : k ≤ s.locals.length)
    (h : stealLoop s i start k = none) :
    ∀ m, s.locals.length - k ≤ m → m < s.locals.length →
      ∀ lj, s.locals[(start + m) % s.locals.length]? = some lj → lj.q.vals = [] := by
  induction k with
  | zero => intro m h1 h2; omega
  | succ k ih =>
    intro m h1 h2 lj hlj
    unfold stealLoop at h
    simp only [hli] at h
    have hnum : 0 < s.locals.length := by omega
    have hjlt : (start + (s.locals.length - (k + 1))) % s.locals.length < s.locals.length := Nat.mod_lt _ hnum
    have hsome : s.locals[(start + (s.locals.length - (k + 1))) % s.locals.length]? =
        some (s.locals[(start + (s.locals.length - (k + 1))) % s.locals.length]'hjlt) := List.getElem?_eq_getElem hjlt
    rw [hsome] at h
    simp only at h
    have hcan : li.q.len < (s.cap + 1) / 2 := by omega
    simp only [hcan, not_true_eq_false, if_false] at h
    split at h
    · simp at h
    · rename_i hsf
      by_cases hm : m = s.locals.length - (k + 1)
      · subst hm
        -- this victim was tried now
        unfold stealFrom at hsf
        rw [hli, hsome] at hsf
        simp only at hsf
        rw [hsome] at hlj
        simp only [Option.some.injEq] at hlj; subst hlj
        split at hsf
        · rename_i hp
          exact stealPick_none_vals hc (nextPow2_pos _) hempty hp
        · rename_i k0 taken qj' hp
          split at hsf
          · simp at hsf
          · rename_i hnone
            exfalso
            obtain ⟨hi, _⟩ := getElem?_some_lt hli
            have : i < (setLocal s ((start + (s.locals.length - (k + 1))) % s.locals.length)
                { (s.locals[(start + (s.locals.length - (k + 1))) % s.locals.length]'hjlt) with q := qj' }).locals.length := by
              rw [setLocal_length]; exact hi
            rw [List.getElem?_eq_getElem this] at hnone
            simp at hnone
      · exact ih (by omega) h m (by omega) h2 lj hlj

end Oc.Queue
