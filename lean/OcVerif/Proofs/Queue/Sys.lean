import OcVerif.Proofs.Queue.PQ
import OcVerif.Model.Queue.Run
/-! Conservation and termination lemmas for the ordered queue system (helper file). -/
namespace Oc.Queue
open List

/-! ### termination of `push_to_global` -/

theorem moveLoop_isSome (fuel : Nat) (q : PQ) (done count : Nat) (hd : done ≤ count)
    (hf : count - done < fuel) : (moveLoop fuel q done count).isSome = true := by
  induction fuel generalizing q done with
  | zero => omega
  | succ f ih =>
    unfold moveLoop
    split
    · rfl
    · split
      · rfl
      · rename_i hnd hne
        have hge := passRev_done_ge q.reverse done count
        have hle := passRev_done_le q.reverse done count hd
        have := ih (passRev q.reverse done count).1.reverse (passRev q.reverse done count).2.2 hle (by omega)
        simpa [Option.isSome_map] using this

theorem moveLoop_perm (fuel : Nat) (q : PQ) (done count : Nat) {q' : PQ} {m : List (Int × Item)}
    (h : moveLoop fuel q done count = some (q', m)) : q.vals.Perm (m.map (·.2) ++ q'.vals) := by
  induction fuel generalizing q done q' m with
  | zero => simp [moveLoop] at h
  | succ f ih =>
    unfold moveLoop at h
    split at h
    · simp only [Option.some.injEq, Prod.mk.injEq] at h; obtain ⟨rfl, rfl⟩ := h; simp
    · have hp := passRev_perm q.reverse done count
      have hr := PQ.vals_reverse_perm q
      split at h
      · simp only [Option.some.injEq, Prod.mk.injEq] at h; obtain ⟨rfl, rfl⟩ := h
        exact hr.symm.trans (hp.trans (Perm.append_left _ (PQ.vals_reverse_perm _).symm))
      · simp only [Option.map_eq_some_iff] at h
        obtain ⟨⟨q1, m1⟩, hrec, heq⟩ := h
        simp only [Prod.mk.injEq] at heq; obtain ⟨rfl, rfl⟩ := heq
        have := ih _ _ hrec
        have h2 : (PQ.vals (passRev q.reverse done count).1).Perm (m1.map (·.2) ++ q1.vals) :=
          (PQ.vals_reverse_perm _).symm.trans this
        simp only [List.map_append, List.append_assoc]
        exact hr.symm.trans (hp.trans (Perm.append_left _ h2))

/-! ### counting items in a system -/

theorem count_flatMap_set {α β : Type} [BEq β] [LawfulBEq β] (l : List α) (f : α → List β) (i : Nat) (a : α)
    (h : i < l.length) (x : β) :
    count x ((l.set i a).flatMap f) + count x (f l[i]) = count x (l.flatMap f) + count x (f a) := by
  induction l generalizing i with
  | nil => simp at h
  | cons y ys ih =>
    cases i with
    | zero => simp [List.flatMap_cons, count_append]; omega
    | succ j =>
      have := ih j (by simpa using h)
      simp [List.flatMap_cons, count_append] at this ⊢; omega

def Sys.cnt (s : Sys) (x : Item) : Nat := count x s.resident

theorem cnt_def (s : Sys) (x : Item) :
    s.cnt x = count x s.shared.vals + count x (s.locals.flatMap (fun l => l.q.vals)) := by
  simp [Sys.cnt, Sys.resident, count_append]

theorem cnt_setLocal (s : Sys) (i : Nat) (l' : Local) (h : i < s.locals.length) (x : Item) :
    (setLocal s i l').cnt x + count x (s.locals[i]).q.vals = s.cnt x + count x l'.q.vals := by
  have := count_flatMap_set s.locals (fun l => l.q.vals) i l' h x
  simp only [cnt_def, setLocal]; omega

theorem push_count (q : PQ) (p : Int) (y x : Item) :
    count x (q.push p y).vals = count x q.vals + (if y = x then 1 else 0) := by
  rw [(PQ.push_perm q p y).count_eq, count_cons]; simp [beq_iff_eq]

theorem cnt_pushShared (s : Sys) (p : Int) (y x : Item) :
    (pushShared s p y).cnt x = s.cnt x + (if y = x then 1 else 0) := by
  simp only [cnt_def, pushShared, push_count]; omega

theorem cnt_pushAllShared (s : Sys) (m : List (Int × Item)) (x : Item) :
    (pushAllShared s m).cnt x = s.cnt x + count x (m.map (·.2)) := by
  induction m generalizing s with
  | nil => simp [pushAllShared]
  | cons e m ih =>
    simp only [pushAllShared, List.foldl_cons] at ih ⊢
    rw [ih, cnt_pushShared, List.map_cons, count_cons]; simp [beq_iff_eq]; omega

theorem pushAllShared_locals (s : Sys) (m : List (Int × Item)) : (pushAllShared s m).locals = s.locals := by
  induction m generalizing s with
  | nil => rfl
  | cons e m ih => simp only [pushAllShared, List.foldl_cons] at ih ⊢; rw [ih]; rfl

theorem cnt_popShared (s : Sys) (x : Item) :
    s.cnt x = (popShared s).1.cnt x + count x (popShared s).2.toList := by
  unfold popShared
  split
  · simp
  · split
    · simp
    · rename_i p y q' hq
      have := PQ.popMin_vals hq
      simp only [cnt_def, this, count_cons, Option.toList_some]
      simp [beq_iff_eq]; omega

theorem cnt_popLocalOnly (s : Sys) (i : Nat) (x : Item) :
    s.cnt x = (popLocalOnly s i).1.cnt x + count x (popLocalOnly s i).2.toList := by
  unfold popLocalOnly
  cases hl : s.locals[i]? with
  | none => simp
  | some l =>
    have hi : i < s.locals.length := by
      rcases List.getElem?_eq_some_iff.mp hl with ⟨h, _⟩; exact h
    have hli : s.locals[i] = l := by
      rcases List.getElem?_eq_some_iff.mp hl with ⟨_, h⟩; exact h
    simp only
    split
    · simp
    · rename_i p y q' hq
      have hv := PQ.popMin_vals hq
      have := cnt_setLocal s i { l with q := q' } hi x
      rw [hli, hv, count_cons] at this
      simp only [Option.toList_some, count_cons, count_nil]
      simp [beq_iff_eq] at this ⊢; omega

theorem cnt_pushToGlobal {fuel : Nat} {s s' : Sys} {i : Nat} {p : Int} {y : Item}
    (h : pushToGlobal fuel s i p y = some s') (x : Item) :
    s'.cnt x = s.cnt x + (if y = x then 1 else 0) := by
  unfold pushToGlobal at h
  cases hl : s.locals[i]? with
  | none => simp [hl] at h
  | some l =>
    have hi : i < s.locals.length := by
      rcases List.getElem?_eq_some_iff.mp hl with ⟨h, _⟩; exact h
    have hli : s.locals[i] = l := by
      rcases List.getElem?_eq_some_iff.mp hl with ⟨_, h⟩; exact h
    simp only [hl] at h
    split at h
    · simp at h
    · rename_i q' moved hm
      simp only [Option.some.injEq] at h; subst h
      have hp := (moveLoop_perm _ _ _ _ hm).count_eq x
      rw [count_append] at hp
      have h1 := cnt_setLocal s i { l with q := q' } hi x
      rw [hli] at h1
      rw [cnt_pushShared, cnt_pushAllShared]
      simp only at h1; omega

theorem cnt_pushLocal {fuel : Nat} {s s' : Sys} {i : Nat} {p : Int} {y : Item}
    (h : pushLocal fuel s i p y = some s') (x : Item) :
    s'.cnt x = s.cnt x + (if y = x then 1 else 0) := by
  unfold pushLocal at h
  cases hl : s.locals[i]? with
  | none => simp [hl] at h
  | some l =>
    have hi : i < s.locals.length := by
      rcases List.getElem?_eq_some_iff.mp hl with ⟨h, _⟩; exact h
    have hli : s.locals[i] = l := by
      rcases List.getElem?_eq_some_iff.mp hl with ⟨_, h⟩; exact h
    simp only [hl] at h
    split at h
    · exact cnt_pushToGlobal h x
    · split at h
      · exact cnt_pushToGlobal h x
      · simp only [Option.some.injEq] at h; subst h
        have h1 := cnt_setLocal s i { l with q := l.q.push p y } hi x
        rw [hli, push_count] at h1
        omega

theorem pushLocal_isSome (s : Sys) (i : Nat) (p : Int) (y : Item) (hi : i < s.locals.length) :
    (pushLocal (pushFuel s i) s i p y).isSome = true := by
  have hl : s.locals[i]? = some s.locals[i] := List.getElem?_eq_getElem hi
  have hg : (pushToGlobal (pushFuel s i) s i p y).isSome = true := by
    unfold pushToGlobal pushFuel
    simp only [hl]
    have := moveLoop_isSome (s.locals[i].q.len / 2 + 1) s.locals[i].q 0 (s.locals[i].q.len / 2) (by omega) (by omega)
    cases hm : moveLoop (s.locals[i].q.len / 2 + 1) s.locals[i].q 0 (s.locals[i].q.len / 2) with
    | none => simp [hm] at this
    | some r => simp
  unfold pushLocal
  simp only [hl]
  split
  · exact hg
  · split
    · exact hg
    · rfl

end Oc.Queue

namespace Oc.Queue
open List

theorem getElem?_some_lt {α : Type} {l : List α} {i : Nat} {a : α} (h : l[i]? = some a) :
    ∃ hi : i < l.length, l[i] = a := List.getElem?_eq_some_iff.mp h

theorem stealPick_count {cap wcap : Nat} {thief v : PQ} {k : Int} {taken : List Item} {v' : PQ}
    (h : stealPick cap wcap thief v = some (k, taken, v')) (x : Item) :
    count x v.vals = count x taken + count x v'.vals := by
  induction v generalizing v' with
  | nil => simp [stealPick] at h
  | cons e r ih =>
    obtain ⟨k0, w⟩ := e
    unfold stealPick at h
    simp only at h
    generalize (min (min (min (min w.length ((cap + 1) / 2 - thief.len)) ((w.length + 1) / 2)) (wcap - thief.wlen k0)) w.length) = c at h
    split at h
    · simp only [Option.map_eq_some_iff] at h
      obtain ⟨⟨k1, t1, r1⟩, hr, heq⟩ := h
      simp only [Prod.mk.injEq] at heq
      obtain ⟨rfl, rfl, rfl⟩ := heq
      have := ih hr
      simp only [PQ.vals_cons, count_append]; omega
    · simp only [Option.some.injEq, Prod.mk.injEq] at h
      obtain ⟨rfl, rfl, rfl⟩ := h
      simp only [PQ.vals_cons, count_append]
      have := congrArg (count x) (List.take_append_drop c w)
      rw [count_append] at this; omega

theorem pushMany_count (q : PQ) (k : Int) (xs : List Item) (x : Item) :
    count x (pushMany q k xs).vals = count x q.vals + count x xs := by
  induction xs generalizing q with
  | nil => simp [pushMany]
  | cons y ys ih =>
    simp only [pushMany, List.foldl_cons] at ih ⊢
    rw [ih, push_count, count_cons]; simp [beq_iff_eq]; omega

theorem cnt_stealFrom {s s' : Sys} {i j : Nat} (h : stealFrom s i j = some s') (x : Item) :
    s'.cnt x = s.cnt x := by
  unfold stealFrom at h
  cases hli : s.locals[i]? with
  | none => simp [hli] at h
  | some li =>
    cases hlj : s.locals[j]? with
    | none => simp [hli, hlj] at h
    | some lj =>
      simp only [hli, hlj] at h
      obtain ⟨hj, hjj⟩ := getElem?_some_lt hlj
      split at h
      · simp at h
      · rename_i k taken qj' hp
        split at h
        · rename_i li1 hli1
          simp only [Option.some.injEq] at h; subst h
          obtain ⟨hi1, hii1⟩ := getElem?_some_lt hli1
          have h1 := cnt_setLocal s j { lj with q := qj' } hj x
          have h2 := cnt_setLocal (setLocal s j { lj with q := qj' }) i { li1 with q := pushMany li1.q k taken } hi1 x
          rw [hjj] at h1
          rw [hii1, pushMany_count] at h2
          have h3 := stealPick_count hp x
          simp only at h1 h2; omega
        · simp at h

theorem cnt_stealLoop {s s' : Sys} {i start k : Nat} (h : stealLoop s i start k = some s') (x : Item) :
    s'.cnt x = s.cnt x := by
  induction k with
  | zero => simp [stealLoop] at h
  | succ k ih =>
    unfold stealLoop at h
    simp only at h
    split at h
    · split at h
      · simp at h
      · split at h
        · rename_i s1 hs1
          simp only [Option.some.injEq] at h; subst h
          exact cnt_stealFrom hs1 x
        · exact ih h
    · simp at h

theorem cnt_setTick (s : Sys) (i : Nat) (l : Local) (t : Nat) (hl : s.locals[i]? = some l) (x : Item) :
    (setLocal s i { l with tick := t }).cnt x = s.cnt x := by
  obtain ⟨hi, hii⟩ := getElem?_some_lt hl
  have := cnt_setLocal s i { l with tick := t } hi x
  rw [hii] at this; simp only at this; omega

theorem cnt_popLocalRest (s : Sys) (i start : Nat) (x : Item) :
    s.cnt x = (popLocalRest s i start).1.cnt x + count x (popLocalRest s i start).2.toList := by
  unfold popLocalRest
  split
  · exact cnt_popLocalOnly s i x
  · split
    · rename_i s3 hs3
      rw [← cnt_stealLoop hs3 x]; exact cnt_popLocalOnly s3 i x
    · exact cnt_popShared s x

/-- a local pop removes exactly the item it returns (steals only move items between queues) -/
theorem cnt_popLocal (s : Sys) (i start : Nat) (x : Item) :
    s.cnt x = (popLocal s i start).1.cnt x + count x (popLocal s i start).2.toList := by
  unfold popLocal
  cases hl : s.locals[i]? with
  | none => simp
  | some l =>
    simp only
    have ht := cnt_setTick s i l (nextTick l.tick).1 hl x
    generalize setLocal s i { l with tick := (nextTick l.tick).1 } = s0 at ht ⊢
    split
    · split
      · rw [← ht]; exact cnt_popShared s0 x
      · rw [← ht]; exact cnt_popLocalRest s0 i start x
    · rw [← ht]; exact cnt_popLocalRest s0 i start x

/-- every step keeps `pushed = popped + resident`, item by item -/
theorem cnt_step {s s' : Sys} {o : Op} {r : Option Item} (h : step s o = some (s', r)) (x : Item) :
    s.cnt x + count x o.pushed = s'.cnt x + count x r.toList := by
  cases o with
  | gpush p y =>
    simp only [step, Option.some.injEq, Prod.mk.injEq] at h; obtain ⟨rfl, rfl⟩ := h
    simp [Op.pushed, cnt_pushShared, count_cons, beq_iff_eq]
  | gpop =>
    simp only [step, Option.some.injEq] at h
    have := cnt_popShared s x
    rw [h] at this; simp [Op.pushed]; omega
  | lpush i p y =>
    simp only [step, Option.map_eq_some_iff, Prod.mk.injEq] at h
    obtain ⟨s1, hs1, rfl, rfl⟩ := h
    simp [Op.pushed, cnt_pushLocal hs1 x, count_cons, beq_iff_eq]
  | lpop i start =>
    simp only [step] at h
    split at h
    · simp only [Option.some.injEq] at h
      have := cnt_popLocal s i start x
      rw [h] at this; simp [Op.pushed]; omega
    · simp at h

theorem cnt_run {s s' : Sys} {ops : List Op} {outs : List Item} (h : run s ops = some (s', outs)) (x : Item) :
    s.cnt x + count x (pushedOf ops) = s'.cnt x + count x outs := by
  induction ops generalizing s outs with
  | nil => simp only [run, Option.some.injEq, Prod.mk.injEq] at h; obtain ⟨rfl, rfl⟩ := h; simp [pushedOf]
  | cons o os ih =>
    unfold run at h
    split at h
    · simp at h
    · rename_i s1 r hst
      split at h
      · simp at h
      · rename_i s2 outs2 hr
        simp only [Option.some.injEq, Prod.mk.injEq] at h; obtain ⟨rfl, rfl⟩ := h
        have h1 := cnt_step hst x
        have h2 := ih hr
        simp only [pushedOf, List.flatMap_cons, count_append] at h2 ⊢
        omega

/-- the state after a valid step has the same number of local queues -/
theorem setLocal_length (s : Sys) (i : Nat) (l : Local) : (setLocal s i l).locals.length = s.locals.length := by
  simp [setLocal]

end Oc.Queue
