import OcVerif.Proofs.Queue.Order
import OcVerif.Proofs.Queue.Len
/-! Key order is an invariant of every queue of the system. Helper file. -/
namespace Oc.Queue
open List

def SysAsc (s : Sys) : Prop := KeysAsc s.shared ∧ ∀ l ∈ s.locals, KeysAsc l.q

theorem passRev_keys (r : List (Int × List Item)) (done count : Nat) :
    (passRev r done count).1.map (·.1) = r.map (·.1) := by
  induction r generalizing done with
  | nil => simp [passRev]
  | cons e r ih =>
    obtain ⟨k, l⟩ := e
    unfold passRev
    split
    · rfl
    · cases l with
      | nil => simp [ih]
      | cons x l' => simp [ih]

theorem moveLoop_keys {fuel : Nat} {q : PQ} {done count : Nat} {q' : PQ} {m : List (Int × Item)}
    (h : moveLoop fuel q done count = some (q', m)) : q'.map (·.1) = q.map (·.1) := by
  induction fuel generalizing q done q' m with
  | zero => simp [moveLoop] at h
  | succ f ih =>
    unfold moveLoop at h
    split at h
    · simp only [Option.some.injEq, Prod.mk.injEq] at h; obtain ⟨rfl, _⟩ := h; rfl
    · split at h
      · simp only [Option.some.injEq, Prod.mk.injEq] at h; obtain ⟨rfl, _⟩ := h
        rw [List.map_reverse, passRev_keys, List.map_reverse, List.reverse_reverse]
      · simp only [Option.map_eq_some_iff] at h
        obtain ⟨⟨q1, m1⟩, hrec, heq⟩ := h
        simp only [Prod.mk.injEq] at heq; obtain ⟨rfl, _⟩ := heq
        rw [ih hrec, List.map_reverse, passRev_keys, List.map_reverse, List.reverse_reverse]

theorem stealPick_keys {cap wcap : Nat} {thief v : PQ} {k : Int} {taken : List Item} {v' : PQ}
    (h : stealPick cap wcap thief v = some (k, taken, v')) : v'.map (·.1) = v.map (·.1) := by
  induction v generalizing v' with
  | nil => simp [stealPick] at h
  | cons e r ih =>
    obtain ⟨k0, w⟩ := e
    unfold stealPick at h
    simp only at h
    split at h
    · simp only [Option.map_eq_some_iff] at h
      obtain ⟨⟨k1, t1, r1⟩, hr, heq⟩ := h
      simp only [Prod.mk.injEq] at heq
      obtain ⟨rfl, rfl, rfl⟩ := heq
      simp [ih hr]
    · simp only [Option.some.injEq, Prod.mk.injEq] at h
      obtain ⟨rfl, rfl, rfl⟩ := h
      simp

theorem keysAsc_pushMany (q : PQ) (k : Int) (xs : List Item) (hq : KeysAsc q) : KeysAsc (pushMany q k xs) := by
  induction xs generalizing q with
  | nil => exact hq
  | cons y ys ih => simp only [pushMany, List.foldl_cons] at ih ⊢; exact ih _ (keysAsc_push q k y hq)

theorem sysAsc_setLocal {s : Sys} (h : SysAsc s) (i : Nat) (l : Local) (hl : KeysAsc l.q) : SysAsc (setLocal s i l) := by
  refine ⟨h.1, ?_⟩
  intro l' hl'
  rcases List.mem_or_eq_of_mem_set hl' with hm | rfl
  · exact h.2 l' hm
  · exact hl

theorem sysAsc_pushShared {s : Sys} (h : SysAsc s) (p : Int) (x : Item) : SysAsc (pushShared s p x) :=
  ⟨keysAsc_push _ _ _ h.1, h.2⟩

theorem sysAsc_pushAllShared {s : Sys} (h : SysAsc s) (m : List (Int × Item)) : SysAsc (pushAllShared s m) := by
  induction m generalizing s with
  | nil => exact h
  | cons e m ih => simp only [pushAllShared, List.foldl_cons] at ih ⊢; exact ih (sysAsc_pushShared h _ _)

theorem sysAsc_popShared {s : Sys} (h : SysAsc s) : SysAsc (popShared s).1 := by
  unfold popShared
  split
  · exact h
  · split
    · exact h
    · rename_i p y q' hq
      exact ⟨keysAsc_of_keys_eq (popMin_keys hq) h.1, h.2⟩

theorem mem_of_getElem? {α : Type} {l : List α} {i : Nat} {a : α} (h : l[i]? = some a) : a ∈ l := by
  obtain ⟨hi, rfl⟩ := List.getElem?_eq_some_iff.mp h
  exact List.getElem_mem hi

theorem sysAsc_pushLocal {fuel : Nat} {s s' : Sys} {i : Nat} {p : Int} {x : Item} (h : SysAsc s)
    (hp : pushLocal fuel s i p x = some s') : SysAsc s' := by
  have hg : ∀ s', pushToGlobal fuel s i p x = some s' → SysAsc s' := by
    intro s' hp
    unfold pushToGlobal at hp
    split at hp
    · simp at hp
    · rename_i l hl
      split at hp
      · simp at hp
      · rename_i q' moved hm
        simp only [Option.some.injEq] at hp; subst hp
        refine sysAsc_pushShared (sysAsc_pushAllShared (sysAsc_setLocal h _ _ ?_) _) _ _
        exact keysAsc_of_keys_eq (moveLoop_keys hm) (h.2 l (mem_of_getElem? hl))
  unfold pushLocal at hp
  split at hp
  · simp at hp
  · rename_i l hl
    split at hp
    · exact hg _ hp
    · split at hp
      · exact hg _ hp
      · simp only [Option.some.injEq] at hp; subst hp
        exact sysAsc_setLocal h _ _ (keysAsc_push _ _ _ (h.2 l (mem_of_getElem? hl)))

theorem sysAsc_popLocalOnly {s : Sys} (h : SysAsc s) (i : Nat) : SysAsc (popLocalOnly s i).1 := by
  unfold popLocalOnly
  split
  · exact h
  · rename_i l hl
    split
    · exact h
    · rename_i p y q' hq
      exact sysAsc_setLocal h _ _ (keysAsc_of_keys_eq (popMin_keys hq) (h.2 l (mem_of_getElem? hl)))

theorem sysAsc_stealFrom {s s' : Sys} {i j : Nat} (h : SysAsc s) (hs : stealFrom s i j = some s') : SysAsc s' := by
  unfold stealFrom at hs
  split at hs
  · rename_i li lj hli hlj
    split at hs
    · simp at hs
    · rename_i k taken qj' hp
      split at hs
      · rename_i li1 hli1
        simp only [Option.some.injEq] at hs; subst hs
        have h1 : SysAsc (setLocal s j { lj with q := qj' }) :=
          sysAsc_setLocal h _ _ (keysAsc_of_keys_eq (stealPick_keys hp) (h.2 lj (mem_of_getElem? hlj)))
        exact sysAsc_setLocal h1 _ _ (keysAsc_pushMany _ _ _ (h1.2 li1 (mem_of_getElem? hli1)))
      · simp at hs
  · simp at hs

theorem sysAsc_stealLoop {s s' : Sys} {i start k : Nat} (h : SysAsc s) (hs : stealLoop s i start k = some s') :
    SysAsc s' := by
  induction k with
  | zero => simp [stealLoop] at hs
  | succ k ih =>
    unfold stealLoop at hs
    simp only at hs
    split at hs
    · split at hs
      · simp at hs
      · split at hs
        · rename_i s1 hs1
          simp only [Option.some.injEq] at hs; subst hs
          exact sysAsc_stealFrom h hs1
        · exact ih hs
    · simp at hs

theorem sysAsc_popLocalRest {s : Sys} (h : SysAsc s) (i start : Nat) : SysAsc (popLocalRest s i start).1 := by
  unfold popLocalRest
  split
  · exact sysAsc_popLocalOnly h i
  · split
    · rename_i s3 hs3
      exact sysAsc_popLocalOnly (sysAsc_stealLoop h hs3) i
    · exact sysAsc_popShared h

theorem sysAsc_popLocal {s : Sys} (h : SysAsc s) (i start : Nat) : SysAsc (popLocal s i start).1 := by
  unfold popLocal
  split
  · exact h
  · rename_i l hl
    have hs := sysAsc_setLocal h i { l with tick := (nextTick l.tick).1 } (h.2 l (mem_of_getElem? hl))
    split
    · split
      · exact sysAsc_popShared hs
      · exact sysAsc_popLocalRest hs i start
    · exact sysAsc_popLocalRest hs i start

theorem sysAsc_step {s s' : Sys} {o : Op} {r : Option Item} (h : SysAsc s) (hs : step s o = some (s', r)) :
    SysAsc s' := by
  cases o with
  | gpush p y => simp only [step, Option.some.injEq, Prod.mk.injEq] at hs; obtain ⟨rfl, _⟩ := hs; exact sysAsc_pushShared h _ _
  | gpop =>
    simp only [step, Option.some.injEq] at hs
    have := sysAsc_popShared h; rw [hs] at this; exact this
  | lpush i p y =>
    simp only [step, Option.map_eq_some_iff, Prod.mk.injEq] at hs
    obtain ⟨s1, hs1, rfl, _⟩ := hs
    exact sysAsc_pushLocal h hs1
  | lpop i start =>
    simp only [step] at hs
    split at hs
    · simp only [Option.some.injEq] at hs
      have := sysAsc_popLocal h i start; rw [hs] at this; exact this
    · simp at hs

theorem sysAsc_run {s s' : Sys} {ops : List Op} {outs : List Item} (h : SysAsc s)
    (hr : run s ops = some (s', outs)) : SysAsc s' := by
  induction ops generalizing s outs with
  | nil => simp only [run, Option.some.injEq, Prod.mk.injEq] at hr; obtain ⟨rfl, _⟩ := hr; exact h
  | cons o os ih =>
    unfold run at hr
    split at hr
    · simp at hr
    · rename_i s1 r hst
      split at hr
      · simp at hr
      · rename_i s2 outs2 hr2
        simp only [Option.some.injEq, Prod.mk.injEq] at hr; obtain ⟨rfl, _⟩ := hr
        exact ih (sysAsc_step h hst) hr2

theorem sysAsc_mk (n cap : Nat) : SysAsc (mk n cap) := by
  refine ⟨by simp [mk, KeysAsc], ?_⟩
  intro l hl
  simp only [mk, List.mem_replicate] at hl
  rw [hl.2]; simp [KeysAsc]

end Oc.Queue
