import OcVerif.Model.Queue.Plain
import OcVerif.Proofs.Queue.Sys
/-! Conservation and the length counter for the plain work-steal queue model (helper file). -/
namespace Oc.Queue.Plain
open List Oc.Queue

def PSys.cnt (s : PSys) (x : Item) : Nat := count x s.resident

theorem cnt_def (s : PSys) (x : Item) : s.cnt x = count x s.shared + count x (s.locals.flatMap (·.items)) := by
  simp [PSys.cnt, PSys.resident, count_append]

theorem cnt_setLocal (s : PSys) (i : Nat) (l' : PLocal) (h : i < s.locals.length) (x : Item) :
    (setLocal s i l').cnt x + count x s.locals[i].items = s.cnt x + count x l'.items := by
  have := count_flatMap_set s.locals (·.items) i l' h x
  simp only [cnt_def, setLocal] at *
  omega

theorem cnt_pushShared (s : PSys) (y x : Item) : (pushShared s y).cnt x = s.cnt x + (if y = x then 1 else 0) := by
  simp only [cnt_def, pushShared, count_append, count_cons, count_nil]
  by_cases h : y = x
  · subst h; simp; omega
  · have hb : (y == x) = false := by simpa using h
    simp [hb, h]

theorem cnt_foldl_pushShared (ys : List Item) (s : PSys) (x : Item) :
    (ys.foldl pushShared s).cnt x = s.cnt x + count x ys := by
  induction ys generalizing s with
  | nil => simp
  | cons y ys ih =>
    simp only [List.foldl_cons, ih, cnt_pushShared, count_cons]
    by_cases h : y = x
    · have : (y == x) = true := by simpa using h
      simp [h]; omega
    · have : (y == x) = false := by simpa using h
      simp [h, this]

theorem cnt_popShared (s : PSys) (x : Item) : s.cnt x = (popShared s).1.cnt x + count x (popShared s).2.toList := by
  unfold popShared
  split
  · simp
  · split
    · simp
    · rename_i y r hs
      simp only [cnt_def, hs, count_cons, Option.toList, count_nil]
      omega

theorem cnt_popOwn (s : PSys) (i : Nat) (x : Item) : s.cnt x = (popOwn s i).1.cnt x + count x (popOwn s i).2.toList := by
  unfold popOwn
  split
  · simp
  · rename_i l hl
    have hi : i < s.locals.length := (List.getElem?_eq_some_iff.mp hl).1
    have hli : s.locals[i] = l := (List.getElem?_eq_some_iff.mp hl).2
    split
    · simp
    · rename_i y r hitems
      have := cnt_setLocal s i { l with items := r } hi x
      rw [hli, hitems] at this
      simp only [count_cons, Option.toList, count_nil] at this ⊢
      omega

theorem cnt_pushLocal {s s' : PSys} {i : Nat} {y : Item} (h : pushLocal s i y = some s') (x : Item) :
    s'.cnt x = s.cnt x + (if y = x then 1 else 0) := by
  unfold pushLocal at h
  split at h
  · simp at h
  · rename_i l hl
    have hi : i < s.locals.length := (List.getElem?_eq_some_iff.mp hl).1
    have hli : s.locals[i] = l := (List.getElem?_eq_some_iff.mp hl).2
    split at h
    · simp only [Option.some.injEq] at h; subst h
      have := cnt_setLocal s i { l with items := l.items ++ [y] } hi x
      rw [hli] at this
      by_cases hy : y = x
      · subst hy
        simp only [count_append, count_cons, count_nil, beq_self_eq_true, if_true] at this ⊢; omega
      · have hb : (y == x) = false := by simpa using hy
        simp only [count_append, count_cons, count_nil, hb, hy, if_false] at this ⊢
        simp at this; omega
    · simp only [Option.some.injEq] at h; subst h
      rw [cnt_pushShared, cnt_foldl_pushShared]
      have := cnt_setLocal s i { l with items := l.items.drop (l.items.length / 2) } hi x
      rw [hli] at this
      have hsplit : count x l.items = count x (l.items.take (l.items.length / 2)) + count x (l.items.drop (l.items.length / 2)) := by
        rw [← count_append, List.take_append_drop]
      simp only at this
      omega

theorem cnt_stealLoop {s s' : PSys} {i start k : Nat} (h : stealLoop s i start k = some s') (x : Item) :
    s'.cnt x = s.cnt x := by
  induction k with
  | zero => simp [stealLoop] at h
  | succ k ih =>
    unfold stealLoop at h
    simp only at h
    split at h
    · rename_i li lj hli hlj
      split at h
      · simp at h
      · split at h
        · exact ih h
        · split at h
          · exact ih h
          · rename_i hcnt
            split at h
            · rename_i li1 hli1
              simp only [Option.some.injEq] at h; subst h
              generalize hc : min (min (min (min lj.items.length ((s.wcap + 1) / 2 - li.items.length)) ((lj.items.length + 1) / 2)) (s.wcap - li.items.length)) lj.items.length = cnt at *
              have hj : (start + (s.locals.length - (k + 1))) % s.locals.length < s.locals.length := (List.getElem?_eq_some_iff.mp hlj).1
              have hljv := (List.getElem?_eq_some_iff.mp hlj).2
              have h1 := cnt_setLocal s _ { lj with items := lj.items.drop cnt } hj x
              rw [hljv] at h1
              have hi1 : i < (setLocal s ((start + (s.locals.length - (k + 1))) % s.locals.length) { lj with items := lj.items.drop cnt }).locals.length :=
                (List.getElem?_eq_some_iff.mp hli1).1
              have hli1v := (List.getElem?_eq_some_iff.mp hli1).2
              have h2 := cnt_setLocal _ i { li1 with items := li1.items ++ lj.items.take cnt } hi1 x
              rw [hli1v] at h2
              have hsplit : count x lj.items = count x (lj.items.take cnt) + count x (lj.items.drop cnt) := by
                rw [← count_append, List.take_append_drop]
              simp only [count_append] at h1 h2
              omega
            · simp at h
    · simp at h

theorem cnt_setTick (s : PSys) (i : Nat) (l : PLocal) (t : Nat) (hl : s.locals[i]? = some l) (x : Item) :
    (setLocal s i { l with tick := t }).cnt x = s.cnt x := by
  have hi : i < s.locals.length := (List.getElem?_eq_some_iff.mp hl).1
  have hli := (List.getElem?_eq_some_iff.mp hl).2
  have := cnt_setLocal s i { l with tick := t } hi x
  rw [hli] at this
  simp only at this; omega

theorem cnt_popLocal (s : PSys) (i start : Nat) (x : Item) :
    s.cnt x = (popLocal s i start).1.cnt x + count x (popLocal s i start).2.toList := by
  unfold popLocal
  split
  · simp
  · rename_i l hl
    simp only
    have ht := cnt_setTick s i l (nextTick l.tick).1 hl x
    generalize setLocal s i { l with tick := (nextTick l.tick).1 } = s0 at *
    have rest : s0.cnt x =
        (if (popOwn s0 i).2.isSome then popOwn s0 i else
          match stealLoop s0 i start s0.locals.length with
          | some s3 => popOwn s3 i
          | none => popShared s0).1.cnt x +
        count x (if (popOwn s0 i).2.isSome then popOwn s0 i else
          match stealLoop s0 i start s0.locals.length with
          | some s3 => popOwn s3 i
          | none => popShared s0).2.toList := by
      split
      · exact cnt_popOwn s0 i x
      · split
        · rename_i s3 hs3
          rw [← cnt_stealLoop hs3 x]; exact cnt_popOwn s3 i x
        · exact cnt_popShared s0 x
    by_cases hc : (nextTick l.tick).2 % 61 = 0
    · simp only [hc, if_true]
      split
      · rw [← ht]; exact cnt_popShared s0 x
      · rw [← ht]; exact rest
    · simp only [hc, if_false, Option.isSome_none, Bool.false_eq_true]
      rw [← ht]; exact rest

theorem cnt_pstep {s s' : PSys} {o : POp} {r : Option Item} (h : pstep s o = some (s', r)) (x : Item) :
    s.cnt x + count x o.pushed = s'.cnt x + count x r.toList := by
  cases o with
  | gpush y =>
    simp only [pstep, Option.some.injEq, Prod.mk.injEq] at h
    obtain ⟨rfl, rfl⟩ := h
    rw [cnt_pushShared]
    simp only [POp.pushed, count_cons, count_nil, Option.toList]
    by_cases hy : y = x
    · subst hy; simp
    · have hb : (y == x) = false := by simpa using hy
      simp [hb, hy]
  | gpop =>
    simp only [pstep, Option.some.injEq] at h
    have := cnt_popShared s x
    rw [h] at this
    simp only [POp.pushed, count_nil]; omega
  | lpush i y =>
    simp only [pstep, Option.map_eq_some_iff, Prod.mk.injEq] at h
    obtain ⟨s1, hs1, rfl, rfl⟩ := h
    rw [cnt_pushLocal hs1 x]
    simp only [POp.pushed, count_cons, count_nil, Option.toList]
    by_cases hy : y = x
    · subst hy; simp
    · have hb : (y == x) = false := by simpa using hy
      simp [hb, hy]
  | lpop i start =>
    simp only [pstep] at h
    split at h
    · simp only [Option.some.injEq] at h
      have := cnt_popLocal s i start x
      rw [h] at this
      simp only [POp.pushed, count_nil]; omega
    · simp at h

theorem cnt_prun {s s' : PSys} {ops : List POp} {outs : List Item} (h : prun s ops = some (s', outs)) (x : Item) :
    s.cnt x + count x (ppushedOf ops) = s'.cnt x + count x outs := by
  induction ops generalizing s outs with
  | nil =>
    simp only [prun, Option.some.injEq, Prod.mk.injEq] at h
    obtain ⟨rfl, rfl⟩ := h; simp [ppushedOf]
  | cons o os ih =>
    unfold prun at h
    split at h
    · simp at h
    · rename_i s1 r hst
      split at h
      · simp at h
      · rename_i s2 o2 hr2
        simp only [Option.some.injEq, Prod.mk.injEq] at h
        obtain ⟨rfl, rfl⟩ := h
        have h1 := cnt_pstep hst x
        have h2 := ih hr2
        simp only [ppushedOf, List.flatMap_cons, count_append] at *
        omega

/-- the shared length counter equals the number of items the shared queue holds -/
def PLenOk (s : PSys) : Prop := s.slen = s.shared.length

theorem plen_pushShared {s : PSys} (h : PLenOk s) (y : Item) : PLenOk (pushShared s y) := by
  unfold PLenOk pushShared at *; simp [h]

theorem plen_foldl {s : PSys} (h : PLenOk s) (ys : List Item) : PLenOk (ys.foldl pushShared s) := by
  induction ys generalizing s with
  | nil => exact h
  | cons y ys ih => exact ih (plen_pushShared h y)

theorem plen_popShared {s : PSys} (h : PLenOk s) : PLenOk (popShared s).1 := by
  unfold popShared
  split
  · exact h
  · split
    · exact h
    · rename_i y r hs; unfold PLenOk at *; simp [hs] at h ⊢; omega

theorem plen_setLocal {s : PSys} (h : PLenOk s) (i : Nat) (l : PLocal) : PLenOk (setLocal s i l) := h

theorem plen_popOwn {s : PSys} (h : PLenOk s) (i : Nat) : PLenOk (popOwn s i).1 := by
  unfold popOwn
  split
  · exact h
  · split
    · exact h
    · exact h

theorem plen_pushLocal {s s' : PSys} {i : Nat} {y : Item} (h : PLenOk s) (hp : pushLocal s i y = some s') : PLenOk s' := by
  unfold pushLocal at hp
  split at hp
  · simp at hp
  · split at hp
    · simp only [Option.some.injEq] at hp; subst hp; exact h
    · simp only [Option.some.injEq] at hp; subst hp
      exact plen_pushShared (plen_foldl (plen_setLocal h _ _) _) _

theorem plen_stealLoop {s s' : PSys} {i start k : Nat} (h : PLenOk s) (hs : stealLoop s i start k = some s') : PLenOk s' := by
  induction k with
  | zero => simp [stealLoop] at hs
  | succ k ih =>
    unfold stealLoop at hs
    simp only at hs
    split at hs
    · split at hs
      · simp at hs
      · split at hs
        · exact ih hs
        · split at hs
          · exact ih hs
          · split at hs
            · simp only [Option.some.injEq] at hs; subst hs; exact h
            · simp at hs
    · simp at hs

theorem plen_popLocal {s : PSys} (h : PLenOk s) (i start : Nat) : PLenOk (popLocal s i start).1 := by
  unfold popLocal
  split
  · exact h
  · rename_i l hl
    simp only
    have hs0 : PLenOk (setLocal s i { l with tick := (nextTick l.tick).1 }) := plen_setLocal h _ _
    generalize setLocal s i { l with tick := (nextTick l.tick).1 } = s0 at *
    have rest : PLenOk (if (popOwn s0 i).2.isSome then popOwn s0 i else
          match stealLoop s0 i start s0.locals.length with
          | some s3 => popOwn s3 i
          | none => popShared s0).1 := by
      split
      · exact plen_popOwn hs0 i
      · split
        · rename_i s3 hs3; exact plen_popOwn (plen_stealLoop hs0 hs3) i
        · exact plen_popShared hs0
    by_cases hc : (nextTick l.tick).2 % 61 = 0
    · simp only [hc, if_true]
      split
      · exact plen_popShared hs0
      · exact rest
    · simp only [hc, if_false, Option.isSome_none, Bool.false_eq_true]
      exact rest

theorem plen_pstep {s s' : PSys} {o : POp} {r : Option Item} (h : PLenOk s) (hs : pstep s o = some (s', r)) : PLenOk s' := by
  cases o with
  | gpush y => simp only [pstep, Option.some.injEq, Prod.mk.injEq] at hs; rw [← hs.1]; exact plen_pushShared h y
  | gpop => simp only [pstep, Option.some.injEq] at hs; have := plen_popShared h; rw [hs] at this; exact this
  | lpush i y =>
    simp only [pstep, Option.map_eq_some_iff, Prod.mk.injEq] at hs
    obtain ⟨s1, hs1, rfl, _⟩ := hs
    exact plen_pushLocal h hs1
  | lpop i start =>
    simp only [pstep] at hs
    split at hs
    · simp only [Option.some.injEq] at hs; have := plen_popLocal h i start; rw [hs] at this; exact this
    · simp at hs

theorem plen_prun {s s' : PSys} {ops : List POp} {outs : List Item} (h : PLenOk s) (hr : prun s ops = some (s', outs)) : PLenOk s' := by
  induction ops generalizing s outs with
  | nil => simp only [prun, Option.some.injEq, Prod.mk.injEq] at hr; rw [← hr.1]; exact h
  | cons o os ih =>
    unfold prun at hr
    split at hr
    · simp at hr
    · rename_i s1 r hst
      split at hr
      · simp at hr
      · rename_i s2 o2 hr2
        simp only [Option.some.injEq, Prod.mk.injEq] at hr
        obtain ⟨rfl, _⟩ := hr
        exact ih (plen_pstep h hst) hr2

theorem pstep_isSome (s : PSys) (o : POp) (hv : o.valid s.locals.length = true) : (pstep s o).isSome = true := by
  cases o with
  | gpush y => rfl
  | gpop => rfl
  | lpush i y =>
    simp only [POp.valid, decide_eq_true_eq] at hv
    simp only [pstep, Option.isSome_map]
    unfold pushLocal
    rw [List.getElem?_eq_getElem hv]
    simp only
    split <;> rfl
  | lpop i start =>
    simp only [POp.valid, decide_eq_true_eq] at hv
    simp [pstep, hv]

end Oc.Queue.Plain
