import OcVerif.Model.Pool
/-! Invariants of the pool model (helper file). -/
namespace Oc.Pool
open List

def countAlive (ws : List Worker) : Nat := ws.countP (·.alive)

/-- the reported running size is the number of workers that have not returned from their loop -/
def Inv11 (p : Pool) : Prop := p.running = countAlive p.workers

theorem countP_set_same {α : Type} (q : α → Bool) (l : List α) (i : Nat) (a b : α) (h : l[i]? = some a) (hq : q b = q a) :
    (l.set i b).countP q = l.countP q := by
  induction l generalizing i with
  | nil => simp at h
  | cons x xs ih =>
    cases i with
    | zero => simp at h; subst h; simp [List.countP_cons, hq]
    | succ j => simp at h; simp [List.countP_cons, ih j h]

theorem countP_set_flip {α : Type} (q : α → Bool) (l : List α) (i : Nat) (a b : α) (h : l[i]? = some a) (ha : q a = true) (hb : q b = false) :
    (l.set i b).countP q + 1 = l.countP q := by
  induction l generalizing i with
  | nil => simp at h
  | cons x xs ih =>
    cases i with
    | zero => simp at h; subst h; simp [List.countP_cons, ha, hb]
    | succ j => simp at h; have := ih j h; simp [List.countP_cons]; omega

theorem inv_tryGrow {p : Pool} (h : Inv11 p) : Inv11 (tryGrow p) := by
  unfold tryGrow
  split
  · exact h
  · split
    · exact h
    · unfold Inv11 countAlive at *; simp [List.countP_append, h]

theorem inv_setResult {p : Pool} (h : Inv11 p) (t : Nat) (o : Outcome) : Inv11 (setResult p t o) := h

theorem setResult_workers (p : Pool) (t : Nat) (o : Outcome) : (setResult p t o).workers = p.workers := rfl

theorem inv_setWorker_same {p : Pool} (h : Inv11 p) (w : Nat) (x x' : Worker) (hx : p.workers[w]? = some x) (ha : x'.alive = x.alive) :
    Inv11 (setWorker p w x') := by
  unfold Inv11 countAlive setWorker at *
  simp only
  rw [countP_set_same (·.alive) p.workers w x x' hx ha]; exact h

theorem tryGrow_get (p : Pool) (w : Nat) (x : Worker) (h : p.workers[w]? = some x) : (tryGrow p).workers[w]? = some x := by
  unfold tryGrow
  split
  · exact h
  · split
    · exact h
    · simp only
      rw [List.getElem?_append_left]
      · exact h
      · exact (List.getElem?_eq_some_iff.mp h).1

theorem finish_workers (p : Pool) (t : Nat) (o : Outcome) : (finish p t o).workers = p.workers := by
  unfold finish; split <;> rfl
theorem finish_running (p : Pool) (t : Nat) (o : Outcome) : (finish p t o).running = p.running := by
  unfold finish; split <;> rfl
theorem finish_state (p : Pool) (t : Nat) (o : Outcome) : (finish p t o).state = p.state := by
  unfold finish; split <;> rfl
theorem inv_finish {p : Pool} (h : Inv11 p) (t : Nat) (o : Outcome) : Inv11 (finish p t o) := by
  unfold Inv11 at *; rw [finish_workers, finish_running]; exact h

theorem inv_setWorker_of {p q : Pool} (h : Inv11 p) (w : Nat) (x x' : Worker) (hx : p.workers[w]? = some x)
    (ha : x'.alive = x.alive) (hw : q.workers = p.workers) (hr : q.running = p.running) : Inv11 (setWorker q w x') := by
  unfold Inv11 countAlive setWorker at *
  simp only
  rw [hw, hr, countP_set_same (·.alive) p.workers w x x' hx ha]; exact h

theorem inv_leave {p : Pool} (h : Inv11 p) (w : Nat) (x : Worker) (hx : p.workers[w]? = some x) (hal : x.alive = true)
    (q : Pool) (hw : q.workers = p.workers) (hr : q.running = p.running - 1) :
    Inv11 (setWorker q w { x with alive := false }) := by
  unfold Inv11 countAlive setWorker at *
  simp only
  have := countP_set_flip (·.alive) p.workers w x { x with alive := false } hx hal rfl
  rw [hw, hr]; omega

/-- one resumption of a worker keeps the count exact -/
theorem inv_nestSubmit {p : Pool} (h : Inv11 p) (t : Nat) : Inv11 (nestSubmit p t) := by
  unfold nestSubmit; split <;> exact h

theorem nestSubmit_state (p : Pool) (t : Nat) : (nestSubmit p t).state = p.state := by
  unfold nestSubmit; split <;> rfl

theorem inv_resumeWorker (f : Nat) (p : Pool) (w : Nat) (h : Inv11 p) : Inv11 (resumeWorker f p w) := by
  induction f generalizing p with
  | zero => exact h
  | succ f ih =>
    unfold resumeWorker
    split
    · exact h
    · rename_i x hx
      split
      · exact h
      · rename_i halive
        have hal : x.alive = true := by simpa using halive
        split
        · exact inv_leave h w x hx hal _ rfl rfl
        · split
          · rename_i t ht
            split
            · exact ih _ (inv_setWorker_of h w x _ hx rfl (finish_workers _ _ _) (finish_running _ _ _))
            · -- plain yield
              rename_i r hr
              have h1 : Inv11 (setWorker p w { x with rest := r }) := inv_setWorker_same h w x _ hx rfl
              exact inv_tryGrow h1
            · rename_i d r hr
              have h1 : Inv11 (setWorker p w { x with rest := r }) := inv_setWorker_same h w x _ hx rfl
              have h2 := inv_tryGrow h1
              simp only
              split <;> exact h2
            · exact ih _ (inv_setWorker_of h w x _ hx rfl (finish_workers _ _ _) (finish_running _ _ _))
            · exact ih _ (inv_setWorker_of h w x _ hx rfl (finish_workers _ _ _) (finish_running _ _ _))
            · rename_i r hr
              have h1 : Inv11 (setWorker p w { x with rest := r }) := inv_setWorker_same h w x _ hx rfl
              exact ih _ (inv_nestSubmit h1 _)
            · exact inv_tryGrow (inv_leave h w x hx hal _ rfl rfl)
          · split
            · -- the worker leaves its loop: running − 1, one alive worker fewer
              exact inv_leave h w x hx hal _ rfl rfl
            · rename_i pr t q' hpop
              simp only
              split
              · apply ih; exact inv_finish (p := { p with tasks := q', cancelTasks := p.cancelTasks.filter (· != t) }) h _ _
              · exact ih _ (inv_setWorker_same (x := x) h w _ hx rfl)

theorem inv_leave' {p : Pool} (h : Inv11 p) (w : Nat) (x x' : Worker) (hx : p.workers[w]? = some x) (hal : x.alive = true)
    (hd : x'.alive = false) (q : Pool) (hw : q.workers = p.workers) (hr : q.running = p.running - 1) :
    Inv11 (setWorker q w x') := by
  unfold Inv11 countAlive setWorker at *
  simp only
  have := countP_set_flip (·.alive) p.workers w x x' hx hal hd
  rw [hw, hr]; omega

/-- dropping a parked worker on a cancel request gives its slot back: the count stays exact -/
theorem inv_dropParked {p : Pool} (h : Inv11 p) (w : Nat) : Inv11 (dropParked p w) := by
  unfold dropParked
  simp only
  split
  · exact h
  · rename_i x hx
    split
    · exact h
    · rename_i hal
      have hal' : x.alive = true := by simpa using hal
      have h1 := inv_leave' h w x { x with alive := false, task := none, rest := [] } hx hal' rfl
        { p with cancelCos := p.cancelCos.filter (· != w), dropped := w :: p.dropped, running := p.running - 1 } rfl rfl
      split
      · apply inv_tryGrow; apply inv_finish; exact h1
      · exact inv_tryGrow h1

theorem inv_wake (f : Nat) (p : Pool) (h : Inv11 p) : Inv11 (wake f p) := by
  induction f generalizing p with
  | zero => exact h
  | succ f ih =>
    unfold wake
    split
    · exact h
    · exact ih _ h

theorem inv_schedLoop (f : Nat) (p : Pool) (h : Inv11 p) : Inv11 (schedLoop f p) := by
  induction f generalizing p with
  | zero => exact h
  | succ f ih =>
    unfold schedLoop
    have hw := inv_wake (p.suspend.length + 1) p h
    generalize wake (p.suspend.length + 1) p = p1 at hw
    simp only
    split
    · exact hw
    · split
      · apply ih; apply inv_dropParked; exact hw
      · apply ih; exact inv_resumeWorker _ _ _ hw

theorem inv_pass {p p' : Pool} (h : Inv11 p) (hp : pass p = some p') : Inv11 p' := by
  unfold pass at hp
  split at hp
  · simp at hp
  · simp only [Option.some.injEq] at hp; subst hp
    exact inv_schedLoop _ _ (inv_tryGrow h)

theorem inv_doClean {p : Pool} (h : Inv11 p) : Inv11 (doClean p) := by
  unfold doClean
  generalize p.waits = ws
  induction ws generalizing p with
  | nil => exact h
  | cons t r ih => simp only [List.foldl_cons]; exact ih (inv_setResult h t _)

theorem inv_stop {p : Pool} (h : Inv11 p) : Inv11 (stop p).1 := by
  unfold stop
  split
  · exact inv_doClean h
  · unfold stopLive
    have hg : Inv11 (tryGrow { p with state := .stopping }) := inv_tryGrow h
    split
    · exact hg
    · exact inv_doClean hg

/-! ### state is only changed by `stop` -/

theorem tryGrow_state (p : Pool) : (tryGrow p).state = p.state := by
  unfold tryGrow; split; rfl; split <;> rfl

theorem resumeWorker_state (f : Nat) (p : Pool) (w : Nat) : (resumeWorker f p w).state = p.state := by
  induction f generalizing p with
  | zero => rfl
  | succ f ih =>
    unfold resumeWorker
    split
    · rfl
    · split
      · rfl
      · split
        · rfl
        · split
          · split
            · rw [ih]; exact finish_state _ _ _
            · simp only [tryGrow_state]; rfl
            · simp only; split <;> simp only [tryGrow_state] <;> rfl
            · rw [ih]; exact finish_state _ _ _
            · rw [ih]; exact finish_state _ _ _
            · rw [ih, nestSubmit_state]; rfl
            · simp only [tryGrow_state]; rfl
          · split
            · rfl
            · simp only; split
              · rw [ih]; exact finish_state _ _ _
              · rw [ih]; rfl

theorem wake_state (f : Nat) (p : Pool) : (wake f p).state = p.state := by
  induction f generalizing p with
  | zero => rfl
  | succ f ih => unfold wake; split; rfl; rw [ih]

theorem dropParked_state (p : Pool) (w : Nat) : (dropParked p w).state = p.state := by
  unfold dropParked
  simp only
  split
  · rfl
  · split
    · rfl
    · split
      · rw [tryGrow_state, finish_state]; rfl
      · rw [tryGrow_state]; rfl

theorem schedLoop_state (f : Nat) (p : Pool) : (schedLoop f p).state = p.state := by
  induction f generalizing p with
  | zero => rfl
  | succ f ih =>
    unfold schedLoop
    simp only
    split
    · exact wake_state _ _
    · split
      · rw [ih, dropParked_state]; exact wake_state _ _
      · rw [ih, resumeWorker_state]; exact wake_state _ _

theorem doClean_state (p : Pool) : (doClean p).state = p.state := by
  unfold doClean
  generalize p.waits = ws
  induction ws generalizing p with
  | nil => rfl
  | cons t r ih => simp only [List.foldl_cons]; rw [ih]; rfl

/-- after `do_clean` no waiter is left registered -/
theorem doClean_waits (p : Pool) : (doClean p).waits = [] := by
  unfold doClean
  have key : ∀ (ws : List Nat) (p : Pool), (∀ t ∈ p.waits, t ∈ ws) →
      (ws.foldl (fun p t => setResult p t (.err "The coroutine pool has stopped")) p).waits = [] := by
    intro ws
    induction ws with
    | nil => intro p h; simp only [List.foldl_nil]; exact List.eq_nil_iff_forall_not_mem.mpr (fun t ht => by simpa using h t ht)
    | cons t r ih =>
      intro p h
      simp only [List.foldl_cons]
      apply ih
      intro t' ht'
      simp only [setResult, List.mem_filter, bne_iff_ne, ne_eq] at ht'
      have := h t' ht'.1
      rcases List.mem_cons.mp this with rfl | hr
      · exact absurd rfl ht'.2
      · exact hr
  exact key p.waits p (fun t ht => ht)

theorem doClean_frame (q : Pool) : (doClean q).running = q.running ∧ (doClean q).tasks = q.tasks := by
  unfold doClean
  generalize q.waits = ws
  induction ws generalizing q with
  | nil => exact ⟨rfl, rfl⟩
  | cons t r ih =>
    simp only [List.foldl_cons]
    have := ih (setResult q t (.err "The coroutine pool has stopped"))
    exact ⟨this.1, this.2⟩

end Oc.Pool
