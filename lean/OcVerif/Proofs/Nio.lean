import OcVerif.Spec.Nio
/-! Invariants of the hooked I/O retry loop (helper file). -/
namespace Oc.Nio

/-- while the loop is still running nothing has been transferred and the last answer was a failure -/
structure Running (st : St) : Prop where
  rec0 : st.received = 0
  mov0 : st.moved = 0
  rneg : st.r = -1
  err : st.errno = st.lastErr.getD 0

/-- what the loop can end in -/
inductive Final (st : St) : Prop
  | success (h1 : st.r = Int.ofNat st.moved) (h2 : st.errno = 0)
  | failed (h1 : st.r = -1) (h2 : st.moved = 0) (h3 : st.errno = st.lastErr.getD 0)
  | waitFailed (h1 : st.r = 0) (h2 : st.moved = 0)

theorem running_addReq {k : Kind} {shape : Shape} {st : St} (h : Running st) : Running (addReq k shape st) :=
  ⟨h.rec0, h.mov0, h.rneg, h.err⟩

theorem running_failWith {st : St} (h : Running st) (e : Nat) : Running (failWith st e) :=
  ⟨h.rec0, h.mov0, rfl, rfl⟩

theorem final_onMoved {k : Kind} {shape : Shape} {st : St} (h : Running st) (n : Nat) :
    Final (onMoved k shape st n) := by
  apply Final.success
  · simp only [onMoved, h.rec0, h.mov0, Nat.zero_add]
    split
    · rfl
    · split <;> rfl
  · rfl

theorem final_of_running {st : St} (h : Running st) : Final st := Final.failed h.rneg h.mov0 h.err

theorem final_waitFailed {k : Kind} {st : St} (h : Running st) : Final (waitFailed k st) := by
  unfold waitFailed
  split
  · exact final_of_running h
  · exact Final.waitFailed (by simp [h.rec0]) h.mov0

theorem running_prepWait {start limit : Nat} {st : St} (h : Running st) : Running (prepWait start limit st) :=
  ⟨h.rec0, h.mov0, h.rneg, h.err⟩

theorem loop_final (k : Kind) (shape : Shape) (blocking : Bool) (start limit : Nat) (calls : List CResp)
    (st : St) (h : Running st) : Final (loop k shape blocking start limit calls st) := by
  induction calls generalizing st with
  | nil =>
    unfold loop
    split
    · exact final_of_running h
    · exact final_of_running (running_failWith (running_addReq h) _)
  | cons c rest ih =>
    unfold loop
    split
    · exact final_of_running h
    · cases c with
      | moved n => exact final_onMoved (running_addReq h) n
      | err e => exact final_of_running (running_failWith (running_addReq h) _)
      | intr => exact ih _ (running_failWith (running_addReq h) _)
      | again =>
        simp only
        split
        · exact final_of_running (running_failWith (running_addReq h) _)
        · have hr := running_prepWait (start := start) (limit := limit) (running_failWith (running_addReq (k := k) (shape := shape) h) EAGAIN)
          split
          · exact final_waitFailed hr
          · exact final_waitFailed hr
          · exact ih _ ⟨hr.rec0, hr.mov0, hr.rneg, hr.err⟩
          · exact ih _ ⟨hr.rec0, hr.mov0, hr.rneg, hr.err⟩

theorem init_running (start limit : Nat) (waits : List WResp) :
    Running ({ now := start, left := limit, waits := waits } : St) := ⟨rfl, rfl, rfl, rfl⟩

/-! ### requests -/

def isMoved : CResp → Bool
  | .moved _ => true
  | _ => false

/-- number of leading answers that are not a transfer -/
def lead : List CResp → Nat
  | [] => 0
  | c :: cs => if isMoved c then 0 else lead cs + 1

def fullReq (shape : Shape) : Req := { ranges := rangesFrom 0 shape, count := shape.length }

theorem request_vec {k : Kind} (hk : k.isVec = true) (shape : Shape) (n : Nat) : request k shape n = fullReq shape := by
  simp [request, hk, fullReq]

/-- a vectored call only ever issues the caller's whole array, at most once per leading failure
plus once for the first transfer -/
theorem loop_reqs_vec (k : Kind) (hk : k.isVec = true) (shape : Shape) (blocking : Bool) (start limit : Nat)
    (calls : List CResp) (st : St) :
    ∃ j, j ≤ lead calls + 1 ∧
      (loop k shape blocking start limit calls st).reqs = st.reqs ++ List.replicate j (fullReq shape) := by
  induction calls generalizing st with
  | nil =>
    unfold loop
    split
    · exact ⟨0, by omega, by simp⟩
    · exact ⟨1, by simp [lead], by simp [failWith, addReq, request_vec hk]⟩
  | cons c rest ih =>
    unfold loop
    split
    · exact ⟨0, by omega, by simp⟩
    · cases c with
      | moved n => exact ⟨1, by simp [lead, isMoved], by simp [onMoved, addReq, request_vec hk]⟩
      | err e => exact ⟨1, by simp [lead, isMoved], by simp [failWith, addReq, request_vec hk]⟩
      | intr =>
        obtain ⟨j, hj, he⟩ := ih (failWith (addReq k shape st) EINTR)
        refine ⟨j + 1, by simp [lead, isMoved]; omega, ?_⟩
        simp only at he ⊢
        rw [he]
        simp [failWith, addReq, request_vec hk, List.replicate_succ]
      | again =>
        simp only
        split
        · exact ⟨1, by simp [lead, isMoved], by simp [failWith, addReq, request_vec hk]⟩
        · split
          · exact ⟨1, by simp [lead, isMoved], by simp [waitFailed, hk, prepWait, failWith, addReq, request_vec hk]⟩
          · exact ⟨1, by simp [lead, isMoved], by simp [waitFailed, hk, prepWait, failWith, addReq, request_vec hk]⟩
          · rename_i ws hw
            obtain ⟨j, hj, he⟩ := ih { prepWait start limit (failWith (addReq k shape st) EAGAIN) with
              now := st.now + waitTime start limit st.now, waits := ws }
            refine ⟨j + 1, by simp [lead, isMoved]; omega, ?_⟩
            rw [he]
            simp [prepWait, failWith, addReq, request_vec hk, List.replicate_succ]
          · rename_i ns ws hw
            obtain ⟨j, hj, he⟩ := ih { prepWait start limit (failWith (addReq k shape st) EAGAIN) with
              now := st.now + min ns (waitTime start limit st.now), waits := ws }
            refine ⟨j + 1, by simp [lead, isMoved]; omega, ?_⟩
            rw [he]
            simp [prepWait, failWith, addReq, request_vec hk, List.replicate_succ]

/-- a non-blocking descriptor is never waited on -/
theorem loop_nowait_nonblocking (k : Kind) (shape : Shape) (start limit : Nat) (calls : List CResp) (st : St) :
    (loop k shape false start limit calls st).wlog = st.wlog := by
  induction calls generalizing st with
  | nil => unfold loop; split <;> rfl
  | cons c rest ih =>
    unfold loop
    split
    · rfl
    · cases c with
      | moved n => rfl
      | err e => rfl
      | intr => rw [ih]; rfl
      | again => rfl

end Oc.Nio
