import OcVerif.Spec.C07
/-! Invariants of the coroutine model (helper file). -/
namespace Oc.Co
open Oc.Spec.C07

/-- the event log is a path of legal edges from `start`; returns where it ends -/
def chainFrom : St → List Ev → Option St
  | s, [] => some s
  | s, e :: es => if e.old = s ∧ legal e.old e.new = true then chainFrom e.new es else none

/-- well-formed coroutine: the reported changes form a legal path from `Ready` to the current state -/
def Wf (c : Co) : Prop := chainFrom .ready c.events = some c.state

theorem chainFrom_append (s : St) (es : List Ev) (e : Ev) :
    chainFrom s (es ++ [e]) = (chainFrom s es).bind (fun t => if e.old = t ∧ legal e.old e.new = true then some e.new else none) := by
  induction es generalizing s with
  | nil => simp [chainFrom]
  | cons a as ih =>
    simp only [List.cons_append, chainFrom]
    split
    · exact ih _
    · rfl

theorem wf_change {c : Co} (h : Wf c) (new : St) (cb : String) (hl : legal c.state new = true) : Wf (c.change new cb) := by
  unfold Wf Co.change at *
  simp only [chainFrom_append, h, Option.bind_some, hl, and_self, if_true]

theorem wf_toRunning {c c' : Co} {now : Nat} (h : Wf c) (hr : c.toRunning now = some c') : Wf c' := by
  unfold Co.toRunning at hr
  split at hr <;> try (simp only [Option.some.injEq] at hr; subst hr)
  · exact h
  · rename_i hs; exact wf_change h _ _ (by rw [hs]; rfl)
  · rename_i hs; exact wf_change h _ _ (by rw [hs]; rfl)
  · rename_i hs
    split at hr
    · simp only [Option.some.injEq] at hr; subst hr; exact wf_change h _ _ (by rw [hs]; rfl)
    · simp at hr
  · exact h
  · exact h
  · simp at hr

theorem wf_toSyscall {c c' : Co} {n : String} {s : SysSt} (h : Wf c) (hr : c.toSyscall n s = some c') : Wf c' := by
  unfold Co.toSyscall at hr
  split at hr
  · rename_i hs; simp only [Option.some.injEq] at hr; subst hr; exact wf_change h _ _ (by rw [hs]; rfl)
  · rename_i hs
    split at hr
    · rename_i heq; simp only [Option.some.injEq] at hr; subst hr
      exact wf_change h _ _ (by rw [hs]; simp [legal, heq])
    · simp at hr
  · simp at hr

theorem wf_of_running_change {c c' : Co} (h : Wf c) (new : St) (cb : String) (hl : legal .running new = true)
    (hr : (if c.state = .running then some (c.change new cb) else none) = some c') : Wf c' := by
  split at hr
  · rename_i hs; simp only [Option.some.injEq] at hr; subst hr; exact wf_change h _ _ (by rw [hs]; exact hl)
  · simp at hr

/-- running or in a system call: the only states a body can be executing in -/
def Active (c : Co) : Prop := c.state = .running ∨ ∃ y n s, c.state = .syscall y n s

theorem active_toRunning {c c' : Co} {now : Nat} (hr : c.toRunning now = some c') : Active c' := by
  unfold Co.toRunning at hr
  split at hr <;> try (simp only [Option.some.injEq] at hr; subst hr)
  · rename_i hs; exact Or.inl hs
  · exact Or.inl rfl
  · exact Or.inl rfl
  · split at hr
    · simp only [Option.some.injEq] at hr; subst hr; exact Or.inl rfl
    · simp at hr
  · rename_i hs; exact Or.inr ⟨_, _, _, hs⟩
  · rename_i hs; exact Or.inr ⟨_, _, _, hs⟩
  · simp at hr

theorem active_getD_toSyscall {c : Co} (n : String) (s : SysSt) (h : Active c) : Active ((c.toSyscall n s).getD c) := by
  cases hr : c.toSyscall n s with
  | none => simpa using h
  | some c' =>
    simp only [Option.getD_some]
    unfold Co.toSyscall at hr
    split at hr
    · simp only [Option.some.injEq] at hr; subst hr; exact Or.inr ⟨_, _, _, rfl⟩
    · split at hr
      · simp only [Option.some.injEq] at hr; subst hr; exact Or.inr ⟨_, _, _, rfl⟩
      · simp at hr
    · simp at hr

theorem active_getD_toRunning {c : Co} (now : Nat) (h : Active c) : Active ((c.toRunning now).getD c) := by
  cases hr : c.toRunning now with
  | none => simpa using h
  | some c' => simpa using active_toRunning hr

theorem wf_getD_toSyscall {c : Co} (n : String) (s : SysSt) (h : Wf c) : Wf ((c.toSyscall n s).getD c) := by
  cases hr : c.toSyscall n s with
  | none => simpa using h
  | some c' => simpa using wf_toSyscall h hr

theorem wf_getD_toRunning {c : Co} (now : Nat) (h : Wf c) : Wf ((c.toRunning now).getD c) := by
  cases hr : c.toRunning now with
  | none => simpa using h
  | some c' => simpa using wf_toRunning h hr

theorem wf_withLog {c : Co} (l : String) (h : Wf c) : Wf (c.withLog l) := h
theorem active_withLog {c : Co} (l : String) (h : Active c) : Active (c.withLog l) := h

theorem got_toSyscall {c c' : Co} {n : String} {s : SysSt} (hr : c.toSyscall n s = some c') : c'.got = c.got := by
  unfold Co.toSyscall at hr
  split at hr
  · simp only [Option.some.injEq] at hr; subst hr; rfl
  · split at hr
    · simp only [Option.some.injEq] at hr; subst hr; rfl
    · simp at hr
  · simp at hr

theorem got_toRunning {c c' : Co} {now : Nat} (hr : c.toRunning now = some c') : c'.got = c.got := by
  unfold Co.toRunning at hr
  split at hr <;> try (simp only [Option.some.injEq] at hr; subst hr; rfl)
  · split at hr
    · simp only [Option.some.injEq] at hr; subst hr; rfl
    · simp at hr
  · simp at hr

theorem got_getD_toSyscall (c : Co) (n : String) (s : SysSt) : ((c.toSyscall n s).getD c).got = c.got := by
  cases hr : c.toSyscall n s with
  | none => rfl
  | some c' => simpa using got_toSyscall hr

theorem got_getD_toRunning (c : Co) (now : Nat) : ((c.toRunning now).getD c).got = c.got := by
  cases hr : c.toRunning now with
  | none => rfl
  | some c' => simpa using got_toRunning hr

/-- the body only moves between Running and Syscall and keeps the log well-formed -/
theorem runBody_wf (th : Th) (c : Co) (steps : List Step) (hw : Wf c) (ha : Active c) :
    Wf (runBody th c steps).2.1 ∧ Active (runBody th c steps).2.1 := by
  induction steps generalizing c th with
  | nil => exact ⟨hw, ha⟩
  | cons st rest ih =>
    cases st with
    | susp y => exact ⟨hw, ha⟩
    | delay y d => exact ⟨hw, ha⟩
    | until_ y t => exact ⟨hw, ha⟩
    | enter => exact ih _ _ (wf_withLog _ (wf_getD_toSyscall _ _ hw)) (active_withLog _ (active_getD_toSyscall _ _ ha))
    | setSys s => exact ih _ _ (wf_withLog _ (wf_getD_toSyscall _ _ hw)) (active_withLog _ (active_getD_toSyscall _ _ ha))
    | wrongSys => exact ih _ _ (wf_withLog _ (wf_getD_toSyscall _ _ hw)) (active_withLog _ (active_getD_toSyscall _ _ ha))
    | exit => exact ih _ _ (wf_withLog _ (wf_getD_toRunning _ hw)) (active_withLog _ (active_getD_toRunning _ ha))
    | cancel => exact ⟨hw, ha⟩
    | req j => exact ih _ _ hw ha
    | panic k => exact ⟨hw, ha⟩
    | ret r => exact ⟨hw, ha⟩

theorem runBody_active (th : Th) (c : Co) (steps : List Step) (ha : Active c) : Active (runBody th c steps).2.1 := by
  induction steps generalizing c th with
  | nil => exact ha
  | cons st rest ih =>
    cases st with
    | enter => exact ih _ _ (active_withLog _ (active_getD_toSyscall _ _ ha))
    | setSys s => exact ih _ _ (active_withLog _ (active_getD_toSyscall _ _ ha))
    | wrongSys => exact ih _ _ (active_withLog _ (active_getD_toSyscall _ _ ha))
    | exit => exact ih _ _ (active_withLog _ (active_getD_toRunning _ ha))
    | req j => exact ih _ _ ha
    | _ => exact ha

/-- the body itself never touches the values it received -/
theorem runBody_got (th : Th) (c : Co) (steps : List Step) : (runBody th c steps).2.1.got = c.got := by
  induction steps generalizing c th with
  | nil => rfl
  | cons st rest ih =>
    cases st with
    | enter => simp only [runBody]; rw [ih]; exact got_getD_toSyscall _ _ _
    | setSys s => simp only [runBody]; rw [ih]; exact got_getD_toSyscall _ _ _
    | wrongSys => simp only [runBody]; rw [ih]; exact got_getD_toSyscall _ _ _
    | exit => simp only [runBody]; rw [ih]; exact got_getD_toRunning _ _
    | req j => simp only [runBody]; rw [ih]
    | _ => rfl

/-- what a slice of body execution may leave on the request stacks: nothing, or exactly the one
request of the step it yields with -/
inductive Pushed (th th' : Th) : End → Prop
  | none (e : End) (h1 : th'.ts = th.ts) (h2 : th'.cn = th.cn) : Pushed th th' e
  | time (y t : Nat) (h1 : th'.ts = t :: th.ts) (h2 : th'.cn = th.cn) : Pushed th th' (.yielded y)
  | cancel (h1 : th'.ts = th.ts) (h2 : th'.cn = true :: th.cn) : Pushed th th' (.yielded 0)

theorem Pushed.of_eq {th1 th th' : Th} {e : End} (h1 : th1.ts = th.ts) (h2 : th1.cn = th.cn)
    (hp : Pushed th1 th' e) : Pushed th th' e := by
  cases hp with
  | none e a b => exact .none _ (a.trans h1) (b.trans h2)
  | time y t a b => exact .time y t (by rw [a, h1]) (b.trans h2)
  | cancel a b => exact .cancel (a.trans h1) (by rw [b, h2])

theorem runBody_pushed (th : Th) (c : Co) (steps : List Step) :
    Pushed th (runBody th c steps).1 (runBody th c steps).2.2 ∧ (runBody th c steps).1.now = th.now := by
  induction steps generalizing c th with
  | nil => exact ⟨.none _ rfl rfl, rfl⟩
  | cons st rest ih =>
    cases st with
    | susp y => exact ⟨.none _ rfl rfl, rfl⟩
    | delay y d => exact ⟨.time y _ rfl rfl, rfl⟩
    | until_ y t => exact ⟨.time y t rfl rfl, rfl⟩
    | enter => exact ih _ _
    | setSys s => exact ih _ _
    | wrongSys => exact ih _ _
    | exit => exact ih _ _
    | cancel => exact ⟨.cancel rfl rfl, rfl⟩
    | req j =>
      obtain ⟨hp, hn⟩ := ih { th with req := th.req ++ [j] } c
      refine ⟨?_, hn⟩
      simp only [runBody]
      exact Pushed.of_eq (th1 := { th with req := th.req ++ [j] }) rfl rfl hp
    | panic k => exact ⟨.none _ rfl rfl, rfl⟩
    | ret r => exact ⟨.none _ rfl rfl, rfl⟩

end Oc.Co

namespace Oc.Co
open Oc.Spec.C07

theorem afterSwitch_wf (th : Th) (c : Co) (e : End) (hw : Wf c) : Wf (afterSwitch th c e).2.1 := by
  unfold afterSwitch
  cases e with
  | yielded y =>
    simp only
    split
    · split
      · split
        · rename_i c' hc; exact wf_of_running_change hw _ _ rfl hc
        · exact hw
      · split
        · rename_i c' hc; exact wf_of_running_change hw _ _ rfl hc
        · exact hw
    · exact hw
    · exact hw
  | returned r =>
    simp only
    split
    · rename_i c' hc; exact wf_of_running_change hw _ _ rfl hc
    · exact hw
  | panicked m =>
    simp only
    split
    · rename_i c' hc; exact wf_of_running_change hw _ _ rfl hc
    · exact hw

/-- empty request stacks stay empty across the switch back, whatever the body queued -/
theorem afterSwitch_balanced (th0 th : Th) (c : Co) (e : End) (h0t : th0.ts = []) (h0c : th0.cn = [])
    (hp : Pushed th0 th e) (ha : Active c) :
    (afterSwitch th c e).1.ts = [] ∧ (afterSwitch th c e).1.cn = [] := by
  unfold afterSwitch
  cases hp with
  | none e h1 h2 =>
    rw [h0t] at h1; rw [h0c] at h2
    cases e with
    | yielded y =>
      simp only
      rcases ha with hs | ⟨y', n, s, hs⟩
      · simp only [hs, h2, List.headD_nil, Bool.false_eq_true, if_false]
        split <;> simp [h1]
      · simp [hs, h1, h2]
    | returned r => simp only; split <;> exact ⟨h1, h2⟩
    | panicked m => simp only; split <;> exact ⟨h1, h2⟩
  | time y t h1 h2 =>
    rw [h0t] at h1; rw [h0c] at h2
    simp only
    rcases ha with hs | ⟨y', n, s, hs⟩
    · simp only [hs, h2, List.headD_nil, Bool.false_eq_true, if_false]
      split <;> simp [h1]
    · simp [hs, h1, h2]
  | cancel h1 h2 =>
    rw [h0t] at h1; rw [h0c] at h2
    simp only
    rcases ha with hs | ⟨y', n, s, hs⟩
    · simp only [hs, h2, List.headD_cons, if_true]
      split <;> simp [h1]
    · simp [hs, h1, h2]

theorem resume_wf (th : Th) (c : Co) (p : Nat) (hw : Wf c) : Wf (resume th c p).2.1 := by
  unfold resume
  split
  · exact hw
  · exact hw
  · split
    · exact hw
    · rename_i c1 hc1
      have hw1 := wf_toRunning hw hc1
      have ha1 := active_toRunning hc1
      split
      · exact hw1
      · split
        · exact afterSwitch_wf _ _ _ hw1
        · have hw2 : Wf { c1 with started := true, got := c1.got ++ [p] } := hw1
          have ha2 : Active { c1 with started := true, got := c1.got ++ [p] } := ha1
          exact afterSwitch_wf _ _ _ (runBody_wf th _ c1.prog hw2 ha2).1

theorem resume_balanced (th : Th) (c : Co) (p : Nat) (ht : th.ts = []) (hc : th.cn = []) :
    (resume th c p).1.ts = [] ∧ (resume th c p).1.cn = [] := by
  unfold resume
  split
  · exact ⟨ht, hc⟩
  · exact ⟨ht, hc⟩
  · split
    · exact ⟨ht, hc⟩
    · rename_i c1 hc1
      have ha1 := active_toRunning hc1
      split
      · exact ⟨ht, hc⟩
      · split
        · exact afterSwitch_balanced th th _ _ ht hc (.none _ rfl rfl) ha1
        · have hb := runBody_pushed th { c1 with started := true, got := c1.got ++ [p] } c1.prog
          have ha2 : Active { c1 with started := true, got := c1.got ++ [p] } := ha1
          have hact := runBody_active th { c1 with started := true, got := c1.got ++ [p] } c1.prog ha2
          exact afterSwitch_balanced th _ _ _ ht hc hb.1 hact

end Oc.Co

namespace Oc.Co

theorem got_of_running_change {c c' : Co} (new : St) (cb : String)
    (hr : (if c.state = .running then some (c.change new cb) else none) = some c') : c'.got = c.got := by
  split at hr
  · simp only [Option.some.injEq] at hr; subst hr; rfl
  · simp at hr

theorem afterSwitch_got (th : Th) (c : Co) (e : End) : (afterSwitch th c e).2.1.got = c.got := by
  unfold afterSwitch
  cases e with
  | yielded y =>
    simp only
    split
    · split
      · split
        · rename_i c' hc; exact got_of_running_change _ _ hc
        · rfl
      · split
        · rename_i c' hc; exact got_of_running_change _ _ hc
        · rfl
    · rfl
    · rfl
  | returned r =>
    simp only
    split
    · rename_i c' hc; exact got_of_running_change _ _ hc
    · rfl
  | panicked m =>
    simp only
    split
    · rename_i c' hc; exact got_of_running_change _ _ hc
    · rfl

end Oc.Co
