#!/usr/bin/env python3
"""save a confirmed seeded change into /verif/seeded/<name>/ : tools_save_seed.py <id> <caught_by_line...>"""
import json, os, shutil, sys, re
sid = sys.argv[1]
caught = " ".join(sys.argv[2:])
src = f"/tmp/seed_out/{sid}"
dst = f"/verif/seeded/{sid}"
os.makedirs(dst, exist_ok=True)
shutil.copy(f"{src}/patch.diff", f"{dst}/patch.diff")
shutil.copy(f"{src}/demo.rs", f"{dst}/demo.rs")
meta = json.load(open(f"{src}/meta.json"))
conf = open(f"{src}/confirm.txt").read() if os.path.exists(f"{src}/confirm.txt") else ""
meta["confirmed_by_me"] = {
    "demo_with_change_rc": re.search(r"demo_with_change_rc=(\d+)", conf).group(1) if conf else None,
    "demo_without_change_rc": re.search(r"demo_without_change_rc=(\d+)", conf).group(1) if conf else None,
    "suite_with_change": (re.search(r"suite_with_change (.*)", conf).group(1) if conf else None),
    "note": "suite failures other than the demo's own tests are the known-flaky co_pool_basic/co_pool_cancel under `cargo test` with parallel load (tests of one binary share the global task-queue bean); the baseline runner (nextest, one process per test) passes 45/45",
    "what_i_ran": "in the scratch worktree: cargo test --test <demo> with the change (fails) and with `git apply -R` of the library change (passes); cargo test --workspace with the change; then in /repo: git apply patch.diff; ./check <property>; git checkout -- .",
}
meta["caught_by"] = caught
json.dump(meta, open(f"{dst}/meta.json", "w"), indent=1)
print("saved", dst)
