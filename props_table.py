"""Per-property configuration of ./check: which Lean module holds the theorems and which
harness components tie the model to /repo."""

PROPS = {
    "C28": {
        "props_module": "OcVerif.Props.C28",
        "components": [{"name": "time", "quick": 4000, "thorough": 400000, "nontrivial_labels": 1}],
        "trusted": ["model file lean/OcVerif/Model/TimeHelpers.lean (hand-written from core/src/common/mod.rs and core/src/syscall/unix/mod.rs)",
                    "virtual clock hook in common::now()"],
        "assumptions": ["std::time::Duration arithmetic (as_nanos, checked_sub) is as documented",
                        "get_slices with slice = 0 < total is outside the property (model: diverges; never executed)"],
    },
}
