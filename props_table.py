"""Per-property configuration of ./check: which Lean module holds the theorems and which
harness components tie the model to /repo."""

PROPS = {
    "C28": {
        "props_module": "OcVerif.Props.C28",
        "components": [{"name": "time", "quick": 4000, "thorough": 400000, "nontrivial_labels": 1}],
        "trusted": ["model file lean/OcVerif/Model/TimeHelpers.lean (hand-written from core/src/common/mod.rs and core/src/syscall/unix/mod.rs)",
                    "virtual clock hook in common::now()"],
        "assumptions": ["std::time::Duration arithmetic (as_nanos, checked_sub) is as documented",
                        "get_slices with slice = 0 < total is outside the property (model: diverges; never executed)"],
    },
    "C03": {
        "props_module": "OcVerif.Props.C03",
        "components": [{"name": "oq", "quick": 1500, "thorough": 150000, "nontrivial_labels": 3, "quick_shards": 8},
                       {"name": "pq", "quick": 1000, "thorough": 100000, "nontrivial_labels": 3, "quick_shards": 8},
                       {"name": "qconc", "quick": 60, "thorough": 3000, "nontrivial_labels": 1, "quick_shards": 4}],
        "trusted": ["model files lean/OcVerif/Model/Queue/{Ordered,Plain,Run}.lean, lean/OcVerif/Model/Conc/LenCounter.lean",
                    "crossbeam Injector / SkipMap and st3 Worker/Stealer are modelled as linearizable sequential objects",
                    "qconc: real-thread runs sample schedules; the all-schedules claim is the Lean theorem C03_len_conc"],
        "assumptions": ["each local queue handle is used by one thread at a time (owner discipline; see C01)",
                        "rand::rng() steal start is resolved angelically: the model must match for some start < nlocals"],
    },
    "C04": {
        "props_module": "OcVerif.Props.C04",
        "components": [{"name": "oq", "quick": 1500, "thorough": 150000, "nontrivial_labels": 3, "quick_shards": 8},
                       {"name": "pq", "quick": 1000, "thorough": 100000, "nontrivial_labels": 3, "quick_shards": 8}],
        "trusted": ["model files lean/OcVerif/Model/Queue/{Ordered,Plain,Run}.lean",
                    "every queue call runs in a forked child under a 3 s watchdog: a hang is an observed outcome",
                    "crossbeam Steal::Retry loops are not modelled (lock-freedom of crossbeam is trusted)"],
        "assumptions": ["sequential histories; concurrent reachability of a spinning state is covered by the loop bound holding from *every* state of the local map"],
    },
    "C05": {
        "props_module": "OcVerif.Props.C05",
        "components": [{"name": "oq", "quick": 1500, "thorough": 150000, "nontrivial_labels": 3, "quick_shards": 8}],
        "trusted": ["model files lean/OcVerif/Model/Queue/{Ordered,Run}.lean",
                    "residence (which queue holds an item) is the model's, valid up to the first divergence between model and implementation"],
        "assumptions": ["sequential histories (the property quantifies over single-threaded histories)"],
    },
    "C06": {
        "props_module": "OcVerif.Props.C06",
        "components": [{"name": "oq", "quick": 1500, "thorough": 150000, "nontrivial_labels": 3, "quick_shards": 8},
                       {"name": "pq", "quick": 1000, "thorough": 100000, "nontrivial_labels": 3, "quick_shards": 8}],
        "trusted": ["model files lean/OcVerif/Model/Queue/{Ordered,Plain,Run}.lean",
                    "starvation counter and idle check use the model's residence up to the first divergence"],
        "assumptions": ["C06_idle is proved for local capacity >= 1; capacity 0 (nothing is ever stored locally) is covered by the correspondence runs only"],
    },
}
