#!/usr/bin/env python3
"""Regenerate MANIFEST.json from props_table.py and manifest_meta.py (kept valid at all times)."""
import json, os, sys
ROOT = os.path.dirname(os.path.abspath(__file__))
sys.path.insert(0, ROOT)
from props_table import PROPS
from manifest_meta import META, NOT_YET, HOOK_COMMITS

ids = [json.loads(l)["id"] for l in open(os.path.join(ROOT, "properties.jsonl"))]
checks = []
for pid in ids:
    if pid not in PROPS:
        continue
    m = META[pid]
    checks.append({
        "property_id": pid,
        "quick_cmd": f"./check {pid} --tier quick",
        "thorough_cmd": f"./check {pid} --tier thorough",
        "evidence_file": f"/verif/evidence/{pid}.json",
        "replay_cmd_template": f"./check {pid} --replay {{path}}",
        "engine": "lean4-proof+correspondence",
        "level_claimed": {"category": "proof", "text": m["text"], "design_ref": m.get("design_ref", "DESIGN.md §4")},
        "level_note": m["note"],
        "technique": m.get("technique", "Lean 4 theorems over a hand-written executable model; model tied to /repo by a differential correspondence check (och | ocmodel) with the Lean Spec evaluated on the implementation's history"),
    })
man = {
    "version": 1,
    "setup_cmd": "./setup.sh",
    "hooks": {
        "guard": "cargo feature `verif` of open-coroutine-core (cfg(feature = \"verif\"))",
        "enable": "the harness crate /verif/harness depends on /repo/core with features = [\"verif\"]",
        "baseline_off_cmd": "cd /repo && (cargo nextest run --workspace --no-fail-fast --offline --test-threads 8 || cargo test --workspace --no-fail-fast --offline)",
        "source_commits": HOOK_COMMITS,
        "add_only": True,
    },
    "engines": [{
        "name": "lean4-proof+correspondence", "path": "/verif/check",
        "serves_properties": [c["property_id"] for c in checks],
        "kind_free_text": "Lean 4 model + theorems (lean/OcVerif), Rust correspondence harness (harness/), Python orchestrator (check)",
    }],
    "checks": checks,
    "notes": "See DESIGN.md. Every check: lake build of the property's theorems + #print axioms audit, cargo rebuild of the harness against /repo's working tree, differential run implementation vs Lean model, Lean Spec on implementation histories.",
    "not_applicable": [{"property_id": pid, "reason": NOT_YET.get(pid, "not built yet in this round; see DESIGN.md §6 build order")} for pid in ids if pid not in PROPS],
}
json.dump(man, open(os.path.join(ROOT, "MANIFEST.json"), "w"), indent=1)
print("claimed:", [c["property_id"] for c in checks])
