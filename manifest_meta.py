"""Human-written level text per claimed property (consumed by gen_manifest.py)."""
HOOK_COMMITS = ["e648131"]
NOT_YET = {}
META = {
    "C28": {
        "text": "Closed-form theorems over all Nat (superset of u64/u128) durations, clocks and timeval fields: deadlines saturate, slices fit/sum/terminate/count, zero limit = unlimited. Proof is the right level: the property is pure arithmetic over an unbounded domain; the model is 3 small functions mirrored line by line and compared with the real functions on boundary-heavy inputs every run.",
        "note": "Trusted: Lean kernel; hand-written model of get_timeout_time/get_slices/get_time_limit; differential harness (virtual clock hook in common::now(), accessor for the crate-private get_time_limit); std::time::Duration arithmetic.",
        "design_ref": "DESIGN.md §4 C28",
    },
}
