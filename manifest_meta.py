"""Human-written level text per claimed property (consumed by gen_manifest.py)."""
HOOK_COMMITS = ["e648131", "c2c8839", "e6e5513", "64250c5", "03f0d10", "cd92619", "c0197ee"]
NOT_YET = {}
META = {
    "C27": {
        "text": "Theorems over every interleaving of any number of callers with the kernel's completions (any order, any time, any result), by an inductive invariant: no completion is ever dropped (C27_no_completion_dropped); a caller that returns returns the errno translation of a value the kernel produced for the request carrying its own token (C27_own_result); negative completions become -1 with errno = -result (C27_errno); a completion touches only the slot registered under its own token (C27_completion_frame); the order the code had before the fix loses the completion taken between submit and register (C27_old_order_drops). The producer side of the submission queue (create view / write entry / publish tail): under the lock the kernel is handed exactly the pushed entries, in order, whatever threads push (C27_sq_locked_no_loss); without it two views overwrite each other (C27_sq_unlocked_loses). Tie: the harness built with the io_uring feature runs real hooked write/read pairs, TCP send/recv and erroneous calls from task coroutines (1-4 event loops, the coroutines migrate between the loop threads) and plain threads through the real rings and checks every result and errno.",
        "note": "Trusted: Lean kernel; hand-written routing model; io-uring crate and kernel; pause hook. Partial: the kernel's side of the ring (consumption of the SQ, CQ, SQPOLL) is trusted, not modelled.",
        "design_ref": "DESIGN.md I.3 / §4 C27",
    },
    "C28": {
        "text": "Closed-form theorems over all Nat (superset of u64/u128) durations, clocks and timeval fields: deadlines saturate, slices fit/sum/terminate/count, zero limit = unlimited. Proof is the right level: the property is pure arithmetic over an unbounded domain; the model is 3 small functions mirrored line by line and compared with the real functions on boundary-heavy inputs every run.",
        "note": "Trusted: Lean kernel; hand-written model of get_timeout_time/get_slices/get_time_limit; differential harness (virtual clock hook in common::now(), accessor for the crate-private get_time_limit); std::time::Duration arithmetic.",
        "design_ref": "DESIGN.md §4 C28",
    },
    "C03": {
        "text": "Theorems over every sequential history (any number of local queues, capacities, priorities, steal starts): pushed = popped + resident as multisets, at-most-once, totality, counter = size; and an interleaving invariant over any number of threads and schedules for the shared length counter (len = items at quiescence, never under-reports). Tied to the code by differential runs of both queues (oq, pq) and by real-thread runs compared at quiescence (qconc).",
        "note": "Trusted: Lean kernel; hand-written models (Ordered/Plain/Run/LenCounter); crossbeam Injector/SkipMap and st3 Worker as linearizable objects; owner discipline of local handles; real-thread runs only sample schedules (the all-schedules claim is the theorem). Plain-queue theorems are not yet stated (model + correspondence only).",
        "design_ref": "DESIGN.md §4 C03",
    },
    "C04": {
        "text": "Termination theorems: the only unbounded loop (push_to_global) ends within count-done+1 iterations from EVERY state of the local map, hence every push/pop/history returns; all other loops are structurally recursive total functions. Tie: every real queue call runs under a watchdog in a forked child, a hang is an observed outcome that the model (fuel exhausted) must predict.",
        "note": "Trusted: Lean kernel; models; crossbeam Steal::Retry loops (lock-freedom) are not modelled; the 1 s watchdog as the observation of non-termination.",
        "design_ref": "DESIGN.md §4 C04",
    },
    "C05": {
        "text": "Refinement of every queue of the system to an abstract stable sorted list: push = stable insertion, pop = head, equal priorities FIFO, keys ordered in every reachable state (overflow and steals included), single queue without overflow = stable sort; Int priorities (superset of i64). Tie: differential runs; at the first divergence the implementation's pop is checked against the model's residence (not-head => violation).",
        "note": "Trusted: Lean kernel; models; residence tracking through the model up to the first divergence.",
        "design_ref": "DESIGN.md §4 C05",
    },
    "C06": {
        "text": "Tick arithmetic incl. u32 wrap (a multiple of 61 within any 61 pops), service of the shared queue on such a pop, and idle theorem (a local pop returns none only if every queue is empty) for all reachable states with capacity >= 1. Tie: differential runs with long pop bursts and idle-sibling patterns; starvation counter and idle check on the implementation history.",
        "note": "Trusted: Lean kernel; models; capacity 0 idle case covered by correspondence only.",
        "design_ref": "DESIGN.md §4 C06",
    },
    "C15": {
        "text": "Theorems on the pool model, for every N, d, t0: N >= 1 tasks that each sleep d, submitted to a pool with room for N workers, are all started in the first scheduling pass - each on its own worker, in order - and every one is parked with the wake-up time t0 + d, nothing stays queued and the clock has not moved (C15_n_sleepers_one_d, by induction over the queue with the loop-iteration lemma; C15_sleeps_overlap is the general invariant form), and after the pass at t0 + d every one of the N tasks has published its own value and no worker is left (C15_n_sleepers_done); a blocking worker hands over to a fresh worker before control returns to the loop (C15_blocked_worker_hands_over); every worker whose time has come is woken in that same pass (C15_due_all_woken). Tie: a real, unstarted EventLoop driven turn by turn with a virtual clock, tasks blocking in the real hooked nanosleep; the finishing time of every task (rounds when N exceeds the pool size, 10 ms slices, computing tasks in between) is compared exactly with the model; `rtloop` runs a started loop on the wall clock with keep-alive 0-8 s and 0-2 core workers and judges lateness beyond 1200 ms.",
        "note": "Trusted: Lean kernel; hand-written pool model; the verif_loop hook; virtual clock. Partial: wall-clock behaviour of the running loop thread (jitter, epoll timeouts) is not in the model; pool configurations with keep-alive / core workers are exercised on the wall clock only.",
        "design_ref": "DESIGN.md I.3 / §4 C15",
    },
    "C16": {
        "text": "Theorem C16_spec_holds: for every kernel script (unbounded list of partial/EAGAIN/EINTR/error answers), wait script, buffer or iovec shape, blocking mode and time limit, the executable C16 specification (return = bytes moved; -1 only with nothing moved and the failing call's errno; zero-length => 0) has no violated clause on the model; the same Lean predicate is evaluated on the real calls' observed behaviour (14 hooked calls, scripted kernel through fn_ptr, byte-level placement check).",
        "note": "Trusted: Lean kernel; model of the four retry-loop macros; scripted kernel + wait interception + virtual clock hooks; real socketpair for fd facts. Not modelled: connect, accept, io_uring layer, coroutine-state bookkeeping of the facade.",
        "design_ref": "DESIGN.md §4 C16",
    },
    "C17": {
        "text": "Theorem C17_spec_holds / C17_requests_are_unfilled: every request of a vectored hooked call is the caller's whole (still unfilled) array with a matching element count, for every script and shape; the executable spec (ranges = exactly the unfilled bytes in order, inside the caller's buffers; count = array length) is evaluated on the requests the scripted kernel really received.",
        "note": "Trusted: as C16. For msghdr the harness reads at most shape-many elements of the passed array (no read past a correct array).",
        "design_ref": "DESIGN.md §4 C17",
    },
    "C18": {
        "text": "Theorems: blocking mode restored on every path (C18_flag_restored), a caller-non-blocking descriptor is never waited on and gets -1/EAGAIN immediately (C18_nonblocking_never_waits, C18_nonblocking_immediate), for every script; connect: never waits on a non-blocking descriptor, waits at most once and bounded, restores the mode whatever the outcome, including an asynchronous failure after the wait (C18_connect_*). Tie: real fcntl(F_GETFL) before/after each of 14 hooked calls and connect in both modes, recorded waits, receive calls with and without MSG_WAITALL, connect on a connected socket and on one whose attempt was refused. `hookproc`: the same through the hook dylib in a separate process (recv on a blocking / non-blocking descriptor, flag read back).",
        "note": "Trusted: as C16. The 'hook applies process-wide' clause (dylib interposition) is not covered.",
        "design_ref": "DESIGN.md §4 C18",
    },
    "C19": {
        "text": "Refinement to the kernel's own option value: invariant 'every cached limit is the kernel's current value of a live socket' proved inductive over open (any descriptor number, reuse included) / setsockopt / hooked I/O / close, hence every hooked I/O of every well-formed history applies the current option value (C19_history). The model has no abort path. Tie: real sockets (socketpair), real descriptor reuse, hooked setsockopt/close, recv/send_time_limit compared with raw getsockopt after every op, each history in a forked child. `hookproc`: a separate process links the hook dylib built from /repo/hook and uses plain libc socketpair/setsockopt/recv/close with descriptor reuse; the limit the second recv applies is the model's answer for the same history.",
        "note": "Trusted: Lean kernel; cache model; the harness' raw getsockopt as the kernel truth; closes go through the hook.",
        "design_ref": "DESIGN.md §4 C19",
    },
    "C14": {
        "text": "Interval-arithmetic theorems over all argument values: sleep/usleep/nanosleep request exactly the asked time; poll's and select's doubling loops add up to exactly the timeout when nothing is ready (select rounds up to the next ms: never early, < 1 ms late); pthread_cond_timedwait returns ETIMEDOUT exactly at the absolute deadline; invalid arguments => EINVAL and no wait; the event loop's 10 ms slicing never returns before the deadline and overshoots by at most the accumulated slack. Tie: the real calls with scripted probes, intercepted waits and a virtual clock (exact list of requested waits compared), plus a wall-clock smoke on a live event loop. `hookproc`: sleep / usleep / nanosleep from a plain thread of a separate process that links the hook dylib.",
        "note": "Trusted: Lean kernel; hand-written model; wait interception hook + virtual clock; scheduling slack is an assumption (measured only by the smoke run). Coroutine callers are not exercised by this check.",
        "design_ref": "DESIGN.md §4 C14",
    },
    "C07": {
        "text": "Invariant Wf (the listener log is a path of documented edges from Ready ending at the current state) proved to hold initially and across every resume, for every step program, resume sequence, clock and request-stack content; each guarded transition proved to report exactly one legal change or refuse without effect; terminal states absorbing. Tie: step programs interpreted by real coroutines with a recording listener (all callbacks), result/state/events/log diffed per resume; reported edges, chaining and terminal absorption also checked on the implementation's own event strings. The specification on the reported changes knows the case's clock: Suspend -> Ready/Running is an edge only once the wake-up time has come.",
        "note": "Trusted: Lean kernel; coroutine model; corosensei context switching; the recording listener.",
        "design_ref": "DESIGN.md §4 C07",
    },
    "C08": {
        "text": "Theorems: each resume parameter is delivered to the body exactly once and in order (or not at all when the body is not reached); the yielded / returned / panic value is what resume reports; completion reported once and then absorbing; panic contained (static and formatted messages) and resume never unwinds while the context is unfinished. Tie: as C07, payload values generated per case, catch_unwind around every resume. The specification compares the reported yield (value and wake-up time) with the step the body executed.",
        "note": "Trusted: as C07; unwinding mechanics of catch_unwind.",
        "design_ref": "DESIGN.md §4 C08",
    },
    "C09": {
        "text": "Invariant: the thread-local TIMESTAMP/CANCEL request stacks are empty after every resume, for every body (plain, timed, cancel, yields made in syscall state) and any interleaving of coroutines on the thread; hence a plain suspend reports (0, not cancelled) and a timed one its own time. Tie: several real coroutines resumed in generated orders on one thread, each resume's report compared. Migration: for every sequence of suspensions and resumptions on any threads each thread's stack of current entries holds exactly the coroutine it executes (C09_current_follows_migration); the address kept across the switch by the inlined accessors refuted (C09_old_cached_address_counterexample).",
        "note": "Trusted: as C07. Asynchronous (signal) cancel delivery is modelled at yield-point granularity.",
        "design_ref": "DESIGN.md §4 C09",
    },
    "C25": {
        "text": "Refinement of the per-coroutine storage to a map (put returns the previous value, get the latest, remove returns and deletes), privacy (no operation on one coroutine changes another's lookups) and a counting invariant proving every value ever stored is dropped exactly once (by the caller on overwrite/remove, or with its coroutine), for every operation history. Tie: histories over several real coroutines with drop-counting values; outputs and final per-value drop counts compared. Eight keys of different lengths and orders (one empty, one a prefix of another); every answer is compared with the abstract map as a specification, so a difference is a violation with that history, not only a disagreement.",
        "note": "Trusted: Lean kernel; model; DashMap; values read back with their stored type.",
        "design_ref": "DESIGN.md §4 C25",
    },
    "C26": {
        "text": "Interleaving invariant over any number of threads, lookups and schedules at atomic-operation granularity: every instance a thread has received for a name is the registered one and registrations are never replaced; hence all concurrent first users get the same instance (C26_unique) and it stays the one later lookups return (C26_stable). The pre-fix get-then-insert protocol is refuted by a two-thread schedule. Tie: 2-32 real threads behind a barrier in a fresh process per case; number of distinct instances per name and stability compared with the theorem's prediction.",
        "note": "Trusted: Lean kernel; interleaving model; atomicity of DashMap::entry and OnceLock; real-thread runs sample schedules only.",
        "design_ref": "DESIGN.md §4 C26",
    },
    "C20": {
        "text": "Theorems: the token handed to the OS and read back from the event is the 64-bit id itself (round-trip, injective; the pre-fix 32-bit fold refuted by a witness); a wait for read readiness leaves the descriptor registered with the waiter's own token in every case (new, upgrade from write, re-wait by another waiter) and the readiness event of that descriptor reports exactly that token, nothing for descriptors without read interest. Tie: real poller + socketpairs, tokens with high/low/colliding-fold bit patterns, kernel table read from fdinfo, readable and writable events' tokens compared; `rtwake`: on a started loop a coroutine in one long wait_read_event is resumed within 1200 ms of its descriptor becoming readable, also next to a coroutine that uses up every slice and with pools that keep idle workers. Known finding: one epoll registration per descriptor means a read waiter and a write waiter with different tokens share one token.",
        "note": "Trusted: Lean kernel; selector model; epoll semantics as modelled (cross-checked against fdinfo every op); the event-loop thread's resume path above the selector is exercised on the wall clock only (`rtwake`). Partial: prompt wake-up latency is runtime.",
        "design_ref": "DESIGN.md §4 C20",
    },
    "C21": {
        "text": "Invariant Cons (for every descriptor the kernel epoll entry exists exactly when a read or write interest is recorded, with exactly those interests) proved initial and preserved by add/del read/write, del, close and event delivery, hence for every history (C21_history); every epoll_ctl issued under the invariant succeeds; after close the number has no record and no kernel entry. Tie: every operation on a real poller, kernel table from /proc/self/fdinfo compared with the model's and with the union of outstanding interests.",
        "note": "Trusted: as C20. One poller only (multi-loop sharing of the process-wide records is not covered); shutdown() is represented by the del_read/del_write it performs.",
        "design_ref": "DESIGN.md §4 C21",
    },
    "C22": {
        "text": "Theorems on the bookkeeping model of monitor.rs, any number of scheduling threads, any times, late or stale signal delivery: the handler never touches a thread whose current coroutine is not Running (C22_syscall_never_preempted) and entering a system call withdraws the node (C22_syscall_withdraws_node); a coroutine Running since t0 is signalled by every scan from t0 + slice on and the handler suspends it (C22_long_runner_interrupted), not before (C22_not_before_slice); other threads' records are untouched (C22_frame); wherever preemptions fall the computed value is the same (C22_result_unchanged). Tie: the harness built with the `preemptive` feature runs real busy / syscall-state / yielding coroutines on 1-8 scheduling threads and checks values, preemption counts per section, completion and starvation. Known finding: crashes or hangs with six or more scheduling threads holding several started coroutines.",
        "note": "Trusted: Lean kernel; hand-written model; kernel signal delivery; corosensei. Partial: the model is the bookkeeping; memory/lock safety of preempting at an arbitrary instruction is exercised on the real code only.",
        "design_ref": "DESIGN.md I.3 / §4 C22",
    },
    "C23": {
        "text": "Theorems over every nest of maybe_grow_with calls (any depths, red-zone/size pairs, remaining-stack readings, panic and catch placement), for the coroutine and the plain-thread path: registered segments after a call equal those before it, on return and on unwinding (C23_restored); every callback starts with at least its red zone available (C23_room); the callback's value is returned (C23_value); growth decisions after a caught panic are those of a fresh state (C23_recursion_after_panic); the pre-fix thread path refuted by a witness. Tie: real nested calls with real frames inside a coroutine and on a plain thread, panics caught at generated levels; per call the depth before/inside/after, growth and room observed and compared.",
        "note": "Trusted: Lean kernel; model; stack switching and page rounding; the harness' stack measurements. The property's 'deep recursion keeps working' is exercised up to 5 nested growths per chain, several chains per thread.",
        "design_ref": "DESIGN.md §4 C23",
    },
    "C24": {
        "text": "Theorems: the message is 'stack overflow' iff the faulting stack pointer lies outside every recorded segment (C24_message, all segment lists and pointers); a fault ends that coroutine in an absorbing error state (C24_fault_is_error); resuming any coroutine, faulting or not, leaves every other coroutine untouched and their results independent of it (C24_contained, C24_others_unaffected). Tie: real faults of four kinds after k suspends, interleaved with healthy coroutines on one thread, every resume result compared; stack_ptr_in_bounds compared at the segment boundaries.",
        "note": "Trusted: Lean kernel; model; trap redirection and sigaltstack. Partial: the faulting stack pointer is not observable from outside the handler, so the sp-to-message link is tied only through the pure bounds function.",
        "design_ref": "DESIGN.md §4 C24",
    },
    "C10": {
        "text": "Theorems from every scheduler state: check_ready never wakes an entry before its time (C10_not_early) and leaves no due entry waiting (C10_due_are_woken); a popped coroutine with a pending cancel is dropped without being resumed or reported (C10_cancelled_not_resumed); resuming or dropping one coroutine leaves every other coroutine untouched (C10_frame); a result is reported exactly when the coroutine finishes, with its own outcome, and a finished coroutine enters no queue again (C10_result_when_finished / C10_error_when_failed); delayed and yielding coroutines are parked in the right place (C10_park_delayed). Tie: a real Scheduler driven by generated submit/pass/advance/cancel/try_resume histories, per pass the resumed sequence and the result map compared; the Spec (exactly-once, own value, not early, woken when due, not after cancel, eventually reported) evaluated on the implementation's outputs. Groups of coroutines parked until one common instant are generated too (the order among them is unspecified and compared as a set).",
        "note": "Trusted: Lean kernel; scheduler and coroutine models; virtual clock. The exactly-once claim across whole passes is stated per iteration (a finished coroutine is in no queue) rather than as a global placement invariant.",
        "design_ref": "DESIGN.md §4 C10",
    },
    "C11": {
        "text": "Counting invariant (running size = number of workers that have not returned from their loop) proved initial and preserved by every pool operation (C11_exact), including the drop of a parked worker on a cancel request (C11_parked_cancel_slot), growth bounded by the maximum size (C11_bounded), an idle worker with an empty queue leaves at once (C11_idle_worker_exits) and a stop with nothing left succeeds immediately (C11_stop_prompt). Several pools of one process: for every history of worker creations and exits, wherever each worker happens to run when it exits, every pool's count equals its own live workers (C11_multi_pool_exact), all zero once every worker has left (C11_multi_pool_quiescent), an idle worker leaves wherever it runs (C11_multi_idle_worker_leaves); the pre-fix rule refuted (C11_old_foreign_exit_counterexample, C11_old_idle_worker_spins). Tie: generated submit/pass/advance/cancel/wait/max/stop histories on a real pool, running size and state compared after every operation; `mpool`: 1-4 real pools with timed passes under the virtual clock so that started workers are resumed and finished by other pools, running sizes judged after every pass and at quiescence.",
        "note": "Trusted: Lean kernel; pool model (min_size 0, keep_alive 0, one thread); virtual clock.",
        "design_ref": "DESIGN.md §4 C11",
    },
    "C12": {
        "text": "Theorems: no operation moves the pool state backwards and only stop changes it (C12_monotone); submissions after stopping began are rejected with the queue untouched (C12_reject_after_stop); stop reports success only with state Stopped, no live worker and an empty queue (C12_accepted_run_before_ok); a successful stop leaves no waiter registered (C12_waiters_settled); a wait begun on a stopped pool fails at once (C12_wait_after_stopped). Tie: as C11, plus the Spec on the implementation's outputs (state never goes back, nothing accepted after stop, stop ok only when done, no hang). A task that submits to its own pool from inside its body is rejected like any other submitter once stopping has begun, also while stop drains it (C12_nested_submission_rejected/_accepted; pool histories with the task step N). `rtstop`: EventLoops::stop on a started runtime (1-3 loops, tasks that return, yield or sleep): success only with every accepted task run, success with a generous budget, later submissions rejected. EventLoops::stop: for every number of loops and every interleaving of start calls with arbitrarily late thread steps, a stop that reads a zero count finds every loop either not started or finished (C12_stop_sees_zero_only_when_all_exited); the pre-fix counting refuted (C12_old_stop_before_thread_ran).",
        "note": "Trusted: as C11. stop is exercised with a zero time budget (virtual clock); EventLoops::stop is covered by outcome on the wall clock (`rtstop`); stop_sync is not.",
        "design_ref": "DESIGN.md §4 C12",
    },
    "C01": {
        "text": "Theorems over every history of submissions to any loop, scheduling passes of any loop (local pop, steal, shared pop, overflow spill, the 61-tick rule) and cancel requests, any number of loops, any capacity: the submitted ids are exactly (as a multiset) ran ++ skipped ++ still-queued (C01_exactly_once), so nothing runs twice (C01_at_most_once) or disappears (C01_none_lost); only a requested cancel makes a pass skip a task (C01_skipped_only_if_cancelled, C01_taken_runs); a pass that finds nothing means nothing is queued anywhere (C01_no_stranding); passes of any single loop drain every queue (C01_drain); no call spins (C01_total). Proved by replaying the runtime's ghost history into the queue theorems of C03/C06. Tie: `rt` runs k real pools sharing the real process-wide queue and compares which tasks each pass executes, in order; `once` runs real loop threads against real submitter threads (tasks that return, yield, panic or block in a hooked sleep) and checks every task ran exactly once and finished; `qconc` (real threads on the task queue's type) attributes a stranded or duplicated item to this property too.",
        "note": "Trusted: Lean kernel; hand-written runtime + queue models; atomicity of individual queue calls (crossbeam/st3 and the pool's push/pop lock); harness. Partial: thread interleavings inside queue calls are exercised (once, qconc) but not proved.",
        "design_ref": "DESIGN.md §4 C01",
    },
    "C02": {
        "text": "Theorems over every interleaving (inductive `Reach`, unbounded) of the waiter's take / register / re-check / block / final-take steps with the completer's insert / notify steps and the passing of the deadline: a returned value is the task's own outcome (C02_own_result), a finished task never leaves its waiter blocked (C02_no_lost_wakeup), a timeout needs an expired deadline and an untaken or not yet produced result (C02_timeout_only_if_unfinished); the pre-fix code loses the wake-up (C02_old_lost_wakeup, by evaluation). Tie: pause points in the real wait/complete code let the harness force all 15 merges plus the late-completion and the two-pool schedule on a real pool with real threads, and the public JoinHandle of a real loop (finished / running task, patience 0-40 ms); outcome and promptness are compared with the model's run of the same schedule.",
        "note": "Trusted: Lean kernel; hand-written interleaving model (granularity = one DashMap or Mutex operation); pause hooks and gate controller; wall-clock promptness threshold. Partial: thread-level atomicity of DashMap/Condvar is assumed, not proved; multi-waiter and coroutine-waiter paths are not in this model.",
        "design_ref": "DESIGN.md §4 C02",
    },
    "C13": {
        "text": "Theorems: a task cancelled while queued is skipped by the worker that takes it - nothing starts, an error result is stored and its waiter registration removed (C13_before_start); requesting a cancel changes nothing but the cancel sets (C13_cancel_frame); skipping changes only that task's result and waiter (C13_skip_frame). Tie: as C11; tasks log when their body starts; `co` (the coroutines that run the tasks): a cancel issued for one coroutine never ends another one. A cancel that finds the task suspended inside its worker settles it when the scheduler drops that worker: result `cancelled` stored, waiter woken (C13_parked_cancel_settles, C13_parked_cancel_unwanted). `rtcancel`: on a started runtime a task is cancelled while it is in progress (spinning, yielding every 200 us, or parked in a hooked sleep); every other task must finish with its own value. The cancel of a task in progress: for every sequence of requests, switches of the thread between coroutines and arbitrarily late signal deliveries only requested coroutines are ever cancelled (C13_signal_cancels_only_requested); a signal that misses is made good by the cancel set (C13_missed_signal_still_cancels); the pre-fix handler refuted (C13_old_signal_hits_bystander).",
        "note": "Trusted: as C11. The running-task path (signal to the thread that is executing the coroutine, lookup/delivery race) is not exercised: partial.",
        "design_ref": "DESIGN.md §4 C13",
    },
}
